#!/usr/bin/env python
"""Demo for change A (get_manhattan_boundary spelled as one rotated arm).

Run from the worktree root:  /venv/bin/python _seed/A/demo.py

Exits 0 both on the pristine tree and with the patch applied.  It checks

1. `get_manhattan_boundary` against an embedded copy of the historical
   four-loops implementation (values, order, types, errors, freshness);
2. `move_obstacles` against an embedded reference implementation which does
   not use the library geometry at all (same seed => same cells swapped);
3. property C09 (objects are conserved) for every built-in transition
   function and several compositions on a broad family of awkward states;
4. C09 along histories of the shipped key-door and obstacle environments.
"""
import os
import sys

ROOT = os.path.dirname(
    os.path.dirname(os.path.dirname(os.path.abspath(__file__)))
)
sys.path.insert(0, ROOT)

import itertools as itt  # noqa: E402
import random  # noqa: E402
from collections import Counter  # noqa: E402
from functools import partial  # noqa: E402

import gym_gridverse  # noqa: E402

assert os.path.abspath(gym_gridverse.__file__).startswith(ROOT), (
    gym_gridverse.__file__,
    ROOT,
)

from gym_gridverse.action import Action  # noqa: E402
from gym_gridverse.agent import Agent  # noqa: E402
from gym_gridverse.envs import reset_functions as resets  # noqa: E402
from gym_gridverse.envs import transition_functions as tf  # noqa: E402
from gym_gridverse.envs.gridworld import GridWorld  # noqa: E402
from gym_gridverse.envs.observation_functions import (  # noqa: E402
    partially_occluded,
)
from gym_gridverse.envs.terminating_functions import reach_exit  # noqa: E402
from gym_gridverse.geometry import (  # noqa: E402
    Area,
    Orientation,
    Position,
    Shape,
    get_manhattan_boundary,
)
from gym_gridverse.grid import Grid  # noqa: E402
from gym_gridverse.grid_object import (  # noqa: E402
    Beacon,
    Box,
    Color,
    Door,
    Exit,
    Floor,
    Key,
    MovingObstacle,
    NoneGridObject,
    Telepod,
    Wall,
)
from gym_gridverse.rng import make_rng, reset_gv_rng  # noqa: E402
from gym_gridverse.spaces import (  # noqa: E402
    ActionSpace,
    ObservationSpace,
    StateSpace,
)
from gym_gridverse.state import State  # noqa: E402

CHECKS = Counter()


def check(condition, *info):
    CHECKS['total'] += 1
    if not condition:
        print('FAILED', *info)
        raise SystemExit(1)


# --------------------------------------------------------------------------
# 1. get_manhattan_boundary vs the historical spelling
# --------------------------------------------------------------------------


def reference_manhattan_boundary(y, x, distance):
    """historical implementation, on plain tuples"""
    boundary = []
    boundary.extend((y - distance + i, x + i) for i in range(distance))
    boundary.extend((y + i, x + distance - i) for i in range(distance))
    boundary.extend((y + distance - i, x - i) for i in range(distance))
    boundary.extend((y - i, x - distance + i) for i in range(distance))
    return boundary


def check_boundary_function():
    centers = [
        (0, 0),
        (0, 5),
        (5, 0),
        (3, 4),
        (-1, -1),
        (-7, 2),
        (2, -7),
        (10**9, -(10**9)),
    ]
    for (y, x), distance in itt.product(centers, range(1, 8)):
        center = Position(y, x)
        boundary = get_manhattan_boundary(center, distance)
        expected = reference_manhattan_boundary(y, x, distance)
        check(type(boundary) is list, 'boundary type', type(boundary))
        check(
            all(type(p) is Position for p in boundary), 'boundary item types'
        )
        check(
            [p.yx for p in boundary] == expected,
            'boundary values',
            center,
            distance,
            boundary,
            expected,
        )
        check(
            all(type(p.y) is int and type(p.x) is int for p in boundary),
            'coordinate types',
        )
        check(len(boundary) == 4 * distance, 'boundary length')
        check(len(set(boundary)) == 4 * distance, 'boundary distinct')
        check(center not in boundary, 'boundary excludes center')
        check(
            all(
                Position.manhattan_distance(center, p) == distance
                for p in boundary
            ),
            'boundary distance',
        )
        # keyword call, as used by move_obstacles
        check(
            get_manhattan_boundary(center, distance=distance) == boundary,
            'keyword call',
        )
        # results are fresh lists:  mutating one does not leak into the next
        boundary.clear()
        again = get_manhattan_boundary(center, distance)
        check([p.yx for p in again] == expected, 'repeated call', center)
        check(center == Position(y, x), 'center untouched')

    # the case used by the dynamics, spelled out by hand
    check(
        get_manhattan_boundary(Position(2, 3), 1)
        == [Position(1, 3), Position(2, 4), Position(3, 3), Position(2, 2)],
        'distance 1 order (top, right, bottom, left)',
    )
    check(
        get_manhattan_boundary(Position(0, 0), 2)
        == [
            Position(-2, 0),
            Position(-1, 1),
            Position(0, 2),
            Position(1, 1),
            Position(2, 0),
            Position(1, -1),
            Position(0, -2),
            Position(-1, -1),
        ],
        'distance 2 order',
    )

    for distance in [0, -1, -5]:
        try:
            get_manhattan_boundary(Position(1, 1), distance)
        except ValueError as error:
            check(
                str(error) == f'distance ({distance}) must be positive',
                'error message',
                str(error),
            )
        else:
            check(False, 'ValueError expected for distance', distance)


# --------------------------------------------------------------------------
# state generation
# --------------------------------------------------------------------------

SHAPES = [
    (1, 1),
    (1, 2),
    (2, 1),
    (1, 5),
    (5, 1),
    (2, 2),
    (2, 3),
    (3, 2),
    (3, 7),
    (6, 4),
    (5, 5),
]

ORIENTATIONS = [Orientation.F, Orientation.R, Orientation.B, Orientation.L]

OBJECT_FACTORIES = [
    (Floor, 10),
    (Wall, 3),
    (Exit, 1),
    (lambda: Exit(Color.GREEN), 1),
    (lambda: Door(Door.Status.OPEN, Color.RED), 1),
    (lambda: Door(Door.Status.CLOSED, Color.NONE), 1),
    (lambda: Door(Door.Status.LOCKED, Color.YELLOW), 1),
    (lambda: Door(Door.Status.LOCKED, Color.NONE), 1),
    (lambda: Key(Color.NONE), 2),
    (lambda: Key(Color.YELLOW), 2),
    (lambda: Key(Color.RED), 1),
    (MovingObstacle, 4),
    (lambda: Box(Floor()), 1),
    (lambda: Box(Key(Color.BLUE)), 1),
    (lambda: Box(Box(Wall())), 1),
    (lambda: Box(MovingObstacle()), 1),
    (lambda: Telepod(Color.NONE), 1),
    (lambda: Telepod(Color.GREEN), 2),
    (lambda: Beacon(Color.BLUE), 1),
]

HELD_FACTORIES = [
    lambda: None,
    NoneGridObject,
    lambda: Key(Color.NONE),
    lambda: Key(Color.YELLOW),
    lambda: Beacon(Color.RED),  # not holdable, but can be in the hand
]


def random_layout(pyrng, height, width, kind):
    factories, weights = zip(*OBJECT_FACTORIES)
    if kind == 'floor':
        return [[Floor for _ in range(width)] for _ in range(height)]
    if kind == 'obstacles':
        return [[MovingObstacle for _ in range(width)] for _ in range(height)]
    if kind == 'keys':
        return [
            [(lambda: Key(Color.NONE)) for _ in range(width)]
            for _ in range(height)
        ]
    if kind == 'sparse-obstacles':
        return [
            [
                pyrng.choice([Floor, Floor, MovingObstacle, Wall])
                for _ in range(width)
            ]
            for _ in range(height)
        ]
    return [
        pyrng.choices(factories, weights=weights, k=width)
        for _ in range(height)
    ]


def make_state(layout, position, orientation, held_factory):
    grid = Grid([[factory() for factory in row] for row in layout])
    agent = Agent(Position(*position), orientation, held_factory())
    return State(grid, agent)


def agent_positions(pyrng, height, width):
    positions = [(y, x) for y in range(height) for x in range(width)]
    if len(positions) <= 12:
        return positions
    corners = {
        (0, 0),
        (0, width - 1),
        (height - 1, 0),
        (height - 1, width - 1),
    }
    border = [
        p
        for p in positions
        if p[0] in (0, height - 1) or p[1] in (0, width - 1)
    ]
    inside = [p for p in positions if p not in border]
    chosen = set(corners)
    chosen.update(pyrng.sample(border, 4))
    chosen.update(pyrng.sample(inside, min(3, len(inside))))
    return sorted(chosen)


# --------------------------------------------------------------------------
# object bookkeeping
# --------------------------------------------------------------------------


def object_key(obj):
    """what an object *is*:  type, colour, and (for boxes) content"""
    key = (type(obj).__name__, obj.color)
    if isinstance(obj, Box):
        key += (object_key(obj.content),)
    return key


def snapshot(state):
    """rows of objects (the very objects, not copies) and the held object"""
    return [list(row) for row in state.grid.objects], state.agent.grid_object


def recorded_keys(before):
    """object keys (type, colour, content) as they are right now"""
    rows, held = before
    keys = {id(obj): object_key(obj) for row in rows for obj in row}
    keys[id(held)] = object_key(held)
    return keys


def identity_multiset(rows, held):
    objs = [obj for row in rows for obj in row if not isinstance(obj, Floor)]
    if not isinstance(held, NoneGridObject):
        objs.append(held)
    return Counter(id(obj) for obj in objs), {id(obj): obj for obj in objs}


def key_multiset(state):
    objs = [
        obj
        for row in state.grid.objects
        for obj in row
        if not isinstance(obj, Floor)
    ]
    if not isinstance(state.agent.grid_object, NoneGridObject):
        objs.append(state.agent.grid_object)
    return Counter(object_key(obj) for obj in objs)


def is_scenery(obj):
    return not (
        isinstance(obj, (Floor, MovingObstacle, Box)) or obj.holdable
    )


def check_shape_intact(state, height, width, *info):
    check(state.grid.shape == Shape(height, width), 'grid shape', *info)
    check(len(state.grid.objects) == height, 'number of rows', *info)
    check(
        all(len(row) == width for row in state.grid.objects),
        'row lengths',
        *info,
    )
    check(
        len({id(row) for row in state.grid.objects}) == height,
        'rows distinct',
        *info,
    )


def check_conservation(before, keys, state, action, may_open_box, *info):
    """C09 at the level of object identities (in-place dynamics)"""
    rows_before, held_before = before
    rows_after, held_after = snapshot(state)
    ids_before, objs_before = identity_multiset(rows_before, held_before)
    ids_after, objs_after = identity_multiset(rows_after, held_after)

    check(
        all(count == 1 for count in ids_after.values()),
        'an object is duplicated',
        *info,
    )
    # every cell still holds exactly one object, and floors are not shared
    floor_ids = Counter(
        id(obj) for row in rows_after for obj in row if isinstance(obj, Floor)
    )
    check(all(c == 1 for c in floor_ids.values()), 'shared floor', *info)

    lost = set(ids_before) - set(ids_after)
    gained = set(ids_after) - set(ids_before)
    if not lost and not gained:
        pass
    else:
        check(
            may_open_box and action is Action.ACTUATE,
            'objects created/destroyed',
            *info,
        )
        check(len(lost) == 1, 'more than one object destroyed', *info)
        (lost_id,) = lost
        box = objs_before[lost_id]
        check(isinstance(box, Box), 'a non-box was destroyed', box, *info)
        if isinstance(box.content, Floor):
            check(not gained, 'object created', *info)
        else:
            check(gained == {id(box.content)}, 'wrong box content', *info)

    # nothing recoloured / retyped (identities are the same, so compare the
    # keys recorded before with the keys now)
    for obj_id in set(ids_before) & set(ids_after):
        check(objs_before[obj_id] is objs_after[obj_id], 'id reuse', *info)
        check(
            object_key(objs_after[obj_id]) == keys[obj_id],
            'object recoloured or changed content',
            objs_after[obj_id],
            *info,
        )

    # scenery never moves
    for y, row in enumerate(rows_before):
        for x, obj in enumerate(row):
            if is_scenery(obj):
                check(
                    rows_after[y][x] is obj,
                    'scenery moved',
                    (y, x),
                    obj,
                    *info,
                )

    # the hand holds a grid-object, never a floor
    check(not isinstance(held_after, Floor), 'holding floor', *info)


# --------------------------------------------------------------------------
# 2. reference dynamics which do not use the library geometry
# --------------------------------------------------------------------------

HEADING_DELTAS = {
    Orientation.F: (-1, 0),
    Orientation.R: (0, 1),
    Orientation.B: (1, 0),
    Orientation.L: (0, -1),
}


def reference_pickndrop(rows, held, position, orientation, action):
    """returns (cell, new object in cell or None if unchanged, new held)"""
    if action is not Action.PICK_N_DROP:
        return None
    dy, dx = HEADING_DELTAS[orientation]
    y, x = position[0] + dy, position[1] + dx
    if not (0 <= y < len(rows) and 0 <= x < len(rows[0])):
        return None
    front = rows[y][x]
    hand_empty = isinstance(held, NoneGridObject)
    if front.holdable and hand_empty:
        return (y, x), 'floor', front
    if front.holdable and not hand_empty:
        return (y, x), held, front
    if isinstance(front, Floor) and not hand_empty:
        return (y, x), held, 'none'
    return None


def reference_move_obstacles(rows, rng):
    """moves obstacles on a list of rows, in place"""
    height, width = len(rows), len(rows[0])
    obstacles = [
        (y, x)
        for y in range(height)
        for x in range(width)
        if isinstance(rows[y][x], MovingObstacle)
    ]
    for y, x in obstacles:
        candidates = [
            (ny, nx)
            for ny, nx in [(y - 1, x), (y, x + 1), (y + 1, x), (y, x - 1)]
            if 0 <= ny < height
            and 0 <= nx < width
            and isinstance(rows[ny][nx], Floor)
        ]
        if candidates:
            ny, nx = candidates[rng.choice(len(candidates))]
            rows[y][x], rows[ny][nx] = rows[ny][nx], rows[y][x]


# --------------------------------------------------------------------------
# 3. C09 on single steps
# --------------------------------------------------------------------------

KEYDOOR_FUNCTIONS = [
    tf.move_agent,
    tf.turn_agent,
    tf.actuate_door,
    tf.pickndrop,
]
OBSTACLE_FUNCTIONS = [tf.move_agent, tf.turn_agent, tf.move_obstacles]
ALL_FUNCTIONS = [
    tf.move_agent,
    tf.turn_agent,
    tf.pickndrop,
    tf.move_obstacles,
    tf.actuate_door,
    tf.actuate_box,
    tf.teleport,
]

TRANSITIONS = [
    ('move_agent', tf.move_agent, False),
    ('turn_agent', tf.turn_agent, False),
    ('pickndrop', tf.pickndrop, False),
    ('move_obstacles', tf.move_obstacles, False),
    ('actuate_door', tf.actuate_door, False),
    ('actuate_box', tf.actuate_box, True),
    ('teleport', tf.teleport, False),
    (
        'chain-keydoor',
        partial(tf.chain, transition_functions=KEYDOOR_FUNCTIONS),
        False,
    ),
    (
        'chain-obstacles',
        tf.factory('chain', transition_functions=OBSTACLE_FUNCTIONS),
        False,
    ),
    (
        'chain-all',
        partial(tf.chain, transition_functions=ALL_FUNCTIONS),
        True,
    ),
    (
        'chain-all-reversed-twice-obstacles',
        partial(
            tf.chain,
            transition_functions=[tf.move_obstacles]
            + ALL_FUNCTIONS[::-1]
            + [tf.factory('move_obstacles')],
        ),
        True,
    ),
    ('chain-empty', partial(tf.chain, transition_functions=[]), False),
]


def check_single_steps():
    pyrng = random.Random(20240509)
    seed_counter = itt.count()
    extra_kinds = itt.cycle(['obstacles', 'keys', 'floor', 'random'])

    for height, width in SHAPES:
        kinds = ['random', 'sparse-obstacles', next(extra_kinds)]
        for kind in kinds:
            layout = random_layout(pyrng, height, width, kind)
            for position, orientation in itt.product(
                agent_positions(pyrng, height, width), ORIENTATIONS
            ):
                held_factory = pyrng.choice(HELD_FACTORIES)
                for action, (name, function, may_open_box) in itt.product(
                    Action, TRANSITIONS
                ):
                    seed = next(seed_counter) % 97
                    state = make_state(
                        layout, position, orientation, held_factory
                    )
                    before = snapshot(state)
                    keys = recorded_keys(before)
                    info = (name, action, (height, width), kind, position)
                    info += (orientation, seed)

                    result = function(state, action, rng=make_rng(seed))
                    check(result is None, 'return value', *info)
                    check_shape_intact(state, height, width, *info)
                    check_conservation(
                        before, keys, state, action, may_open_box, *info
                    )
                    CHECKS[name] += 1

                    if name == 'pickndrop':
                        check_pickndrop(before, state, position, orientation)
                        check_pickndrop_reference(
                            before, state, position, orientation, action
                        )
                    elif name == 'move_obstacles':
                        check_move_obstacles_reference(before, state, seed)
                    elif name == 'actuate_box':
                        check_actuate_box(
                            before, state, position, orientation, action
                        )


def check_pickndrop(before, state, position, orientation):
    """only the front cell and the hand may change"""
    rows_before, _ = before
    dy, dx = HEADING_DELTAS[orientation]
    front = (position[0] + dy, position[1] + dx)
    for y, row in enumerate(rows_before):
        for x, obj in enumerate(row):
            if (y, x) != front:
                check(
                    state.grid.objects[y][x] is obj,
                    'pickndrop reached a cell which is not the front cell',
                    (y, x),
                    front,
                )
    check(state.agent.position == Position(*position), 'agent moved')
    check(state.agent.orientation is orientation, 'agent turned')


def check_pickndrop_reference(before, state, position, orientation, action):
    rows_before, held_before = before
    expected = reference_pickndrop(
        rows_before, held_before, position, orientation, action
    )
    held_after = state.agent.grid_object
    if expected is None:
        for y, row in enumerate(rows_before):
            for x, obj in enumerate(row):
                # a floor may be replaced by a floor
                now = state.grid.objects[y][x]
                check(
                    now is obj
                    or (isinstance(obj, Floor) and isinstance(now, Floor)),
                    'pickndrop: unexpected change',
                    (y, x),
                )
        check(
            held_after is held_before
            or (
                isinstance(held_before, NoneGridObject)
                and isinstance(held_after, NoneGridObject)
            ),
            'pickndrop: unexpected hand change',
        )
        return

    (y, x), cell, held = expected
    now = state.grid.objects[y][x]
    if cell == 'floor':
        check(type(now) is Floor, 'pick leaves floor', now)
    else:
        check(now is cell, 'drop/swap puts the held object in front', now)
    if held == 'none':
        check(type(held_after) is NoneGridObject, 'drop empties the hand')
    else:
        check(held_after is held, 'pick/swap takes the front object')
        check(held_after.holdable, 'picked a non-holdable object')


def check_move_obstacles_reference(before, state, seed):
    rows_before, held_before = before
    expected = [list(row) for row in rows_before]
    reference_move_obstacles(expected, make_rng(seed))
    for y, row in enumerate(expected):
        for x, obj in enumerate(row):
            check(
                state.grid.objects[y][x] is obj,
                'move_obstacles differs from the reference',
                (y, x),
                seed,
            )
    check(state.agent.grid_object is held_before, 'hand changed')


def check_actuate_box(before, state, position, orientation, action):
    rows_before, held_before = before
    dy, dx = HEADING_DELTAS[orientation]
    fy, fx = position[0] + dy, position[1] + dx
    for y, row in enumerate(rows_before):
        for x, obj in enumerate(row):
            now = state.grid.objects[y][x]
            if (
                (y, x) == (fy, fx)
                and action is Action.ACTUATE
                and isinstance(obj, Box)
            ):
                check(now is obj.content, 'box replaced by its content')
            else:
                check(now is obj, 'actuate_box: unexpected change', (y, x))
    check(state.agent.grid_object is held_before, 'hand changed')


def check_global_rng_steps():
    """rng=None uses the library rng;  re-seeding reproduces the step"""
    layout = random_layout(random.Random(3), 4, 6, 'sparse-obstacles')
    outcomes = []
    for _ in range(3):
        reset_gv_rng(1234)
        state = make_state(layout, (0, 5), Orientation.L, NoneGridObject)
        before = snapshot(state)
        keys = recorded_keys(before)
        for _ in range(5):
            tf.move_obstacles(state, Action.MOVE_FORWARD)
        check_conservation(
            before, keys, state, Action.MOVE_FORWARD, False, 'gv'
        )
        outcomes.append(
            [[type(o).__name__ for o in row] for row in state.grid.objects]
        )

        expected = [list(row) for row in before[0]]
        rng = make_rng(1234)
        for _ in range(5):
            reference_move_obstacles(expected, rng)
        check(
            all(
                state.grid.objects[y][x] is obj
                for y, row in enumerate(expected)
                for x, obj in enumerate(row)
            ),
            'global rng run differs from reference',
        )
    check(outcomes[0] == outcomes[1] == outcomes[2], 're-seeding')


# --------------------------------------------------------------------------
# 4. histories of the shipped environments
# --------------------------------------------------------------------------

ALL_ACTIONS = list(Action)
OBSTACLE_ACTIONS = [a for a in Action if a.is_move() or a.is_turn()]


def make_env(reset_function, transition_functions, shape, objects, actions):
    colors = [Color.NONE, Color.YELLOW]
    return GridWorld(
        StateSpace(shape, objects, colors),
        ActionSpace(actions),
        ObservationSpace(Shape(7, 7), objects, colors),
        reset_function,
        partial(tf.chain, transition_functions=transition_functions),
        partial(partially_occluded, area=Area((-6, 0), (-3, 3))),
        lambda state, action, next_state, rng=None: 0.0,
        reach_exit,
    )


def keydoor_env(shape):
    return make_env(
        partial(resets.keydoor, shape),
        KEYDOOR_FUNCTIONS,
        shape,
        [Wall, Floor, Exit, Door, Key],
        ALL_ACTIONS,
    )


def obstacles_env(shape, num_obstacles, random_agent):
    return make_env(
        partial(
            resets.dynamic_obstacles,
            shape,
            num_obstacles,
            random_agent,
        ),
        OBSTACLE_FUNCTIONS,
        shape,
        [Wall, Floor, Exit, MovingObstacle],
        OBSTACLE_ACTIONS,
    )


def scenery_map(state):
    return {
        (y, x): object_key(obj)
        for y, row in enumerate(state.grid.objects)
        for x, obj in enumerate(row)
        if is_scenery(obj)
    }


def run_history(env, seed, steps, actions):
    """runs a seeded history, checks C09 at every step, returns the states"""
    env.set_seed(seed)
    env.reset()
    pyrng = random.Random(seed)
    states = [env.state]
    multiset = key_multiset(env.state)
    scenery = scenery_map(env.state)
    for _ in range(steps):
        action = pyrng.choice(actions)
        previous = env.state
        env.step(action)
        state = env.state
        check(state is not previous, 'functional step returns a new state')
        check(key_multiset(previous) == multiset, 'previous state changed')
        check(
            key_multiset(state) == multiset,
            'history: objects not conserved',
            seed,
            action,
        )
        check(scenery_map(state) == scenery, 'history: scenery moved', seed)
        check(env.state_space.contains(state), 'state outside state-space')
        states.append(state)
        CHECKS['history steps'] += 1
    return states


def check_histories():
    environments = [
        (lambda: keydoor_env(Shape(5, 5)), ALL_ACTIONS),
        (lambda: keydoor_env(Shape(7, 7)), ALL_ACTIONS),
        (lambda: keydoor_env(Shape(9, 9)), ALL_ACTIONS),
        (lambda: keydoor_env(Shape(4, 6)), ALL_ACTIONS),
        (lambda: keydoor_env(Shape(4, 11)), ALL_ACTIONS),
        (lambda: obstacles_env(Shape(5, 5), 1, False), OBSTACLE_ACTIONS),
        (lambda: obstacles_env(Shape(7, 7), 2, False), OBSTACLE_ACTIONS),
        (lambda: obstacles_env(Shape(7, 7), 23, True), OBSTACLE_ACTIONS),
        (lambda: obstacles_env(Shape(4, 8), 10, True), OBSTACLE_ACTIONS),
        (lambda: obstacles_env(Shape(6, 4), 6, False), OBSTACLE_ACTIONS),
        (lambda: obstacles_env(Shape(4, 4), 0, False), OBSTACLE_ACTIONS),
    ]
    for make, actions in environments:
        for seed in range(3):
            # two environments alive in the same process, run one after the
            # other and re-seeded:  identical histories
            env_a, env_b = make(), make()
            history_a = run_history(env_a, seed, 40, actions)
            history_b = run_history(env_b, seed, 40, actions)
            check(history_a == history_b, 'histories differ', seed)
            history_c = run_history(env_a, seed, 40, actions)
            check(history_a == history_c, 're-seeded history differs', seed)

    # interleaved environments sharing nothing
    env_a = obstacles_env(Shape(7, 7), 2, False)
    env_b = obstacles_env(Shape(7, 7), 2, False)
    alone = run_history(
        obstacles_env(Shape(7, 7), 2, False), 11, 40, OBSTACLE_ACTIONS
    )
    env_a.set_seed(11)
    env_b.set_seed(11)
    env_a.reset()
    env_b.reset()
    pyrng_a, pyrng_b = random.Random(11), random.Random(11)
    for i in range(40):
        env_a.step(pyrng_a.choice(OBSTACLE_ACTIONS))
        env_b.step(pyrng_b.choice(OBSTACLE_ACTIONS))
        check(env_a.state == env_b.state == alone[i + 1], 'interleaving', i)


def main():
    check_boundary_function()
    check_single_steps()
    check_global_rng_steps()
    check_histories()
    print(
        'OK',
        ', '.join(f'{name}={count}' for name, count in sorted(CHECKS.items())),
    )


if __name__ == '__main__':
    main()
