"""Demo for change B (ray counting shared by the two ray-traced visibility functions).

Runs on the pristine tree and with the patch applied;  exits 0 in both cases.

* the rays the visibility functions are built on satisfy C19 (start at origin,
  inside, no repeated cell, adjacent steps, end on border, fan covers the
  area; cached == uncached whatever the order of earlier queries);
* `raytracing` and `stochastic_raytracing` agree with reference
  implementations embedded below, on grids of many shapes (1x1, single
  row/column, non-square, 7x7) with random/structured obstacles (walls,
  open/closed/locked doors of every colour including NONE, keys, boxes),
  from every position, for both count modes and many thresholds, with
  explicit generators (same draws consumed) and the library generator after
  re-seeding;
* unobstructed ray-traced views show everything, through the visibility
  function and through the observation functions for all four headings,
  agents in corners / on borders, symmetric and asymmetric view areas;
* hard-coded expectations.
"""
import itertools as itt
import os
import sys
import warnings

sys.path.insert(0, os.getcwd())  # run from the worktree root

import numpy as np
import numpy.random as rnd

from gym_gridverse.agent import Agent
from gym_gridverse.envs import observation_functions as obs_fs
from gym_gridverse.envs.visibility_functions import (
    raytracing,
    stochastic_raytracing,
    visibility_function_registry,
)
from gym_gridverse.geometry import Area, Orientation, Position
from gym_gridverse.grid import Grid
from gym_gridverse.grid_object import (
    Box,
    Color,
    Door,
    Floor,
    Hidden,
    Key,
    Wall,
)
from gym_gridverse.rng import reset_gv_rng
from gym_gridverse.state import State
from gym_gridverse.utils.raytracing import (
    cached_compute_rays_fancy,
    compute_rays_fancy,
)

failures = []


def check(condition, message):
    if not condition:
        failures.append(message)
        if len(failures) <= 20:
            print('FAIL', message)


# -- reference implementations --------------------------------------------------


_reference_fans = {}


def reference_fan(position, area):
    """uncached fan, computed once per query by the demo itself"""
    key = (position, area)
    if key not in _reference_fans:
        _reference_fans[key] = compute_rays_fancy(position, area)
    return _reference_fans[key]


def reference_counts(grid, position):
    rays = reference_fan(position, grid.area)
    counts_num = np.zeros((grid.shape.height, grid.shape.width), dtype=int)
    counts_den = np.zeros((grid.shape.height, grid.shape.width), dtype=int)

    for ray in rays:
        light = True
        for pos in ray:
            counts_num[pos.y, pos.x] += int(light)
            counts_den[pos.y, pos.x] += 1
            light = light and not grid[pos].blocks_vision

    return counts_num, counts_den


def reference_raytracing(grid, position, *, absolute_counts=True, threshold=1):
    counts_num, counts_den = reference_counts(grid, position)
    return (
        counts_num >= threshold
        if absolute_counts
        else (counts_num / counts_den) >= threshold
    )


def reference_stochastic_raytracing(grid, position, *, rng):
    counts_num, counts_den = reference_counts(grid, position)
    probs = np.nan_to_num(counts_num / counts_den)
    return rng.random(probs.shape) < probs


def same(a, b):
    return (
        isinstance(a, np.ndarray)
        and a.dtype == b.dtype
        and a.shape == b.shape
        and np.array_equal(a, b)
    )


# -- C19 on the rays the visibility functions use -----------------------------------


def check_fan(rays, position, area, tag):
    for k, ray in enumerate(rays):
        ok = (
            len(ray) >= 1
            and ray[0] == position
            and all(area.contains(p) for p in ray)
            and len(set(ray)) == len(ray)
            and all(
                max(abs(p.y - q.y), abs(p.x - q.x)) == 1
                for p, q in zip(ray, ray[1:])
            )
            and (
                ray[-1].y in (area.ymin, area.ymax)
                or ray[-1].x in (area.xmin, area.xmax)
            )
        )
        check(ok, f'{tag} ray {k}: {ray}')
    check(
        set(itt.chain.from_iterable(rays)) == set(area.positions()),
        f'{tag}: fan does not cover the area',
    )


# -- grids ----------------------------------------------------------------------

shapes = [(1, 1), (1, 6), (5, 1), (2, 2), (2, 5), (4, 3), (5, 5), (6, 4), (7, 7), (5, 9)]


def obstacle_objects():
    objects = [Wall, Wall, Wall]
    for color in Color:
        for status in Door.Status:
            objects.append(lambda status=status, color=color: Door(status, color))
        objects.append(lambda color=color: Key(color))
    objects.append(lambda: Box(Floor()))
    return objects


def random_grid(shape, density, generator):
    factories = obstacle_objects()
    grid = Grid.from_shape(shape, factory=Floor)
    for position in grid.area.positions():
        if generator.random() < density:
            grid[position] = factories[generator.integers(len(factories))]()
    return grid


generator = rnd.default_rng(19)
grids = []
for shape in shapes:
    grids.append(('empty', Grid.from_shape(shape, factory=Floor)))
    grids.append(('walls', Grid.from_shape(shape, factory=Wall)))
    for density in (0.15, 0.4):
        grids.append((f'random {density}', random_grid(shape, density, generator)))

thresholds_absolute = [1, 0, 2, 3, 7, 1000, -1, 1.5, True]
thresholds_relative = [1, 1.0, 0.999, 0.5, 0.25, 0.0, 1e-9, 2, -0.5]

with warnings.catch_warnings():
    # a 0 / 0 warning would mean a cell is missed by the fan;  make it an error
    warnings.simplefilter('error', RuntimeWarning)

    for name, grid in grids:
        area = grid.area
        for position in area.positions():
            tag = f'{grid.shape} {name} {position}'

            # rays: property and cache transparency
            rays = reference_fan(position, area)
            check_fan(rays, position, area, tag)
            check(cached_compute_rays_fancy(position, area) == rays, f'{tag}: cached rays differ')

            objects_before = [[repr(obj) for obj in row] for row in grid.objects]

            # deterministic visibility
            check(same(raytracing(grid, position), reference_raytracing(grid, position)), f'{tag}: defaults')
            for threshold in thresholds_absolute:
                got = raytracing(grid, position, absolute_counts=True, threshold=threshold)
                want = reference_raytracing(grid, position, absolute_counts=True, threshold=threshold)
                check(same(got, want), f'{tag}: absolute threshold {threshold}')
            for threshold in thresholds_relative:
                got = raytracing(grid, position, absolute_counts=False, threshold=threshold)
                want = reference_raytracing(grid, position, absolute_counts=False, threshold=threshold)
                check(same(got, want), f'{tag}: relative threshold {threshold}')
            # rng is accepted and ignored
            rng = rnd.default_rng(3)
            check(same(raytracing(grid, position, rng=rng), reference_raytracing(grid, position)), f'{tag}: rng ignored')
            check(rng.random() == rnd.default_rng(3).random(), f'{tag}: rng untouched')
            # repeated call
            check(same(raytracing(grid, position), raytracing(grid, position)), f'{tag}: repeated')

            # the origin is always visible, whatever stands there
            check(bool(raytracing(grid, position)[position.y, position.x]), f'{tag}: origin visible')

            # stochastic visibility, explicit generator: same mask, same draws consumed
            for seed in (0, 1):
                rng_got, rng_want = rnd.default_rng(seed), rnd.default_rng(seed)
                got = stochastic_raytracing(grid, position, rng=rng_got)
                want = reference_stochastic_raytracing(grid, position, rng=rng_want)
                check(same(got, want), f'{tag}: stochastic seed {seed}')
                check(rng_got.random() == rng_want.random(), f'{tag}: stochastic draws consumed')

            # stochastic visibility, library generator after re-seeding
            reset_gv_rng(7)
            got = [stochastic_raytracing(grid, position), stochastic_raytracing(grid, position, rng=None)]
            rng_want = rnd.default_rng(7)
            want = [reference_stochastic_raytracing(grid, position, rng=rng_want) for _ in range(2)]
            check(same(got[0], want[0]) and same(got[1], want[1]), f'{tag}: stochastic library rng')

            # unobstructed views show everything;  probability-1 cells always show
            if name == 'empty':
                check(raytracing(grid, position).all(), f'{tag}: unobstructed')
                check(raytracing(grid, position, absolute_counts=False, threshold=1.0).all(), f'{tag}: unobstructed relative')
                check(stochastic_raytracing(grid, position, rng=rnd.default_rng(5)).all(), f'{tag}: unobstructed stochastic')

            # grids are only read
            check(objects_before == [[repr(obj) for obj in row] for row in grid.objects], f'{tag}: grid modified')

    # positions outside the grid: documented exception from the ray computation
    grid = Grid.from_shape((3, 4), factory=Floor)
    for position in [Position(-1, 0), Position(3, 0), Position(0, 4), Position(0, -1)]:
        for function in (raytracing, stochastic_raytracing):
            try:
                function(grid, position)
            except ValueError:
                pass
            else:
                check(False, f'{function.__name__} {position}: no ValueError')

    # registry still serves the same callables
    check(visibility_function_registry['raytracing'] is raytracing, 'registry raytracing')
    check(visibility_function_registry['stochastic_raytracing'] is stochastic_raytracing, 'registry stochastic_raytracing')

    # -- hard-coded expectations --------------------------------------------------
    W, F = Wall, Floor
    grid = Grid(
        [
            [F(), F(), F(), F(), F()],
            [F(), W(), W(), W(), F()],
            [F(), F(), F(), F(), F()],
        ]
    )
    expected = np.array(
        [
            [0, 0, 0, 0, 0],
            [1, 1, 1, 1, 1],
            [1, 1, 1, 1, 1],
        ],
        dtype=bool,
    )
    check(same(raytracing(grid, Position(2, 2)), expected), 'wall row hides what is behind it')
    check(same(raytracing(grid, Position(2, 2)), reference_raytracing(grid, Position(2, 2))), 'wall row, reference')

    grid = Grid([[F(), F(), W(), F(), F()]])
    check(
        same(raytracing(grid, Position(0, 0)), np.array([[1, 1, 1, 0, 0]], dtype=bool)),
        'single row, wall shown, cells behind hidden',
    )
    check(
        same(raytracing(grid, Position(0, 2)), reference_raytracing(grid, Position(0, 2))),
        'origin in a blocking cell',
    )
    grid = Grid([[Door(Door.Status.CLOSED, Color.NONE), F()], [F(), Door(Door.Status.OPEN, Color.NONE)]])
    for position in grid.area.positions():
        check(same(raytracing(grid, position), reference_raytracing(grid, position)), f'doors {position}')

    # -- observation functions: all headings, borders and corners, view areas -------
    view_areas = [
        Area((-6, 0), (-3, 3)),
        Area((-2, 0), (-1, 1)),
        Area((-3, 1), (-1, 2)),  # asymmetric
        Area((0, 0), (0, 0)),
        Area((-4, 0), (0, 0)),
    ]
    for shape in [(3, 3), (4, 6), (6, 4)]:
        height, width = shape
        agent_positions = sorted(
            {
                (y, x)
                for y in (0, height // 2, height - 1)
                for x in (0, width // 2, width - 1)
            }
        )
        for (y, x), orientation, view_area in itt.product(agent_positions, Orientation, view_areas):
            tag = f'obs {shape} ({y},{x}) {orientation.name} {view_area}'
            for kind in ('floor', 'random'):
                grid = (
                    Grid.from_shape(shape, factory=Floor)
                    if kind == 'floor'
                    else random_grid(shape, 0.3, rnd.default_rng(y * 31 + x))
                )
                state = State(grid, Agent(Position(y, x), orientation))
                observation = obs_fs.raytracing(state, area=view_area)
                transparent = obs_fs.fully_transparent(state, area=view_area)
                check(observation.grid.shape.as_tuple == (view_area.height, view_area.width), f'{tag}: shape')

                pov_position = Position(-view_area.ymin, -view_area.xmin)
                visibility = reference_raytracing(transparent.grid, pov_position)
                for position in transparent.grid.area.positions():
                    want = transparent.grid[position] if visibility[position.y, position.x] else Hidden()
                    check(observation.grid[position] == want, f'{tag} {kind}: cell {position}')

                if kind == 'floor':
                    # nothing but out-of-grid cells (which block vision) can hide anything
                    inside = state.agent.transform * view_area
                    all_inside = all(grid.area.contains(p) for p in inside.positions())
                    if all_inside:
                        check(
                            all(not isinstance(observation.grid[p], Hidden) for p in observation.grid.area.positions()),
                            f'{tag}: unobstructed view shows everything',
                        )

                seeded = [
                    obs_fs.stochastic_raytracing(state, area=view_area, rng=rnd.default_rng(11))
                    for _ in range(2)
                ]
                check(seeded[0].grid == seeded[1].grid, f'{tag} {kind}: stochastic observation not reproducible')

if failures:
    print(f'{len(failures)} failure(s)')
    sys.exit(1)
print('OK')
