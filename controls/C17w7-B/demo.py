"""Demo / check program for commit B (`outer_env_factory` takes the names of
the observation and state representations as optional keyword parameters).

Run as:  cd /tmp/wt7-C17 && /venv/bin/python -W ignore _seed/B/demo.py

No YAML file is parsed:  `gym_gridverse.gym.factory_env_from_yaml` is replaced
by a loader of python data transcribed (in this file) from the 21 packaged
configurations;  the path which each registered gym id hands to the factory
is checked against the recorded table, and the packaged files are compared
bytewise with their copies in `yaml/`.  The environments behind the gym ids are
compared with environments assembled by hand (own component lookup, own
parameter filtering and conversion, representations made directly).  The
checks of the new keyword parameters only run when `outer_env_factory` has
them, so the program passes on the clean tree and with the commit applied.
"""
import copy
import functools
import inspect
import os
import random
import sys

sys.path.insert(0, os.getcwd())

import gym  # noqa: E402
import numpy as np  # noqa: E402

import gym_gridverse.gym as gv_gym  # noqa: E402
from gym_gridverse import grid_object as grid_object_module  # noqa: E402
from gym_gridverse.action import Action  # noqa: E402
from gym_gridverse.envs import observation_functions as observation_fs  # noqa: E402
from gym_gridverse.envs import reset_functions as reset_fs  # noqa: E402
from gym_gridverse.envs import reward_functions as reward_fs  # noqa: E402
from gym_gridverse.envs import terminating_functions as terminating_fs  # noqa: E402
from gym_gridverse.envs import transition_functions as transition_fs  # noqa: E402
from gym_gridverse.envs import visibility_functions as visibility_fs  # noqa: E402
from gym_gridverse.envs.gridworld import GridWorld  # noqa: E402
from gym_gridverse.envs.yaml import factory as yaml_factory  # noqa: E402
from gym_gridverse.geometry import Area, Position, Shape  # noqa: E402
from gym_gridverse.grid_object import Color  # noqa: E402
from gym_gridverse.outer_env import OuterEnv  # noqa: E402
from gym_gridverse.representations.observation_representations import (  # noqa: E402
    make_observation_representation,
)
from gym_gridverse.representations.state_representations import (  # noqa: E402
    make_state_representation,
)
from gym_gridverse.rng import reset_gv_rng  # noqa: E402
from gym_gridverse.spaces import (  # noqa: E402
    ActionSpace,
    ObservationSpace,
    StateSpace,
)

# ---------------------------------------------------------------------------
# kinds of components:  module, registry, number of leading protocol arguments
# ---------------------------------------------------------------------------

KINDS = {
    'reset': (reset_fs, reset_fs.reset_function_registry, 0),
    'transition': (transition_fs, transition_fs.transition_function_registry, 2),
    'reward': (reward_fs, reward_fs.reward_function_registry, 3),
    'observation': (
        observation_fs,
        observation_fs.observation_function_registry,
        1,
    ),
    'visibility': (visibility_fs, visibility_fs.visibility_function_registry, 2),
    'terminating': (
        terminating_fs,
        terminating_fs.terminating_function_registry,
        3,
    ),
}


def independent_keys(function, num_positional):
    """(required, optional) names of the non-protocol parameters; own code"""
    names = list(inspect.signature(function).parameters.items())
    rest = [
        (name, parameter)
        for name, parameter in names[num_positional:]
        if name != 'rng'
    ]
    required = [n for n, p in rest if p.default is inspect.Parameter.empty]
    optional = [n for n, p in rest if p.default is not inspect.Parameter.empty]
    return required, optional



ALL_ACTIONS = [
    'MOVE_FORWARD',
    'MOVE_BACKWARD',
    'MOVE_LEFT',
    'MOVE_RIGHT',
    'TURN_LEFT',
    'TURN_RIGHT',
    'ACTUATE',
    'PICK_N_DROP',
]
MOVE_ACTIONS = ALL_ACTIONS[:6]
EXIT_REWARDS = [
    {'name': 'reach_exit', 'reward_on': 5.0, 'reward_off': 0.0},
    {
        'name': 'getting_closer',
        'distance_function': 'manhattan',
        'object_type': 'Exit',
        'reward_closer': 0.2,
        'reward_further': -0.2,
    },
    {'name': 'living_reward', 'reward': -0.05},
]
DEFAULT_OBSERVATION = {
    'name': 'partially_occluded',
    'area': [[-6, 0], [-3, 3]],
}


def _config(
    objects,
    colors,
    reset,
    transitions,
    rewards,
    terminating,
    observation=None,
    actions=MOVE_ACTIONS,
):
    data = {
        'state_space': {'objects': list(objects), 'colors': list(colors)},
        'observation_space': {
            'objects': list(objects),
            'colors': list(colors),
        },
        'reset_function': reset,
        'transition_functions': [{'name': name} for name in transitions],
        'reward_functions': rewards,
        'observation_function': observation or DEFAULT_OBSERVATION,
        'terminating_function': terminating,
    }
    if actions is not None:
        data['action_space'] = list(actions)
    return copy.deepcopy(data)


MEMORY_COLORS = ['NONE', 'RED', 'GREEN', 'BLUE', 'YELLOW']
MEMORY_REWARDS = [
    {'name': 'reach_exit_memory', 'reward_good': 5.0, 'reward_bad': -5.0},
    {'name': 'living_reward', 'reward': -0.05},
]
OBSTACLE_REWARDS = (
    EXIT_REWARDS[:1]
    + [
        {'name': 'bump_moving_obstacle', 'reward': -1.0},
        {'name': 'bump_into_wall', 'reward': -1.0},
    ]
    + EXIT_REWARDS[1:]
)
OBSTACLE_TERMINATING = {
    'name': 'reduce_any',
    'terminating_functions': [
        {'name': 'reach_exit'},
        {'name': 'bump_moving_obstacle'},
        {'name': 'bump_into_wall'},
    ],
}
KEYDOOR_REWARDS = (
    EXIT_REWARDS[:1]
    + [
        {
            'name': 'pickndrop',
            'object_type': 'Key',
            'reward_pick': 1.0,
            'reward_drop': -1.0,
        },
        {'name': 'actuate_door', 'reward_open': 1.0, 'reward_close': -1.0},
    ]
    + EXIT_REWARDS[1:]
)



# ---------------------------------------------------------------------------
# the 21 packaged configurations, transcribed as python data
# ---------------------------------------------------------------------------

EXIT_OBJECTS = ['Wall', 'Floor', 'Exit']
MEMORY_OBJECTS = ['Wall', 'Floor', 'Exit', 'Beacon']
BEACON_COLORS = ['RED', 'GREEN', 'BLUE', 'YELLOW']
MOVE = ['move_agent', 'turn_agent']
REACH_EXIT = {'name': 'reach_exit'}


def crossing(size, num_rivers):
    return _config(
        EXIT_OBJECTS,
        ['NONE'],
        {
            'name': 'crossing',
            'shape': [size, size],
            'num_rivers': num_rivers,
            'object_type': 'Wall',
        },
        MOVE,
        EXIT_REWARDS,
        REACH_EXIT,
    )


def dynamic_obstacles(size, num_obstacles):
    return _config(
        EXIT_OBJECTS + ['MovingObstacle'],
        ['NONE'],
        {
            'name': 'dynamic_obstacles',
            'shape': [size, size],
            'num_obstacles': num_obstacles,
            'random_agent': False,
        },
        MOVE + ['move_obstacles'],
        OBSTACLE_REWARDS,
        OBSTACLE_TERMINATING,
    )


def empty(size):
    return _config(
        EXIT_OBJECTS,
        ['NONE'],
        {'name': 'empty', 'shape': [size, size], 'random_agent': True},
        MOVE,
        EXIT_REWARDS,
        REACH_EXIT,
    )


def rooms(size, layout):
    return _config(
        EXIT_OBJECTS,
        ['NONE'],
        {'name': 'rooms', 'shape': [size, size], 'layout': [layout, layout]},
        MOVE,
        EXIT_REWARDS,
        REACH_EXIT,
    )


def keydoor(size):
    return _config(
        EXIT_OBJECTS + ['Door', 'Key'],
        ['NONE', 'YELLOW'],
        {'name': 'keydoor', 'shape': [size, size]},
        MOVE + ['actuate_door', 'pickndrop'],
        KEYDOOR_REWARDS,
        REACH_EXIT,
        actions=None,  # these files have no action space:  all actions
    )


def memory(size):
    return _config(
        MEMORY_OBJECTS,
        MEMORY_COLORS,
        {'name': 'memory', 'shape': [size, size], 'colors': BEACON_COLORS},
        MOVE,
        MEMORY_REWARDS,
        REACH_EXIT,
    )


def memory_rooms(size, layout):
    return _config(
        MEMORY_OBJECTS,
        MEMORY_COLORS,
        {
            'name': 'memory_rooms',
            'shape': [size, size],
            'layout': [layout, layout],
            'colors': BEACON_COLORS,
            'num_beacons': 1,
            'num_exits': 2,
        },
        MOVE,
        MEMORY_REWARDS,
        REACH_EXIT,
    )


def teleport(size):
    return _config(
        EXIT_OBJECTS + ['Telepod'],
        ['NONE', 'RED'],
        # `random_agent` is in the files;  the `teleport` reset does not take it
        {'name': 'teleport', 'shape': [size, size], 'random_agent': True},
        MOVE + ['teleport'],
        EXIT_REWARDS,
        REACH_EXIT,
    )


CONFIGS = {
    'gv_crossing.5x5.yaml': crossing(5, 1),
    'gv_crossing.7x7.yaml': crossing(7, 2),
    'gv_dynamic_obstacles.5x5.yaml': dynamic_obstacles(5, 1),
    'gv_dynamic_obstacles.7x7.yaml': dynamic_obstacles(7, 2),
    'gv_empty.4x4.yaml': empty(4),
    'gv_empty.8x8.yaml': empty(8),
    'gv_four_rooms.7x7.yaml': rooms(7, 2),
    'gv_four_rooms.9x9.yaml': rooms(9, 2),
    'gv_keydoor.5x5.yaml': keydoor(5),
    'gv_keydoor.7x7.yaml': keydoor(7),
    'gv_keydoor.9x9.yaml': keydoor(9),
    'gv_memory.5x5.yaml': memory(5),
    'gv_memory.9x9.yaml': memory(9),
    'gv_memory_four_rooms.7x7.yaml': memory_rooms(7, 2),
    'gv_memory_four_rooms.9x9.yaml': memory_rooms(9, 2),
    'gv_memory_nine_rooms.10x10.yaml': memory_rooms(10, 3),
    'gv_memory_nine_rooms.13x13.yaml': memory_rooms(13, 3),
    'gv_nine_rooms.10x10.yaml': rooms(10, 3),
    'gv_nine_rooms.13x13.yaml': rooms(13, 3),
    'gv_teleport.5x5.yaml': teleport(5),
    'gv_teleport.7x7.yaml': teleport(7),
}

# recorded copy of the table of registered gym ids
EXPECTED_IDS = {
    'GV-Crossing-5x5-v0': 'gv_crossing.5x5.yaml',
    'GV-Crossing-7x7-v0': 'gv_crossing.7x7.yaml',
    'GV-DynamicObstacles-5x5-v0': 'gv_dynamic_obstacles.5x5.yaml',
    'GV-DynamicObstacles-7x7-v0': 'gv_dynamic_obstacles.7x7.yaml',
    'GV-Empty-4x4-v0': 'gv_empty.4x4.yaml',
    'GV-Empty-8x8-v0': 'gv_empty.8x8.yaml',
    'GV-FourRooms-7x7-v0': 'gv_four_rooms.7x7.yaml',
    'GV-FourRooms-9x9-v0': 'gv_four_rooms.9x9.yaml',
    'GV-Keydoor-5x5-v0': 'gv_keydoor.5x5.yaml',
    'GV-Keydoor-7x7-v0': 'gv_keydoor.7x7.yaml',
    'GV-Keydoor-9x9-v0': 'gv_keydoor.9x9.yaml',
    'GV-Memory-5x5-v0': 'gv_memory.5x5.yaml',
    'GV-Memory-9x9-v0': 'gv_memory.9x9.yaml',
    'GV-MemoryFourRooms-7x7-v0': 'gv_memory_four_rooms.7x7.yaml',
    'GV-MemoryFourRooms-9x9-v0': 'gv_memory_four_rooms.9x9.yaml',
    'GV-MemoryNineRooms-10x10-v0': 'gv_memory_nine_rooms.10x10.yaml',
    'GV-MemoryNineRooms-13x13-v0': 'gv_memory_nine_rooms.13x13.yaml',
    'GV-NineRooms-10x10-v0': 'gv_nine_rooms.10x10.yaml',
    'GV-NineRooms-13x13-v0': 'gv_nine_rooms.13x13.yaml',
    'GV-Teleport-5x5-v0': 'gv_teleport.5x5.yaml',
    'GV-Teleport-7x7-v0': 'gv_teleport.7x7.yaml',
}

# independent assembly ------------------------------------------------------

NUM_POSITIONAL = {kind: n for kind, (_, _, n) in KINDS.items()}
MODULES = {kind: module for kind, (module, _, _) in KINDS.items()}


def hand_value(key, value):
    if key == 'shape':
        height, width = value
        return Shape(height, width)
    if key == 'layout':
        return (value[0], value[1])
    if key == 'area':
        ys, xs = value
        return Area((ys[0], ys[1]), (xs[0], xs[1]))
    if key == 'object_type':
        return getattr(grid_object_module, value)
    if key == 'colors':
        return set([getattr(Color, name) for name in value])
    if key == 'distance_function':
        return {
            'manhattan': Position.manhattan_distance,
            'euclidean': Position.euclidean_distance,
        }[value]
    if key == 'transition_functions':
        return [hand_component('transition', d) for d in value]
    if key == 'reward_functions':
        return [hand_component('reward', d) for d in value]
    if key == 'terminating_functions':
        return [hand_component('terminating', d) for d in value]
    if key == 'reward_function':
        return hand_component('reward', value)
    if key == 'visibility_function':
        return hand_component('visibility', value)
    return value


def hand_component(kind, data):
    function = getattr(MODULES[kind], data['name'])
    required, optional = independent_keys(function, NUM_POSITIONAL[kind])
    kwargs = {
        key: hand_value(key, value)
        for key, value in data.items()
        if key in required or key in optional
    }
    assert all(key in kwargs for key in required)

    def component(*args, **more):
        return function(*args, **kwargs, **more)

    return component


def hand_env(data):
    reset_function = hand_component('reset', data['reset_function'])
    transitions = [
        hand_component('transition', d) for d in data['transition_functions']
    ]
    rewards = [hand_component('reward', d) for d in data['reward_functions']]
    observation_function = hand_component(
        'observation', data['observation_function']
    )
    terminating_function = hand_component(
        'terminating', data['terminating_function']
    )

    def transition_function(state, action, *, rng=None):
        for transition in transitions:
            transition(state, action, rng=rng)

    def reward_function(state, action, next_state, *, rng=None):
        return sum(r(state, action, next_state, rng=rng) for r in rewards)

    state = reset_function()
    observation = observation_function(state)
    objects = [
        getattr(grid_object_module, name)
        for name in data['state_space']['objects']
    ]
    colors = [Color[name] for name in data['state_space']['colors']]
    o_objects = [
        getattr(grid_object_module, name)
        for name in data['observation_space']['objects']
    ]
    o_colors = [Color[name] for name in data['observation_space']['colors']]
    actions = (
        [Action[name] for name in data['action_space']]
        if 'action_space' in data
        else list(Action)
    )
    return GridWorld(
        StateSpace(state.grid.shape, objects, colors),
        ActionSpace(actions),
        ObservationSpace(observation.grid.shape, o_objects, o_colors),
        reset_function,
        transition_function,
        observation_function,
        reward_function,
        terminating_function,
    )


# fingerprints --------------------------------------------------------------


def fp_object(obj):
    return (type(obj).__name__, obj.state_index, obj.color.name)


def fp_grid(grid):
    return (
        grid.shape.height,
        grid.shape.width,
        tuple(
            fp_object(grid[Position(y, x)])
            for y in range(grid.shape.height)
            for x in range(grid.shape.width)
        ),
    )


def fp_agent(agent):
    return (
        agent.position.y,
        agent.position.x,
        agent.orientation.name,
        fp_object(agent.grid_object),
    )


def fp(state_or_observation):
    return (fp_grid(state_or_observation.grid), fp_agent(state_or_observation.agent))


def fp_spaces(env):
    return (
        (env.state_space.grid_shape.height, env.state_space.grid_shape.width),
        [t.__name__ for t in env.state_space.object_types],
        sorted(c.name for c in env.state_space.colors),
        [a.name for a in env.action_space.actions],
        (
            env.observation_space.grid_shape.height,
            env.observation_space.grid_shape.width,
        ),
        [t.__name__ for t in env.observation_space.object_types],
        sorted(c.name for c in env.observation_space.colors),
    )



# ---------------------------------------------------------------------------
# loader of python data in the place of the YAML loader
# ---------------------------------------------------------------------------

LOADED_PATHS = []


def factory_env_from_recorded_data(path):
    LOADED_PATHS.append(path)
    data = CONFIGS[os.path.basename(path)]
    pristine = copy.deepcopy(data)
    env = yaml_factory.factory_env_from_data(data)
    assert data == pristine, path
    return env


gv_gym.factory_env_from_yaml = factory_env_from_recorded_data

HAS_KEYWORDS = (
    'observation_representation'
    in inspect.signature(gv_gym.outer_env_factory).parameters
)


# ---------------------------------------------------------------------------
# 1.  the table of gym ids, what is registered, and the files
# ---------------------------------------------------------------------------


def check_registration():
    assert gv_gym.STRING_TO_YAML_FILE == EXPECTED_IDS
    assert list(gv_gym.STRING_TO_YAML_FILE) == list(EXPECTED_IDS)
    assert gv_gym.env_ids == list(EXPECTED_IDS)
    assert set(EXPECTED_IDS.values()) == set(CONFIGS)

    packaged_dir = os.path.join(os.getcwd(), 'gym_gridverse', 'registered_envs')
    assert sorted(os.listdir(packaged_dir)) == sorted(CONFIGS)

    for env_id, filename in EXPECTED_IDS.items():
        spec = gym.spec(env_id)
        assert spec.entry_point == 'gym_gridverse.gym:from_factory'
        assert list(spec.kwargs) == ['factory']
        factory = spec.kwargs['factory']
        assert isinstance(factory, functools.partial)
        assert factory.func is gv_gym.outer_env_factory
        # registered ids keep the default representations
        assert factory.keywords == {}, (env_id, factory.keywords)
        (path,) = factory.args
        assert os.path.isfile(path), path
        assert os.path.samefile(path, os.path.join(packaged_dir, filename))

        # packaged copy == copy in yaml/ (bytes; nothing is parsed)
        with open(path, 'rb') as f:
            packaged = f.read()
        shipped_path = os.path.join(os.getcwd(), 'yaml', filename)
        if os.path.exists(shipped_path):
            with open(shipped_path, 'rb') as f:
                assert f.read() == packaged, filename

        # weak textual link between the file and its transcription
        text = packaged.decode()
        reset = CONFIGS[filename]['reset_function']
        height, width = reset['shape']
        assert f"name: {reset['name']}\n" in text, filename
        assert f'shape: [ {height}, {width} ]' in text, filename
        for key in ('layout', 'num_rivers', 'num_obstacles', 'num_exits'):
            if key in reset:
                value = reset[key]
                rendered = (
                    f'[ {value[0]}, {value[1]} ]'
                    if isinstance(value, list)
                    else str(value)
                )
                assert f'{key}: {rendered}' in text, (filename, key)
        assert ('action_space:' in text) == (
            'action_space' in CONFIGS[filename]
        )


# ---------------------------------------------------------------------------
# 2.  environments behind the gym ids == environments assembled by hand
# ---------------------------------------------------------------------------


def hand_outer_env(filename, observation_name='default', state_name=None):
    inner = hand_env(copy.deepcopy(CONFIGS[filename]))
    kwargs = {}
    if observation_name is not None:
        kwargs['observation_representation'] = make_observation_representation(
            observation_name, inner.observation_space
        )
    if state_name is not None:
        kwargs['state_representation'] = make_state_representation(
            state_name, inner.state_space
        )
    return OuterEnv(inner, **kwargs)


def same_arrays(a, b):
    assert isinstance(a, dict) and isinstance(b, dict)
    assert list(a.keys()) == list(b.keys()), (list(a), list(b))
    for key in a:
        assert a[key].dtype == b[key].dtype, key
        assert a[key].shape == b[key].shape, key
        assert np.array_equal(a[key], b[key]), key
    return True


def same_space_dicts(a, b):
    if a is None or b is None:
        assert a is None and b is None
        return True
    assert list(a.keys()) == list(b.keys())
    for key in a:
        assert a[key].space_type == b[key].space_type
        assert np.array_equal(a[key].lower_bound, b[key].lower_bound)
        assert np.array_equal(a[key].upper_bound, b[key].upper_bound)
    return True


def snapshot(outer_env, with_observation, with_state):
    """what a user of the outer environment can see, and the inner state"""
    result = [fp(outer_env.inner_env.state), fp(outer_env.inner_env.observation)]
    for wanted, name in ((with_observation, 'observation'), (with_state, 'state')):
        if wanted:
            result.append(getattr(outer_env, name))
        else:
            try:
                getattr(outer_env, name)
            except RuntimeError:
                result.append(None)
            else:
                raise AssertionError(f'{name} should not be available')
    return result


def same_snapshots(a, b):
    assert a[0] == b[0] and a[1] == b[1]
    for x, y in zip(a[2:], b[2:]):
        if x is None or y is None:
            assert x is None and y is None
        else:
            same_arrays(x, y)
    return True


def compare_outer_envs(outer, hand, seeds, num_steps, tag):
    with_observation = hand.observation_representation is not None
    with_state = hand.state_representation is not None
    assert (outer.observation_representation is not None) == with_observation
    assert (outer.state_representation is not None) == with_state
    if with_observation:
        assert type(outer.observation_representation) is type(
            hand.observation_representation
        )
        same_space_dicts(
            outer.observation_representation.space,
            hand.observation_representation.space,
        )
    if with_state:
        assert type(outer.state_representation) is type(
            hand.state_representation
        )
        same_space_dicts(
            outer.state_representation.space, hand.state_representation.space
        )
    assert fp_spaces(outer.inner_env) == fp_spaces(hand.inner_env), tag
    assert outer.action_space.actions == hand.action_space.actions

    num = 0
    actions_list = hand.action_space.actions
    for seed in seeds:
        chooser = random.Random(f'{tag}-{seed}')
        outer.inner_env.set_seed(seed)
        hand.inner_env.set_seed(seed)
        outer.reset()
        hand.reset()
        same_snapshots(
            snapshot(outer, with_observation, with_state),
            snapshot(hand, with_observation, with_state),
        )
        for _ in range(num_steps):
            action = chooser.choice(actions_list)
            result_outer = outer.step(action)
            result_hand = hand.step(action)
            assert result_outer == result_hand, (tag, seed)
            same_snapshots(
                snapshot(outer, with_observation, with_state),
                snapshot(hand, with_observation, with_state),
            )
            num += 1
            if result_hand[1]:
                outer.reset()
                hand.reset()
    return num


def check_registered_ids(seeds, num_steps):
    num = 0
    for env_id, filename in EXPECTED_IDS.items():
        spec = gym.spec(env_id)

        # through gym.make, through the entry point, and the factory alone
        del LOADED_PATHS[:]
        reset_gv_rng(99)
        gym_env = gym.make(env_id).unwrapped
        reset_gv_rng(99)
        gym_env_2 = gv_gym.from_factory(**spec.kwargs)
        reset_gv_rng(99)
        outer_3 = spec.kwargs['factory']()
        assert len(LOADED_PATHS) == 3
        for path in LOADED_PATHS:
            assert os.path.basename(path) == filename
            assert path == spec.kwargs['factory'].args[0]
        reset_gv_rng(99)
        hand = hand_outer_env(filename)

        for candidate in (gym_env, gym_env_2):
            assert type(candidate) is gv_gym.GymEnvironment
            assert isinstance(candidate.outer_env, OuterEnv)
            # gym-level spaces
            assert candidate.state_space is None
            assert candidate.action_space == gym.spaces.Discrete(
                len(hand.action_space.actions)
            )
            assert candidate.observation_space == gv_gym.outer_space_to_gym_space(
                hand.observation_representation.space
            )
            assert sorted(candidate.observation_space.spaces) == [
                'agent_id_grid',
                'grid',
                'item',
            ]
        assert type(outer_3) is OuterEnv

        for i, outer in enumerate(
            (gym_env.outer_env, gym_env_2.outer_env, outer_3)
        ):
            assert outer.state_representation is None
            num += compare_outer_envs(
                outer, hand, seeds, num_steps, f'{env_id}-{i}'
            )

        # the gym interface itself (integer actions, observation dicts)
        gym_env.outer_env.inner_env.set_seed(31)
        hand.inner_env.set_seed(31)
        same_arrays(gym_env.reset(), (hand.reset(), hand.observation)[1])
        chooser = random.Random(env_id)
        for _ in range(num_steps):
            i = chooser.randrange(gym_env.action_space.n)
            observation, reward, done, info = gym_env.step(i)
            reward_hand, done_hand = hand.step(hand.action_space.actions[i])
            assert (reward, done, info) == (reward_hand, done_hand, {})
            same_arrays(observation, hand.observation)
            same_arrays(gym_env.observation, hand.observation)
            if done:
                same_arrays(gym_env.reset(), (hand.reset(), hand.observation)[1])
            num += 1
    return num


# ---------------------------------------------------------------------------
# 3.  the keyword parameters (only with the commit applied)
# ---------------------------------------------------------------------------

REPRESENTATION_NAMES = ['default', 'no-overlap', 'compact']


def check_keywords(seeds, num_steps):
    num = 0
    filenames = [
        'gv_empty.4x4.yaml',
        'gv_keydoor.7x7.yaml',
        'gv_dynamic_obstacles.5x5.yaml',
        'gv_memory_nine_rooms.10x10.yaml',
        'gv_teleport.7x7.yaml',
        'gv_crossing.5x5.yaml',
    ]
    for filename in filenames:
        path = os.path.join('anywhere', filename)

        # explicit defaults == no keywords == the hand-made default
        reset_gv_rng(5)
        hand = hand_outer_env(filename)
        for kwargs in (
            {},
            {'observation_representation': 'default'},
            {'state_representation': None},
            {'observation_representation': 'default', 'state_representation': None},
        ):
            reset_gv_rng(5)
            outer = gv_gym.outer_env_factory(path, **kwargs)
            num += compare_outer_envs(
                outer, hand, seeds[:2], num_steps, f'{filename}-{sorted(kwargs)}'
            )

        for observation_name in REPRESENTATION_NAMES + [None]:
            for state_name in [None] + REPRESENTATION_NAMES:
                reset_gv_rng(5)
                outer = gv_gym.outer_env_factory(
                    path,
                    observation_representation=observation_name,
                    state_representation=state_name,
                )
                reset_gv_rng(5)
                hand = hand_outer_env(filename, observation_name, state_name)
                num += compare_outer_envs(
                    outer,
                    hand,
                    seeds,
                    num_steps,
                    f'{filename}-{observation_name}-{state_name}',
                )

                # the gym environment over it
                gym_env = gv_gym.from_factory(
                    functools.partial(
                        gv_gym.outer_env_factory,
                        path,
                        observation_representation=observation_name,
                        state_representation=state_name,
                    )
                )
                assert (gym_env.observation_space is None) == (
                    observation_name is None
                )
                assert (gym_env.state_space is None) == (state_name is None)
                if state_name is not None:
                    assert gym_env.state_space == gv_gym.outer_space_to_gym_space(
                        hand.state_representation.space
                    )
                    if observation_name is not None:
                        wrapped = gv_gym.GymStateWrapper(gym_env)
                        hand.inner_env.set_seed(3)
                        gym_env.outer_env.inner_env.set_seed(3)
                        hand.reset()
                        same_arrays(wrapped.reset(), hand.state)
                        state, _, _, info = wrapped.step(0)
                        hand.step(hand.action_space.actions[0])
                        same_arrays(state, hand.state)
                        same_arrays(info['observation'], hand.observation)

        # invalid names are value errors (of the representation factories);
        # the parameters are keyword-only
        for kwargs in (
            {'observation_representation': 'Default'},
            {'observation_representation': ''},
            {'state_representation': 'defaults'},
            {'observation_representation': None, 'state_representation': 'x'},
        ):
            try:
                gv_gym.outer_env_factory(path, **kwargs)
            except ValueError as error:
                assert 'invalid name' in str(error)
            else:
                raise AssertionError(kwargs)
        for args in (('default',), ('default', 'default')):
            try:
                gv_gym.outer_env_factory(path, *args)
            except TypeError:
                pass
            else:
                raise AssertionError(args)
    return num


def main():
    check_registration()
    num = check_registered_ids(seeds=[0, 1, 7, 2**31 - 1], num_steps=40)
    num_keywords = 0
    if HAS_KEYWORDS:
        num_keywords = check_keywords(seeds=[0, 3, 11], num_steps=25)
        # and the registered ids again, after the other representations
        num += check_registered_ids(seeds=[2], num_steps=20)
    check_registration()
    print(
        f'OK: {len(EXPECTED_IDS)} gym ids, {num} compared steps behind them, '
        f'keyword parameters '
        + (
            f'checked ({num_keywords} compared steps)'
            if HAS_KEYWORDS
            else 'absent (clean tree)'
        )
    )


if __name__ == '__main__':
    main()
