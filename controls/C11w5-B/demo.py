"""Behaviour check for the stochastic transition functions (property C11).

Run as:  cd /tmp/wt5-C11 && /venv/bin/python -W ignore _seed/<X>/demo.py

The expected results are computed by an independent re-implementation that
works on plain lists of strings / tuples (no library code), and are compared
with what gym_gridverse.envs.transition_functions.{move_obstacles,teleport}
do, for
  * real numpy generators (many seeds): final layout, identity of every grid
    object, agent pose, and the generator state after the call (= number and
    order of random draws);
  * a scripted generator that enumerates EVERY resolution of every random
    choice: the set of reachable outcomes must equal the reference set, and
    the C11 rules are asserted on every outcome.
"""
import copy
import itertools
import os
import sys

sys.path.insert(0, os.getcwd())

import numpy.random as rnd  # noqa: E402

from gym_gridverse.action import Action  # noqa: E402
from gym_gridverse.agent import Agent  # noqa: E402
from gym_gridverse.envs import transition_functions as tf  # noqa: E402
from gym_gridverse.geometry import Orientation, Position  # noqa: E402
from gym_gridverse.grid import Grid  # noqa: E402
from gym_gridverse.grid_object import (  # noqa: E402
    Beacon,
    Box,
    Color,
    Door,
    Exit,
    Floor,
    Key,
    MovingObstacle,
    Telepod,
    Wall,
)
from gym_gridverse.rng import reset_gv_rng  # noqa: E402
from gym_gridverse.state import State  # noqa: E402

ACTIONS = list(Action)
ORIENTATIONS = list(Orientation)

# ---------------------------------------------------------------------------
# symbolic layouts: a layout is a tuple of tuples of cell codes
#   '.' floor   'O' moving obstacle   '#' wall   'E' exit   'K' key
#   'D' door    'B' box               'b' beacon
#   'r','g','u' telepods (red, green, blue)
# ---------------------------------------------------------------------------
TELEPOD_COLORS = {'r': Color.RED, 'g': Color.GREEN, 'u': Color.BLUE}


def make_object(code):
    if code == '.':
        return Floor()
    if code == 'O':
        return MovingObstacle()
    if code == '#':
        return Wall()
    if code == 'E':
        return Exit()
    if code == 'K':
        return Key(Color.RED)
    if code == 'D':
        return Door(Door.Status.CLOSED, Color.RED)
    if code == 'B':
        return Box(Floor())
    if code == 'b':
        return Beacon(Color.RED)
    return Telepod(TELEPOD_COLORS[code])


def code_of(obj):
    if isinstance(obj, Floor):
        return '.'
    if isinstance(obj, MovingObstacle):
        return 'O'
    if isinstance(obj, Wall):
        return '#'
    if isinstance(obj, Exit):
        return 'E'
    if isinstance(obj, Key):
        return 'K'
    if isinstance(obj, Door):
        return 'D'
    if isinstance(obj, Box):
        return 'B'
    if isinstance(obj, Beacon):
        return 'b'
    assert isinstance(obj, Telepod)
    return {v: k for k, v in TELEPOD_COLORS.items()}[obj.color]


def build_state(layout, agent_yx, orientation):
    objects = [[make_object(c) for c in row] for row in layout]
    grid = Grid(objects)
    agent = Agent(Position(*agent_yx), orientation)
    return State(grid, agent)


def id_layout(state):
    return [[id(obj) for obj in row] for row in state.grid.objects]


def code_layout(state):
    return tuple(
        tuple(code_of(obj) for obj in row) for row in state.grid.objects
    )


# ---------------------------------------------------------------------------
# independent reference model (plain python, no library code)
# ---------------------------------------------------------------------------
def ref_neighbours(y, x):
    # up, right, down, left
    return [(y - 1, x), (y, x + 1), (y + 1, x), (y, x - 1)]


def ref_move_obstacles(cells, draw):
    """cells: list of lists (of anything) with a parallel `kind` function;
    here cells hold (code, token) pairs.  draw(n) -> index in range(n), only
    called when n > 0.  Returns list of (src, dst-or-None, free) per obstacle."""
    h, w = len(cells), len(cells[0])
    sources = [
        (y, x) for y in range(h) for x in range(w) if cells[y][x][0] == 'O'
    ]
    log = []
    for y, x in sources:
        free = [
            (ny, nx)
            for ny, nx in ref_neighbours(y, x)
            if 0 <= ny < h and 0 <= nx < w and cells[ny][nx][0] == '.'
        ]
        if free:
            ny, nx = free[draw(len(free))]
            cells[y][x], cells[ny][nx] = cells[ny][nx], cells[y][x]
            log.append(((y, x), (ny, nx), free))
        else:
            log.append(((y, x), None, free))
    return log


def ref_teleport(cells, agent_yx, draw):
    h, w = len(cells), len(cells[0])
    ay, ax = agent_yx
    code = cells[ay][ax][0]
    if code not in TELEPOD_COLORS:
        return agent_yx, None
    others = [
        (y, x)
        for y in range(h)
        for x in range(w)
        if (y, x) != (ay, ax) and cells[y][x][0] == code
    ]
    if not others:
        return agent_yx, others
    return others[draw(len(others))], others


def token_cells(layout, state):
    """reference cells holding (code, id of the library object)"""
    return [
        [(c, id(obj)) for c, obj in zip(row, objrow)]
        for row, objrow in zip(layout, state.grid.objects)
    ]


# ---------------------------------------------------------------------------
# scripted generator: enumerates all resolutions of all random choices
# ---------------------------------------------------------------------------
class ScriptedRng:
    """mimics Generator.choice(n): ValueError for n == 0 (like numpy), else
    the next scripted index; records the sizes it was asked about"""

    def __init__(self, script):
        self.script = list(script)
        self.asked = []

    def choice(self, n):
        if n <= 0:
            raise ValueError('a must be a positive integer')
        k = len(self.asked)
        self.asked.append(n)
        return self.script[k] if k < len(self.script) else 0


def all_resolutions(run):
    """run(script) -> (result, asked).  DFS over every script"""
    results = []
    stack = [()]
    while stack:
        script = stack.pop()
        result, asked = run(script)
        if len(asked) > len(script):
            # the choice number len(script) was resolved with default 0:
            # branch on all its values (keeping the prefix)
            n = asked[len(script)]
            for i in range(n):
                stack.append(script + (i,))
        else:
            results.append((script, result, tuple(asked)))
    return results


# ---------------------------------------------------------------------------
# checks
# ---------------------------------------------------------------------------
counters = dict(mo_seeded=0, mo_enum=0, tp_seeded=0, tp_enum=0, outcomes=0)


def agent_snapshot(state):
    return (
        state.agent.position.yx,
        state.agent.orientation,
        id(state.agent.grid_object),
    )


def check_move_obstacles_seeded(layout, agent_yx, orientation, action, seed, fn):
    state = build_state(layout, agent_yx, orientation)
    cells = token_cells(layout, state)
    agent_before = agent_snapshot(state)

    ref_rng = rnd.default_rng(seed)
    ref_move_obstacles(cells, lambda n: int(ref_rng.choice(n)))

    rng = rnd.default_rng(seed)
    ret = fn(state, action, rng=rng)
    assert ret is None
    assert id_layout(state) == [[t for _, t in row] for row in cells], (
        layout,
        seed,
    )
    assert code_layout(state) == tuple(
        tuple(c for c, _ in row) for row in cells
    )
    assert agent_snapshot(state) == agent_before
    # same number / order of draws
    assert rng.bit_generator.state == ref_rng.bit_generator.state, (layout, seed)
    counters['mo_seeded'] += 1


def check_move_obstacles_enum(layout, agent_yx, orientation, action):
    def run_lib(script):
        state = build_state(layout, agent_yx, orientation)
        rng = ScriptedRng(script)
        tf.move_obstacles(state, action, rng=rng)
        assert agent_snapshot(state)[:2] == (agent_yx, orientation)
        return code_layout(state), rng.asked

    def run_ref(script):
        cells = [[(c, None) for c in row] for row in layout]
        rng = ScriptedRng(script)
        log = ref_move_obstacles(cells, rng.choice)
        result = tuple(tuple(c for c, _ in row) for row in cells)
        check_rules(layout, log, result)
        return result, rng.asked

    lib = all_resolutions(run_lib)
    ref = all_resolutions(run_ref)
    assert sorted(lib) == sorted(ref), layout
    counters['mo_enum'] += 1
    counters['outcomes'] += len(lib)

    # every free neighbour of the first obstacle is a possible destination
    h, w = len(layout), len(layout[0])
    sources = [(y, x) for y in range(h) for x in range(w) if layout[y][x] == 'O']
    if sources:
        y, x = sources[0]
        free = [
            (ny, nx)
            for ny, nx in ref_neighbours(y, x)
            if 0 <= ny < h and 0 <= nx < w and layout[ny][nx] == '.'
        ]
        reached = set()
        for script, result, asked in lib:
            if free:
                assert asked and asked[0] == len(free)
                reached.add(free[script[0]])
        assert reached == set(free), (layout, reached, free)


def check_rules(layout, log, result):
    """C11 rules, on the reference trace of one outcome"""
    flat_before = sorted(c for row in layout for c in row)
    flat_after = sorted(c for row in result for c in row)
    assert flat_before == flat_after  # nothing lost / duplicated
    sources = [src for src, _, _ in log]
    assert len(sources) == len(set(sources))  # each obstacle once
    for (y, x), dst, free in log:
        if dst is None:
            assert free == []
        else:
            assert dst in free
            assert abs(dst[0] - y) + abs(dst[1] - x) == 1
    # non floor / non obstacle cells never change
    for row_b, row_a in zip(layout, result):
        for b, a in zip(row_b, row_a):
            if b not in '.O':
                assert a == b
            else:
                assert a in '.O'


def check_teleport_seeded(layout, agent_yx, orientation, action, seed, fn):
    state = build_state(layout, agent_yx, orientation)
    ids_before = id_layout(state)
    held = id(state.agent.grid_object)
    cells = [[(c, None) for c in row] for row in layout]

    ref_rng = rnd.default_rng(seed)
    expected, _ = ref_teleport(cells, agent_yx, lambda n: int(ref_rng.choice(n)))

    rng = rnd.default_rng(seed)
    ret = fn(state, action, rng=rng)
    assert ret is None
    assert state.agent.position.yx == expected, (layout, agent_yx, seed)
    assert isinstance(state.agent.position, Position)
    assert state.agent.orientation is orientation
    assert id(state.agent.grid_object) == held
    assert id_layout(state) == ids_before  # grid untouched
    assert rng.bit_generator.state == ref_rng.bit_generator.state
    counters['tp_seeded'] += 1


def check_teleport_enum(layout, agent_yx, orientation, action):
    def run_lib(script):
        state = build_state(layout, agent_yx, orientation)
        rng = ScriptedRng(script)
        tf.teleport(state, action, rng=rng)
        assert code_layout(state) == layout
        assert state.agent.orientation is orientation
        return state.agent.position.yx, rng.asked

    cells = [[(c, None) for c in row] for row in layout]

    def run_ref(script):
        rng = ScriptedRng(script)
        result, _ = ref_teleport(cells, agent_yx, rng.choice)
        return result, rng.asked

    lib = all_resolutions(run_lib)
    ref = all_resolutions(run_ref)
    assert sorted(lib) == sorted(ref), (layout, agent_yx)

    code = layout[agent_yx[0]][agent_yx[1]]
    outcomes = {result for _, result, _ in lib}
    partners = {
        (y, x)
        for y, row in enumerate(layout)
        for x, c in enumerate(row)
        if c == code and (y, x) != agent_yx
    }
    if code in TELEPOD_COLORS and partners:
        assert outcomes == partners  # each partner possible, nothing else
    else:
        assert outcomes == {agent_yx}  # never displaced otherwise
        assert all(asked == () for _, _, asked in lib)
    counters['tp_enum'] += 1
    counters['outcomes'] += len(lib)


# ---------------------------------------------------------------------------
# layout generators
# ---------------------------------------------------------------------------
def random_layout(gen, h, w, alphabet, weights):
    idx = gen.choice(len(alphabet), size=(h, w), p=weights)
    return tuple(tuple(alphabet[i] for i in row) for row in idx)


def main():
    gen = rnd.default_rng(20240611)

    mo_alphabet = '.O#EKDBbr'
    mo_weights = [0.42, 0.25, 0.12, 0.03, 0.04, 0.04, 0.04, 0.03, 0.03]
    tp_alphabet = '.rgu#OK'
    tp_weights = [0.35, 0.25, 0.15, 0.08, 0.07, 0.05, 0.05]

    shapes = [
        (1, 1), (1, 2), (2, 1), (1, 3), (3, 1), (2, 2), (1, 5), (5, 1),
        (2, 3), (3, 2), (3, 3), (3, 4), (4, 3), (4, 4), (4, 6), (5, 5),
        (6, 7), (8, 8),
    ]  # fmt: skip

    variants = {
        'direct': (tf.move_obstacles, tf.teleport),
        'factory': (tf.factory('move_obstacles'), tf.factory('teleport')),
        'registry': (
            tf.transition_function_registry['move_obstacles'],
            tf.transition_function_registry['teleport'],
        ),
        'chain': (
            tf.factory('chain', transition_functions=[tf.move_obstacles]),
            tf.factory('chain', transition_functions=[tf.teleport]),
        ),
    }

    # --- exhaustive tiny layouts for move_obstacles (all layouts over '.O#'
    #     for small shapes), every resolution of every random choice
    for h, w in [(1, 1), (1, 2), (2, 1), (1, 3), (3, 1), (2, 2), (1, 4), (2, 3)]:
        for flat in itertools.product('.O#', repeat=h * w):
            layout = tuple(tuple(flat[y * w : (y + 1) * w]) for y in range(h))
            check_move_obstacles_enum(
                layout, (0, 0), Orientation.F, Action.MOVE_FORWARD
            )
            for seed in (0, 1):
                check_move_obstacles_seeded(
                    layout, (0, 0), Orientation.F, Action.ACTUATE, seed,
                    tf.move_obstacles,
                )  # fmt: skip
    # 3x3 over '.O' with few obstacles + walls sprinkled
    for flat in itertools.product('.O', repeat=9):
        if flat.count('O') > 3:
            continue
        layout = tuple(tuple(flat[y * 3 : (y + 1) * 3]) for y in range(3))
        check_move_obstacles_enum(layout, (1, 1), Orientation.R, Action.TURN_LEFT)

    # --- random larger layouts for move_obstacles
    for h, w in shapes:
        for rep in range(12):
            layout = random_layout(gen, h, w, mo_alphabet, mo_weights)
            agent_yx = (int(gen.integers(h)), int(gen.integers(w)))
            orientation = ORIENTATIONS[int(gen.integers(len(ORIENTATIONS)))]
            n_obstacles = sum(row.count('O') for row in layout)
            if n_obstacles <= 5:
                action = ACTIONS[int(gen.integers(len(ACTIONS)))]
                check_move_obstacles_enum(layout, agent_yx, orientation, action)
            for action in ACTIONS:
                for seed in range(6):
                    name = list(variants)[(seed + rep) % len(variants)]
                    check_move_obstacles_seeded(
                        layout, agent_yx, orientation, action,
                        1000 * rep + seed, variants[name][0],
                    )  # fmt: skip

    # --- teleport: exhaustive tiny layouts over '.rg' and every agent cell
    for h, w in [(1, 1), (1, 2), (2, 1), (1, 3), (2, 2), (1, 4), (2, 3)]:
        for flat in itertools.product('.rg', repeat=h * w):
            layout = tuple(tuple(flat[y * w : (y + 1) * w]) for y in range(h))
            for agent_yx in itertools.product(range(h), range(w)):
                check_teleport_enum(
                    layout, agent_yx, Orientation.F, Action.ACTUATE
                )
                check_teleport_seeded(
                    layout, agent_yx, Orientation.B, Action.MOVE_LEFT, 7,
                    tf.teleport,
                )  # fmt: skip

    # --- teleport: random larger layouts, every agent cell, all actions
    for h, w in shapes:
        for rep in range(6):
            layout = random_layout(gen, h, w, tp_alphabet, tp_weights)
            for agent_yx in itertools.product(range(h), range(w)):
                orientation = ORIENTATIONS[int(gen.integers(len(ORIENTATIONS)))]
                action = ACTIONS[int(gen.integers(len(ACTIONS)))]
                check_teleport_enum(layout, agent_yx, orientation, action)
                for k, action in enumerate(ACTIONS):
                    for seed in range(3):
                        name = list(variants)[(seed + k) % len(variants)]
                        check_teleport_seeded(
                            layout, agent_yx, orientation, action,
                            100 * rep + seed, variants[name][1],
                        )  # fmt: skip

    # --- rng=None: the library-level generator is used, with the same draws
    for seed in range(25):
        layout = random_layout(gen, 5, 5, mo_alphabet, mo_weights)
        state = build_state(layout, (2, 2), Orientation.F)
        cells = token_cells(layout, state)
        ref_rng = rnd.default_rng(seed)
        ref_move_obstacles(cells, lambda n: int(ref_rng.choice(n)))
        lib_rng = reset_gv_rng(seed)
        tf.move_obstacles(state, Action.PICK_N_DROP)
        assert id_layout(state) == [[t for _, t in row] for row in cells]
        assert lib_rng.bit_generator.state == ref_rng.bit_generator.state

        layout = random_layout(gen, 4, 4, tp_alphabet, tp_weights)
        for agent_yx in itertools.product(range(4), range(4)):
            state = build_state(layout, agent_yx, Orientation.L)
            cells = [[(c, None) for c in row] for row in layout]
            ref_rng = rnd.default_rng(seed)
            expected, _ = ref_teleport(
                cells, agent_yx, lambda n: int(ref_rng.choice(n))
            )
            lib_rng = reset_gv_rng(seed)
            tf.teleport(state, Action.ACTUATE)
            assert state.agent.position.yx == expected
            assert lib_rng.bit_generator.state == ref_rng.bit_generator.state

    # --- transition_with_copy leaves the input state alone
    layout = (('O', '.', 'r'), ('.', '#', 'r'), ('O', '.', 'r'))
    state = build_state(layout, (0, 2), Orientation.F)
    before = copy.deepcopy(state)
    chained = tf.factory(
        'chain', transition_functions=[tf.move_obstacles, tf.teleport]
    )
    for seed in range(20):
        nxt = tf.transition_with_copy(
            chained, state, Action.MOVE_FORWARD, rng=rnd.default_rng(seed)
        )
        assert state == before
        assert nxt.agent.position.yx in {(1, 2), (2, 2)}
        assert sum(row.count('O') for row in code_layout(nxt)) == 2

    # public names / signatures intact
    assert tf.move_obstacles.__name__ == 'move_obstacles'
    assert tf.teleport.__name__ == 'teleport'
    import inspect

    for fn in (tf.move_obstacles, tf.teleport):
        assert list(inspect.signature(fn).parameters) == ['state', 'action', 'rng']
        assert inspect.signature(fn).parameters['rng'].default is None

    print('OK', counters)


if __name__ == '__main__':
    main()
