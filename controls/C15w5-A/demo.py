# demo for seed A of property C15 -- run as: cd /tmp/wt5-C15 && /venv/bin/python -W ignore _seed/A/demo.py
# Refactoring A touches representation.py (default / no-overlap grid-object space + conversion functions) and gym.py (outer_space_to_gym_space): see part_functions, part_objects, check_gym_space, part_trajectories.
"""Shared body of the C15 demos (the same body is used by _seed/A/demo.py and _seed/B/demo.py).

Property C15: numeric representations always lie inside their declared spaces.

Everything the library computes (declared spaces, converted arrays, gym-layer
spaces) is compared against an INDEPENDENT re-implementation contained in this
file (`Ref*` functions): hard-coded type indices / number of statuses / colour
values, closed-form formulas for the three encodings, and a hand-written
containment test.  The library is therefore checked twice: (1) exact equality
with the reference (so any behavioural change of a refactoring shows up), and
(2) the property itself (shape, dtype, bounds; also via the library's own
`Space.contains` and via `gym.spaces.*.contains`).
"""
import itertools
import os
import random
import sys

sys.path.insert(0, os.getcwd())

import numpy as np  # noqa: E402

import gym  # noqa: E402
import gym_gridverse.gym as gv_gym  # noqa: E402
from gym_gridverse.agent import Agent  # noqa: E402
from gym_gridverse.envs.yaml.factory import factory_env_from_data  # noqa: E402
from gym_gridverse.geometry import Orientation, Position, Shape  # noqa: E402
from gym_gridverse.grid import Grid  # noqa: E402
from gym_gridverse.grid_object import (  # noqa: E402
    Beacon,
    Box,
    Color,
    Door,
    Exit,
    Floor,
    Hidden,
    Key,
    MovingObstacle,
    NoneGridObject,
    Telepod,
    Wall,
)
from gym_gridverse.observation import Observation  # noqa: E402
from gym_gridverse.outer_env import OuterEnv  # noqa: E402
from gym_gridverse.representations import representation as rep_mod  # noqa: E402
from gym_gridverse.representations.observation_representations import (  # noqa: E402
    make_observation_representation,
)
from gym_gridverse.representations.spaces import Space, SpaceType  # noqa: E402
from gym_gridverse.representations.state_representations import (  # noqa: E402
    make_state_representation,
)
from gym_gridverse.spaces import ObservationSpace, StateSpace  # noqa: E402
from gym_gridverse.state import State  # noqa: E402

COUNTS = {}


def count(name, n=1):
    COUNTS[name] = COUNTS.get(name, 0) + n


# --------------------------------------------------------------------------
# independent tables (NOT read from the library)
# --------------------------------------------------------------------------

TYPE_INDEX = {
    'NoneGridObject': 0,
    'Hidden': 1,
    'Floor': 2,
    'Wall': 3,
    'Exit': 4,
    'Door': 5,
    'Key': 6,
    'MovingObstacle': 7,
    'Box': 8,
    'Telepod': 9,
    'Beacon': 10,
}
NUM_STATES = {name: 1 for name in TYPE_INDEX}
NUM_STATES['Door'] = 3
COLOR_VALUE = {'NONE': 0, 'RED': 1, 'GREEN': 2, 'BLUE': 3, 'YELLOW': 4}
ORIENTATION_VALUE = {'FORWARD': 0, 'BACKWARD': 1, 'LEFT': 2, 'RIGHT': 3}

CLASSES = {
    'NoneGridObject': NoneGridObject,
    'Hidden': Hidden,
    'Floor': Floor,
    'Wall': Wall,
    'Exit': Exit,
    'Door': Door,
    'Key': Key,
    'MovingObstacle': MovingObstacle,
    'Box': Box,
    'Telepod': Telepod,
    'Beacon': Beacon,
}
NORMAL_TYPES = [
    'Floor',
    'Wall',
    'Exit',
    'Door',
    'Key',
    'MovingObstacle',
    'Box',
    'Telepod',
    'Beacon',
]
STATE_TYPES = [name for name in NORMAL_TYPES if name != 'Box']
REPRESENTATIONS = ['default', 'no-overlap', 'compact']


def sanity_check_tables():
    """the hard-coded tables describe the library under test"""
    for name, cls in CLASSES.items():
        assert cls.type_index() == TYPE_INDEX[name], name
        assert cls.num_states() == NUM_STATES[name], name
    assert {c.name: c.value for c in Color} == COLOR_VALUE
    for name, value in ORIENTATION_VALUE.items():
        assert Orientation[name].value == value
    assert [s.value for s in Door.Status] == [0, 1, 2]


def members_of(type_name, color_names):
    """every constructible member (status x colour) of a type"""
    colors = [Color[c] for c in color_names]
    if type_name == 'NoneGridObject':
        return [NoneGridObject()]
    if type_name == 'Hidden':
        return [Hidden()]
    if type_name == 'Floor':
        return [Floor()]
    if type_name == 'Wall':
        return [Wall()]
    if type_name == 'MovingObstacle':
        return [MovingObstacle()]
    if type_name == 'Exit':
        return [Exit(c) for c in colors]
    if type_name == 'Key':
        return [Key(c) for c in colors]
    if type_name == 'Telepod':
        return [Telepod(c) for c in colors]
    if type_name == 'Beacon':
        return [Beacon(c) for c in colors]
    if type_name == 'Door':
        return [Door(s, c) for s in Door.Status for c in colors]
    if type_name == 'Box':
        return [Box(Floor()), Box(Key(colors[-1]))]
    raise AssertionError(type_name)


def triple(obj):
    """(type name, status index, colour name) of a grid object, read
    structurally (class name / enum names), not via type_index()"""
    name = type(obj).__name__
    status = obj.state.value if name == 'Door' else 0
    assert obj.state_index == status
    return name, status, obj.color.name


# --------------------------------------------------------------------------
# reference encoder
# --------------------------------------------------------------------------


class RefObjectEncoding:
    """Closed-form reference of the three grid-object encodings.

    `type_names`: the *effective* set of types of the encoding (the space's
    types plus the implicit ones); `color_names`: effective colour set.
    """

    def __init__(self, representation, type_names, color_names):
        self.representation = representation
        self.types = sorted(set(type_names), key=TYPE_INDEX.__getitem__)
        self.colors = sorted(set(color_names), key=COLOR_VALUE.__getitem__)
        self.mt = max(TYPE_INDEX[t] for t in self.types)
        self.ms = max(NUM_STATES[t] for t in self.types)  # sic: num_states
        self.mc = max(COLOR_VALUE[c] for c in self.colors)
        self.n_types = len(self.types)
        self.n_states = sum(NUM_STATES[t] for t in self.types)
        self.n_colors = len(self.colors)

    def upper(self):
        if self.representation == 'default':
            return [self.mt, self.ms, self.mc]
        if self.representation == 'no-overlap':
            return [self.mt, self.mt + self.ms + 1, self.mt + self.ms + self.mc + 2]
        if self.representation == 'compact':
            return [
                self.n_types - 1,
                self.n_types + self.n_states - 1,
                self.n_types + self.n_states + self.n_colors - 1,
            ]
        raise AssertionError

    def encode(self, type_name, status, color_name):
        ti, cv = TYPE_INDEX[type_name], COLOR_VALUE[color_name]
        if self.representation == 'default':
            return [ti, status, cv]
        if self.representation == 'no-overlap':
            return [ti, self.mt + status + 1, self.mt + self.ms + cv + 2]
        if self.representation == 'compact':
            rank = self.types.index(type_name)
            before = sum(NUM_STATES[t] for t in self.types[:rank])
            return [
                rank,
                self.n_types + before + status,
                self.n_types + self.n_states + self.colors.index(color_name),
            ]
        raise AssertionError

    def compact_maps(self):
        """expected (type_map, status_map, color_map) lookup tables, -1 filled"""
        type_map = -np.ones((self.mt + 1,), dtype=np.int64)
        status_map = -np.ones((self.mt + 1, self.ms + 1), dtype=np.int64)
        color_map = -np.ones((self.mc + 1,), dtype=np.int64)
        for t in self.types:
            type_map[TYPE_INDEX[t]] = self.encode(t, 0, self.colors[0])[0]
            for s in range(NUM_STATES[t]):
                status_map[TYPE_INDEX[t], s] = self.encode(t, s, self.colors[0])[1]
        for c in self.colors:
            color_map[COLOR_VALUE[c]] = self.encode(self.types[0], 0, c)[2]
        return type_map, status_map, color_map


def effective(kind, type_names, color_names):
    extra = {'NoneGridObject'} if kind == 'state' else {'NoneGridObject', 'Hidden'}
    return set(type_names) | extra, set(color_names) | {'NONE'}


def ref_space(kind, representation, type_names, color_names, shape):
    """expected {key: (space type name, lower, upper)}"""
    types, colors = effective(kind, type_names, color_names)
    enc = RefObjectEncoding(representation, types, colors)
    h, w = shape
    up = np.array(enc.upper(), dtype=np.int64)
    grid_up = np.empty((h, w, 3), dtype=np.int64)
    grid_up[:, :] = up
    spaces = {
        'grid': ('CATEGORICAL', np.zeros((h, w, 3), np.int64), grid_up),
        'agent_id_grid': (
            'DISCRETE',
            np.zeros((h, w), np.int64),
            np.ones((h, w), np.int64),
        ),
        'item': ('CATEGORICAL', np.zeros(3, np.int64), up),
    }
    if kind == 'state':
        spaces['agent'] = (
            'CONTINUOUS',
            np.array([-1.0, -1.0, 0.0, 0.0, 0.0, 0.0]),
            np.array([1.0, 1.0, 1.0, 1.0, 1.0, 1.0]),
        )
    return enc, spaces


def ref_convert(kind, enc, thing):
    """expected {key: array} for a State / Observation"""
    h, w = thing.grid.shape.height, thing.grid.shape.width
    grid = np.empty((h, w, 3), dtype=np.int64)
    for y in range(h):
        for x in range(w):
            grid[y, x] = enc.encode(*triple(thing.grid[y, x]))
    ay, ax = thing.agent.position.y, thing.agent.position.x
    agent_id = np.zeros((h, w), dtype=np.int64)
    agent_id[ay, ax] = 1
    out = {
        'grid': grid,
        'agent_id_grid': agent_id,
        'item': np.array(enc.encode(*triple(thing.agent.grid_object)), np.int64),
    }
    if kind == 'state':
        agent = [0.0] * 6
        agent[0] = (2 * ay - h + 1) / (h - 1)
        agent[1] = (2 * ax - w + 1) / (w - 1)
        agent[2 + ORIENTATION_VALUE[thing.agent.orientation.name]] = 1.0
        out['agent'] = np.array(agent, dtype=np.float64)
    return out


# --------------------------------------------------------------------------
# checks
# --------------------------------------------------------------------------


def kind_ok(arr, space_type_name):
    if space_type_name == 'CONTINUOUS':
        return arr.dtype == np.float64
    return arr.dtype == np.int64


def same_array(a, b):
    return (
        isinstance(a, np.ndarray)
        and a.shape == b.shape
        and a.dtype == b.dtype
        and np.array_equal(a, b)
    )


def check_space(space, expected, where):
    """library space dict == reference, entry by entry"""
    assert list(space.keys()) == [
        k for k in ['grid', 'agent_id_grid', 'agent', 'item'] if k in expected
    ], (where, list(space.keys()))
    for key, (type_name, lower, upper) in expected.items():
        s = space[key]
        assert isinstance(s, Space), (where, key)
        assert s.space_type is SpaceType[type_name], (where, key, s.space_type)
        assert same_array(s.lower_bound, lower), (where, key, s.lower_bound, lower)
        assert same_array(s.upper_bound, upper), (where, key, s.upper_bound, upper)
        assert s.shape == lower.shape, (where, key)
    count('space-checked')


def check_gym_space(space, expected, where):
    """gym-layer space advertises exactly the same boxes"""
    gym_space = gv_gym.outer_space_to_gym_space(space)
    assert isinstance(gym_space, gym.spaces.Dict), where
    assert sorted(gym_space.spaces.keys()) == sorted(expected.keys()), where
    for key, (type_name, lower, upper) in expected.items():
        box = gym_space.spaces[key]
        assert isinstance(box, gym.spaces.Box), (where, key)
        want = np.float64 if type_name == 'CONTINUOUS' else np.int64
        assert box.dtype == want, (where, key, box.dtype)
        assert box.shape == lower.shape, (where, key)
        assert box.low.dtype == want and box.high.dtype == want, (where, key)
        assert np.array_equal(box.low, lower), (where, key)
        assert np.array_equal(box.high, upper), (where, key)
    count('gym-space-checked')
    return gym_space


def check_arrays(arrays, expected_arrays, space, expected_space, gym_space, where):
    """converted arrays == reference AND inside declared space (3 ways)"""
    assert list(arrays.keys()) == list(space.keys()), where
    for key, want in expected_arrays.items():
        got = arrays[key]
        assert same_array(got, want), (where, key, got, want)
        type_name, lower, upper = expected_space[key]
        # the property, checked by hand
        assert got.shape == lower.shape, (where, key)
        assert kind_ok(got, type_name), (where, key, got.dtype)
        assert np.all(lower <= got) and np.all(got <= upper), (where, key, got)
        # the property, via the library
        assert space[key].contains(got), (where, key)
        # the property, at the gym layer
        if gym_space is not None:
            assert gym_space.spaces[key].contains(got), (where, key)
    if gym_space is not None:
        assert gym_space.contains(arrays), where
    count('conversion-checked')


def make_space(kind, type_names, color_names, shape):
    cls = StateSpace if kind == 'state' else ObservationSpace
    return cls(
        Shape(*shape),
        [CLASSES[t] for t in type_names],
        [Color[c] for c in color_names],
    )


def make_rep(kind, representation, space):
    if kind == 'state':
        return make_state_representation(representation, space)
    return make_observation_representation(representation, space)


def object_representation_of(rep):
    return rep.representations['grid'].grid_object_representation


def check_compact_maps(obj_rep, enc, where):
    """lookup tables of the compact encoding == reference (incl. -1 fill)"""
    if enc.representation != 'compact':
        return
    maps = (
        obj_rep._grid_object_type_map,
        obj_rep._grid_object_status_map,
        obj_rep._grid_object_color_map,
    )
    for got, want in zip(maps, enc.compact_maps()):
        assert same_array(got, want), (where, got, want)
    count('compact-maps-checked')


# --------------------------------------------------------------------------
# part 1: all type subsets x all colour subsets x 3 representations,
#         every member object
# --------------------------------------------------------------------------


def powerset(items):
    for r in range(len(items) + 1):
        yield from itertools.combinations(items, r)


def part_objects():
    color_subsets = list(powerset(['RED', 'GREEN', 'BLUE', 'YELLOW']))
    for kind, universe, shape in [
        ('state', STATE_TYPES, (3, 4)),
        ('observation', NORMAL_TYPES, (4, 3)),
    ]:
        for type_names in powerset(universe):
            if not type_names:
                continue
            for n_cs, color_subset in enumerate(color_subsets):
                # colour NONE both explicitly given and implicitly added
                color_names = (
                    color_subset if n_cs % 2 else ('NONE',) + color_subset
                )
                space = make_space(kind, type_names, color_names, shape)
                eff_types, eff_colors = effective(kind, type_names, color_names)
                member_objects = [
                    obj
                    for t in sorted(eff_types)
                    for obj in members_of(t, sorted(eff_colors))
                ]
                for representation in REPRESENTATIONS:
                    where = (kind, representation, type_names, color_names)
                    rep = make_rep(kind, representation, space)
                    enc, expected = ref_space(
                        kind, representation, type_names, color_names, shape
                    )
                    declared = rep.space
                    check_space(declared, expected, where)
                    obj_rep = object_representation_of(rep)
                    item_space = declared['item']
                    _, lower, upper = expected['item']
                    check_compact_maps(obj_rep, enc, where)
                    seen = set()
                    for obj in member_objects:
                        got = obj_rep.convert(obj)
                        want = np.array(enc.encode(*triple(obj)), np.int64)
                        assert same_array(got, want), (where, obj, got, want)
                        assert np.all(lower <= got) and np.all(got <= upper)
                        assert item_space.contains(got), (where, obj, got)
                        seen.add(tuple(got.tolist()))
                        count('object-converted')
                    if representation != 'default':
                        # channels use disjoint index ranges
                        chans = [set(v[i] for v in seen) for i in range(3)]
                        assert not (chans[0] & chans[1]), where
                        assert not (chans[1] & chans[2]), where
                        assert not (chans[0] & chans[2]), where
                # gym layer for a thinner slice (Box construction is slow-ish)
                if n_cs in (0, 5, 15):
                    for representation in REPRESENTATIONS:
                        rep = make_rep(kind, representation, space)
                        _, expected = ref_space(
                            kind, representation, type_names, color_names, shape
                        )
                        check_gym_space(rep.space, expected, (kind, type_names))


def part_special_subsets():
    """type lists that explicitly contain the implicit types / duplicates, and
    spaces that cannot be built"""
    cases = [
        ('state', ['NoneGridObject', 'Floor'], ['NONE']),
        ('state', ['Floor', 'Floor', 'Door', 'Door'], ['RED', 'RED']),
        ('state', ['NoneGridObject'], []),
        ('observation', ['Hidden', 'Floor'], ['NONE']),
        ('observation', ['NoneGridObject', 'Hidden', 'Wall', 'Door'], ['BLUE']),
        ('observation', ['Hidden'], []),
        ('observation', ['NoneGridObject'], ['YELLOW']),
        ('observation', [], ['GREEN']),
        ('observation', ['Box', 'Box', 'Beacon'], ['GREEN', 'NONE']),
    ]
    for kind, type_names, color_names in cases:
        space = make_space(kind, type_names, color_names, (2, 3))
        eff_types, eff_colors = effective(kind, type_names, color_names)
        for representation in REPRESENTATIONS:
            where = (kind, representation, type_names, color_names)
            rep = make_rep(kind, representation, space)
            enc, expected = ref_space(
                kind, representation, type_names, color_names, (2, 3)
            )
            check_space(rep.space, expected, where)
            check_gym_space(rep.space, expected, where)
            obj_rep = object_representation_of(rep)
            check_compact_maps(obj_rep, enc, where)
            for t in sorted(eff_types):
                for obj in members_of(t, sorted(eff_colors)):
                    got = obj_rep.convert(obj)
                    want = np.array(enc.encode(*triple(obj)), np.int64)
                    assert same_array(got, want), (where, obj, got, want)
                    assert rep.space['item'].contains(got)
                    count('object-converted')

    # un-representable state spaces are refused, for every representation
    for bad in (['Box'], ['Floor', 'Box'], ['Hidden', 'Wall']):
        space = make_space('state', bad, ['NONE'], (3, 3))
        for representation in REPRESENTATIONS:
            try:
                make_state_representation(representation, space)
            except ValueError:
                count('refused')
            else:
                raise AssertionError(('should be refused', bad))

    # empty type list: default / no-overlap work (only the implicit
    # NoneGridObject), compact needs max over the empty list -> ValueError
    space = make_space('state', [], ['RED'], (2, 2))
    for representation in ('default', 'no-overlap'):
        rep = make_state_representation(representation, space)
        _, expected = ref_space('state', representation, [], ['RED'], (2, 2))
        check_space(rep.space, expected, ('empty', representation))
    try:
        make_state_representation('compact', space)
    except ValueError:
        count('refused')
    else:
        raise AssertionError('compact over empty type list should fail')

    # unknown names
    for maker, space in (
        (make_state_representation, make_space('state', ['Floor'], [], (2, 2))),
        (
            make_observation_representation,
            make_space('observation', ['Floor'], [], (2, 3)),
        ),
    ):
        for name in ('', 'Default', 'nooverlap', 'compact '):
            try:
                maker(name, space)
            except ValueError as e:
                assert str(e) == f'invalid name {name}'
                count('refused')
            else:
                raise AssertionError(name)

    # even view widths are refused
    for width in (2, 4):
        try:
            make_space('observation', ['Floor'], [], (3, width))
        except ValueError:
            count('refused')
        else:
            raise AssertionError(width)


# --------------------------------------------------------------------------
# part 2: the module-level grid-object functions, arbitrary type/colour sets
# --------------------------------------------------------------------------


def part_functions():
    rnd = random.Random(20150)
    all_types = list(TYPE_INDEX)
    all_colors = list(COLOR_VALUE)
    for _ in range(1500):
        type_names = rnd.sample(all_types, rnd.randint(1, len(all_types)))
        color_names = rnd.sample(all_colors, rnd.randint(1, len(all_colors)))
        type_set = {CLASSES[t] for t in type_names}
        color_set = {Color[c] for c in color_names}

        for representation, space_f in (
            ('default', rep_mod.default_grid_object_representation_space),
            ('no-overlap', rep_mod.no_overlap_grid_object_representation_space),
        ):
            enc = RefObjectEncoding(representation, type_names, color_names)
            space = space_f(type_set, color_set)
            assert space.space_type is SpaceType.CATEGORICAL
            assert same_array(space.upper_bound, np.array(enc.upper(), np.int64))
            assert same_array(space.lower_bound, np.zeros(3, np.int64))
            for t in type_names:
                for obj in members_of(t, color_names):
                    want = np.array(enc.encode(*triple(obj)), np.int64)
                    if representation == 'default':
                        got = rep_mod.default_grid_object_representation_convert(obj)
                    else:
                        got = rep_mod.no_overlap_grid_object_representation_convert(
                            type_set, color_set, obj
                        )
                    assert same_array(got, want), (type_names, obj, got, want)
                    assert space.contains(got)
                    count('function-converted')

        # compact functions: fed with the reference lookup tables (colour
        # NONE is needed by the colourless members)
        color_names = sorted(set(color_names) | {'NONE'})
        enc = RefObjectEncoding('compact', type_names, color_names)
        maps = enc.compact_maps()
        space = rep_mod.compact_grid_object_representation_space(*maps)
        assert space.space_type is SpaceType.CATEGORICAL
        assert same_array(space.upper_bound, np.array(enc.upper(), np.int64))
        assert same_array(space.lower_bound, np.zeros(3, np.int64))
        for t in type_names:
            for obj in members_of(t, color_names):
                got = rep_mod.compact_grid_object_representation_convert(*maps, obj)
                want = np.array(enc.encode(*triple(obj)), np.int64)
                assert same_array(got, want), (type_names, obj, got, want)
                assert space.contains(got)
                count('function-converted')

    # empty sets: ValueError from max() in every space function
    for f, args in (
        (rep_mod.default_grid_object_representation_space, (set(), {Color.NONE})),
        (rep_mod.default_grid_object_representation_space, ({Floor}, set())),
        (rep_mod.no_overlap_grid_object_representation_space, (set(), {Color.NONE})),
        (rep_mod.no_overlap_grid_object_representation_space, ({Floor}, set())),
        (
            rep_mod.no_overlap_grid_object_representation_convert,
            (set(), {Color.NONE}, Floor()),
        ),
    ):
        try:
            f(*args)
        except ValueError:
            count('refused')
        else:
            raise AssertionError((f.__name__, args))
    # the colour set is irrelevant to the no-overlap conversion
    got = rep_mod.no_overlap_grid_object_representation_convert(
        {Floor, Door}, set(), Door(Door.Status.LOCKED, Color.BLUE)
    )
    assert same_array(got, np.array([5, 5 + 2 + 1, 5 + 3 + 3 + 2], np.int64))


# --------------------------------------------------------------------------
# part 3: member states / observations: all shapes, all poses, all held items
# --------------------------------------------------------------------------

STATE_SHAPES = [(h, w) for h in (2, 3, 4, 6) for w in (2, 3, 5)]
VIEW_SHAPES = [(h, w) for h in (2, 3, 5) for w in (1, 3, 5, 7)]

STATE_CONFIGS = [
    (['Floor'], []),
    (['Floor', 'Wall', 'Exit'], ['NONE']),
    (['Wall', 'Floor', 'Exit', 'Door', 'Key'], ['NONE', 'YELLOW']),
    (['Floor', 'Beacon', 'Telepod'], ['RED', 'GREEN', 'BLUE', 'YELLOW']),
    (STATE_TYPES, ['RED', 'BLUE']),
    (['Key', 'Door'], ['GREEN']),
]
OBS_CONFIGS = STATE_CONFIGS + [
    (NORMAL_TYPES, ['NONE', 'RED', 'GREEN', 'BLUE', 'YELLOW']),
    (['Box', 'Floor'], ['YELLOW']),
]


def part_states_and_observations():
    rnd = random.Random(15)
    for kind, configs, shapes in (
        ('state', STATE_CONFIGS, STATE_SHAPES),
        ('observation', OBS_CONFIGS, VIEW_SHAPES),
    ):
        for type_names, color_names in configs:
            eff_types, eff_colors = effective(kind, type_names, color_names)
            grid_types = set(type_names) | (
                {'Hidden'} if kind == 'observation' else set()
            )
            grid_members = [
                obj
                for t in sorted(grid_types)
                for obj in members_of(t, sorted(eff_colors))
            ]
            held_members = [
                obj
                for t in sorted(set(type_names) | {'NoneGridObject'})
                for obj in members_of(t, sorted(eff_colors))
            ]
            for shape in shapes:
                h, w = shape
                space = make_space(kind, type_names, color_names, shape)
                for representation in REPRESENTATIONS:
                    where = (kind, representation, tuple(type_names), shape)
                    rep = make_rep(kind, representation, space)
                    enc, expected = ref_space(
                        kind, representation, type_names, color_names, shape
                    )
                    declared = rep.space
                    check_space(declared, expected, where)
                    gym_space = check_gym_space(declared, expected, where)
                    check_compact_maps(object_representation_of(rep), enc, where)

                    # grids: one per member object (uniform), plus random ones
                    grids = []
                    for obj in grid_members:
                        grids.append([[obj for _ in range(w)] for _ in range(h)])
                    for _ in range(3):
                        grids.append(
                            [
                                [rnd.choice(grid_members) for _ in range(w)]
                                for _ in range(h)
                            ]
                        )
                    poses = [
                        (y, x, o)
                        for y in range(h)
                        for x in range(w)
                        for o in Orientation
                    ]
                    for n_grid, objects in enumerate(grids):
                        grid = Grid([list(row) for row in objects])
                        # every pose with a cycling held item on the first 2
                        # grids, a random sample of poses on the others
                        if n_grid < 2:
                            chosen = poses
                        else:
                            chosen = rnd.sample(poses, min(6, len(poses)))
                        for n_pose, (y, x, o) in enumerate(chosen):
                            held = held_members[
                                (n_pose + n_grid) % len(held_members)
                            ]
                            agent = Agent(Position(y, x), o, held)
                            thing = (
                                State(grid, agent)
                                if kind == 'state'
                                else Observation(grid, agent)
                            )
                            assert space.contains(thing), where
                            arrays = rep.convert(thing)
                            check_arrays(
                                arrays,
                                ref_convert(kind, enc, thing),
                                declared,
                                expected,
                                gym_space if n_pose % 5 == 0 else None,
                                where,
                            )
                    # every held item at one pose
                    grid = Grid([list(row) for row in grids[-1]])
                    for held in held_members:
                        agent = Agent(Position(h - 1, w // 2), Orientation.F, held)
                        thing = (
                            State(grid, agent)
                            if kind == 'state'
                            else Observation(grid, agent)
                        )
                        arrays = rep.convert(thing)
                        check_arrays(
                            arrays,
                            ref_convert(kind, enc, thing),
                            declared,
                            expected,
                            gym_space,
                            where,
                        )


# --------------------------------------------------------------------------
# part 4: trajectories of the shipped configurations (transcribed from
#         gym_gridverse/registered_envs/*.yaml; PyYAML is not available)
# --------------------------------------------------------------------------

SIX_ACTIONS = [
    'MOVE_FORWARD',
    'MOVE_BACKWARD',
    'MOVE_LEFT',
    'MOVE_RIGHT',
    'TURN_LEFT',
    'TURN_RIGHT',
]
VIEW = {'name': 'partially_occluded', 'area': [[-6, 0], [-3, 3]]}
ALL_COLORS = ['NONE', 'RED', 'GREEN', 'BLUE', 'YELLOW']
FOUR_COLORS = ['RED', 'GREEN', 'BLUE', 'YELLOW']


def _exit_rewards():
    return [
        {'name': 'reach_exit', 'reward_on': 5.0, 'reward_off': 0.0},
        {
            'name': 'getting_closer',
            'distance_function': 'manhattan',
            'object_type': 'Exit',
            'reward_closer': 0.2,
            'reward_further': -0.2,
        },
        {'name': 'living_reward', 'reward': -0.05},
    ]


def _memory_rewards():
    return [
        {'name': 'reach_exit_memory', 'reward_good': 5.0, 'reward_bad': -5.0},
        {'name': 'living_reward', 'reward': -0.05},
    ]


def _config(objects, colors, reset, transitions, rewards, terminating=None, actions=True):
    data = {
        'state_space': {'objects': list(objects), 'colors': list(colors)},
        'observation_space': {'objects': list(objects), 'colors': list(colors)},
        'reset_function': reset,
        'transition_functions': [{'name': t} for t in transitions],
        'reward_functions': rewards,
        'observation_function': dict(VIEW),
        'terminating_function': terminating or {'name': 'reach_exit'},
    }
    if actions:
        data['action_space'] = list(SIX_ACTIONS)
    return data


def shipped_configs():
    wfe = ['Wall', 'Floor', 'Exit']
    move = ['move_agent', 'turn_agent']
    out = {}
    for n, rivers in ((5, 1), (7, 2)):
        out[f'GV-Crossing-{n}x{n}-v0'] = _config(
            wfe,
            ['NONE'],
            {
                'name': 'crossing',
                'shape': [n, n],
                'num_rivers': rivers,
                'object_type': 'Wall',
            },
            move,
            _exit_rewards(),
        )
    for n, obstacles in ((5, 1), (7, 2)):
        rewards = _exit_rewards()
        rewards[1:1] = [
            {'name': 'bump_moving_obstacle', 'reward': -1.0},
            {'name': 'bump_into_wall', 'reward': -1.0},
        ]
        out[f'GV-DynamicObstacles-{n}x{n}-v0'] = _config(
            wfe + ['MovingObstacle'],
            ['NONE'],
            {
                'name': 'dynamic_obstacles',
                'shape': [n, n],
                'num_obstacles': obstacles,
                'random_agent': False,
            },
            move + ['move_obstacles'],
            rewards,
            {
                'name': 'reduce_any',
                'terminating_functions': [
                    {'name': 'reach_exit'},
                    {'name': 'bump_moving_obstacle'},
                    {'name': 'bump_into_wall'},
                ],
            },
        )
    for n in (4, 8):
        out[f'GV-Empty-{n}x{n}-v0'] = _config(
            wfe,
            ['NONE'],
            {'name': 'empty', 'shape': [n, n], 'random_agent': True},
            move,
            _exit_rewards(),
        )
    for label, sizes, layout in (
        ('FourRooms', (7, 9), [2, 2]),
        ('NineRooms', (10, 13), [3, 3]),
    ):
        for n in sizes:
            out[f'GV-{label}-{n}x{n}-v0'] = _config(
                wfe,
                ['NONE'],
                {'name': 'rooms', 'shape': [n, n], 'layout': list(layout)},
                move,
                _exit_rewards(),
            )
            out[f'GV-Memory{label}-{n}x{n}-v0'] = _config(
                wfe + ['Beacon'],
                ALL_COLORS,
                {
                    'name': 'memory_rooms',
                    'shape': [n, n],
                    'layout': list(layout),
                    'colors': list(FOUR_COLORS),
                    'num_beacons': 1,
                    'num_exits': 2,
                },
                move,
                _memory_rewards(),
            )
    for n in (5, 7, 9):
        rewards = _exit_rewards()
        rewards[1:1] = [
            {
                'name': 'pickndrop',
                'object_type': 'Key',
                'reward_pick': 1.0,
                'reward_drop': -1.0,
            },
            {'name': 'actuate_door', 'reward_open': 1.0, 'reward_close': -1.0},
        ]
        out[f'GV-Keydoor-{n}x{n}-v0'] = _config(
            ['Wall', 'Floor', 'Exit', 'Door', 'Key'],
            ['NONE', 'YELLOW'],
            {'name': 'keydoor', 'shape': [n, n]},
            move + ['actuate_door', 'pickndrop'],
            rewards,
            actions=False,
        )
    for n in (5, 9):
        out[f'GV-Memory-{n}x{n}-v0'] = _config(
            wfe + ['Beacon'],
            ALL_COLORS,
            {'name': 'memory', 'shape': [n, n], 'colors': list(FOUR_COLORS)},
            move,
            _memory_rewards(),
        )
    for n in (5, 7):
        out[f'GV-Teleport-{n}x{n}-v0'] = _config(
            wfe + ['Telepod'],
            ['NONE', 'RED'],
            {'name': 'teleport', 'shape': [n, n], 'random_agent': True},
            move + ['teleport'],
            _exit_rewards(),
        )
    return out


def part_trajectories(seeds=(0, 1), steps=70):
    configs = shipped_configs()
    assert sorted(configs) == sorted(gv_gym.STRING_TO_YAML_FILE), sorted(configs)
    assert gv_gym.env_ids == list(gv_gym.STRING_TO_YAML_FILE.keys())
    for name, data in sorted(configs.items()):
        type_names = data['state_space']['objects']
        color_names = data['state_space']['colors']
        for representation in REPRESENTATIONS:
            inner = factory_env_from_data(data)
            state_shape = inner.state_space.grid_shape.as_tuple
            view_shape = inner.observation_space.grid_shape.as_tuple
            assert view_shape == (7, 7), view_shape
            outer = OuterEnv(
                inner,
                state_representation=make_state_representation(
                    representation, inner.state_space
                ),
                observation_representation=make_observation_representation(
                    representation, inner.observation_space
                ),
            )
            env = gv_gym.GymEnvironment(outer)
            s_enc, s_expected = ref_space(
                'state', representation, type_names, color_names, state_shape
            )
            o_enc, o_expected = ref_space(
                'observation', representation, type_names, color_names, view_shape
            )
            where = (name, representation)
            s_declared = outer.state_representation.space
            o_declared = outer.observation_representation.space
            check_space(s_declared, s_expected, where)
            check_space(o_declared, o_expected, where)
            check_compact_maps(
                object_representation_of(outer.state_representation), s_enc, where
            )
            check_compact_maps(
                object_representation_of(outer.observation_representation),
                o_enc,
                where,
            )
            check_gym_space(s_declared, s_expected, where)
            check_gym_space(o_declared, o_expected, where)
            # the spaces advertised by the gym environment itself
            for adv, expected in (
                (env.state_space, s_expected),
                (env.observation_space, o_expected),
            ):
                assert isinstance(adv, gym.spaces.Dict)
                for key, (type_name, lower, upper) in expected.items():
                    box = adv.spaces[key]
                    want = np.float64 if type_name == 'CONTINUOUS' else np.int64
                    assert box.dtype == want and box.shape == lower.shape
                    assert np.array_equal(box.low, lower), (where, key)
                    assert np.array_equal(box.high, upper), (where, key)
            assert env.action_space.n == len(data.get('action_space', range(8)))

            def check_now():
                state_arrays = env.state
                obs_arrays = env.observation
                check_arrays(
                    state_arrays,
                    ref_convert('state', s_enc, inner.state),
                    s_declared,
                    s_expected,
                    env.state_space,
                    where,
                )
                check_arrays(
                    obs_arrays,
                    ref_convert('observation', o_enc, inner.observation),
                    o_declared,
                    o_expected,
                    env.observation_space,
                    where,
                )
                return obs_arrays

            for seed in seeds:
                rnd = random.Random(1000 * seed + 7)
                inner.set_seed(seed)  # GymEnvironment.seed needs gym.utils.seeding.create_seed, absent in gym 0.26
                first = env.reset()
                now = check_now()
                assert all(np.array_equal(first[k], now[k]) for k in now)
                for _ in range(steps):
                    action = rnd.randrange(env.action_space.n)
                    obs, reward, done, info = env.step(action)
                    assert env.observation_space.contains(obs), where
                    now = check_now()
                    assert all(np.array_equal(obs[k], now[k]) for k in now)
                    count('trajectory-step')
                    if done:
                        env.reset()
                        check_now()

        # the registered default wiring: set_*_representation switches spaces
        inner = factory_env_from_data(data)
        env = gv_gym.GymEnvironment(
            OuterEnv(
                inner,
                observation_representation=make_observation_representation(
                    'default', inner.observation_space
                ),
            )
        )
        assert env.state_space is None
        inner.set_seed(3)  # GymEnvironment.seed needs gym.utils.seeding.create_seed, absent in gym 0.26
        env.reset()
        for representation in REPRESENTATIONS:
            env.set_state_representation(representation)
            env.set_observation_representation(representation)
            _, s_expected = ref_space(
                'state',
                representation,
                type_names,
                color_names,
                inner.state_space.grid_shape.as_tuple,
            )
            _, o_expected = ref_space(
                'observation', representation, type_names, color_names, (7, 7)
            )
            for adv, expected in (
                (env.state_space, s_expected),
                (env.observation_space, o_expected),
            ):
                for key, (type_name, lower, upper) in expected.items():
                    box = adv.spaces[key]
                    assert np.array_equal(box.low, lower)
                    assert np.array_equal(box.high, upper)
            assert env.state_space.contains(env.state)
            assert env.observation_space.contains(env.observation)
            wrapped = gv_gym.GymStateWrapper(env)
            assert wrapped.observation_space is env.state_space
            assert wrapped.observation_space.contains(wrapped.observation)


def main():
    sanity_check_tables()
    part_functions()
    part_special_subsets()
    part_objects()
    part_states_and_observations()
    part_trajectories()
    for name in sorted(COUNTS):
        print(f'{name}: {COUNTS[name]}')
    print('OK')


if __name__ == '__main__':
    main()
