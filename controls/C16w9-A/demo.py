"""Demo for change A (no-overlap channel offsets computed once).

Checks property C16 -- numeric representations are faithful: lossless,
positional and well-separated -- against a reference implementation embedded in
this file and a few hard-coded expectations.  Runs (and must exit 0) both on
the pristine tree and with the patch applied: the only patch-dependent part is
guarded by a signature inspection.

Run from the worktree root:  /venv/bin/python _seed/A/demo.py
"""
import inspect
import itertools
import os
import random
import sys

sys.path.insert(0, os.getcwd())  # the worktree root

import numpy as np
import numpy.random as rnd

from gym_gridverse.agent import Agent
from gym_gridverse.envs import observation_functions, reset_functions
from gym_gridverse.geometry import Orientation, Position, Shape
from gym_gridverse.grid import Grid
from gym_gridverse.grid_object import (
    Beacon,
    Box,
    Color,
    Door,
    Exit,
    Floor,
    Hidden,
    Key,
    MovingObstacle,
    NoneGridObject,
    Telepod,
    Wall,
)
from gym_gridverse.observation import Observation
from gym_gridverse.representations import representation as R
from gym_gridverse.representations.observation_representations import (
    NoOverlapGridObjectObservationRepresentation,
    make_observation_representation,
)
from gym_gridverse.representations.state_representations import (
    NoOverlapGridObjectStateRepresentation,
    make_state_representation,
)
from gym_gridverse.spaces import ObservationSpace, StateSpace
from gym_gridverse.state import State

NAMES = ('default', 'no-overlap', 'compact')
CHECKS = 0


def check(condition, *message):
    global CHECKS
    CHECKS += 1
    if not condition:
        print('FAILED:', *message)
        sys.exit(1)


# ----------------------------------------------------------------------------
# reference implementation (independent of the library's representation code)
# ----------------------------------------------------------------------------


def ref_encoder(name, types, colors):
    """reference per-object encoding for a space with these types and colors

    `types` includes the implicit ones (NoneGridObject, and Hidden for
    observations), `colors` includes Color.NONE.
    """
    if name == 'default':
        return lambda o: (o.type_index(), o.state_index, o.color.value)

    if name == 'no-overlap':
        T = max(t.type_index() for t in types)
        S = max(t.num_states() for t in types)
        return lambda o: (
            o.type_index(),
            T + 1 + o.state_index,
            T + S + 2 + o.color.value,
        )

    if name == 'compact':
        sorted_types = sorted(types, key=lambda t: t.type_index())
        sorted_colors = sorted(colors, key=lambda c: c.value)
        n = 0
        type_map, status_map, color_map = {}, {}, {}
        for t in sorted_types:
            type_map[t] = n
            n += 1
        for t in sorted_types:
            for j in range(t.num_states()):
                status_map[t, j] = n
                n += 1
        for c in sorted_colors:
            color_map[c] = n
            n += 1
        return lambda o: (
            type_map[type(o)],
            status_map[type(o), o.state_index],
            color_map[o.color],
        )

    raise ValueError(name)


def ref_upper_bound(name, types, colors):
    T = max(t.type_index() for t in types)
    S = max(t.num_states() for t in types)
    C = max(c.value for c in colors)
    if name == 'default':
        return (T, S, C)
    if name == 'no-overlap':
        return (T, T + S + 1, T + S + C + 2)
    if name == 'compact':
        n_types = len(types)
        n_status = sum(t.num_states() for t in types)
        n_colors = len(colors)
        return (
            n_types - 1,
            n_types + n_status - 1,
            n_types + n_status + n_colors - 1,
        )
    raise ValueError(name)


def all_objects(types, colors):
    """exhaustively all objects of a space (Box with one fixed content)"""
    objects = []
    for t in sorted(types, key=lambda t: t.type_index()):
        if t in (NoneGridObject, Hidden, Floor, Wall, MovingObstacle):
            objects.append(t())
        elif t is Door:
            objects.extend(
                Door(s, c)
                for s in Door.Status
                for c in sorted(colors, key=lambda c: c.value)
            )
        elif t is Box:
            objects.append(Box(Floor()))
        else:
            objects.extend(
                t(c) for c in sorted(colors, key=lambda c: c.value)
            )
    return objects


def rep_equal(a, b):
    return a.keys() == b.keys() and all(
        a[k].shape == b[k].shape and np.array_equal(a[k], b[k]) for k in a
    )


def clone_object(o):
    if isinstance(o, Door):
        return Door(o.state, o.color)
    if isinstance(o, Box):
        return Box(clone_object(o.content))
    if isinstance(o, (Exit, Key, Telepod, Beacon)):
        return type(o)(o.color)
    return type(o)()


def clone_grid(grid):
    return Grid([[clone_object(o) for o in row] for row in grid.objects])


def clone_agent(agent):
    return Agent(
        Position(agent.position.y, agent.position.x),
        agent.orientation,
        clone_object(agent.grid_object),
    )


# ----------------------------------------------------------------------------
# per-object checks: exhaustive over the objects of a space
# ----------------------------------------------------------------------------


def check_objects(name, item_representation, item_space, types, colors, make):
    """`make(obj)` wraps a held object in a state/observation"""
    encoder = ref_encoder(name, types, colors)
    objects = all_objects(types, colors)
    codes = []
    for o in objects:
        code = item_representation.convert(make(o))
        check(code.shape == (3,), name, o, code.shape)
        check(np.issubdtype(code.dtype, np.integer), name, o, code.dtype)
        check(tuple(code.tolist()) == encoder(o), name, o, code, encoder(o))
        check(item_space.contains(code), name, o, 'not in space', code)
        # repeated calls: same values, fresh arrays
        code[:] = -7
        again = item_representation.convert(make(o))
        check(tuple(again.tolist()) == encoder(o), name, o, 'repeat', again)
        codes.append(encoder(o))

    # lossless on objects: equal encodings iff equal objects
    for (o1, c1), (o2, c2) in itertools.combinations(zip(objects, codes), 2):
        check((o1 == o2) == (c1 == c2), name, o1, o2, c1, c2)

    upper = tuple(item_space.upper_bound.tolist())
    lower = tuple(item_space.lower_bound.tolist())
    check(upper == ref_upper_bound(name, types, colors), name, upper)
    check(lower == (0, 0, 0), name, lower)

    channels = [set(c[i] for c in codes) for i in range(3)]
    if name in ('no-overlap', 'compact'):
        # pairwise disjoint value ranges
        for i, j in ((0, 1), (0, 2), (1, 2)):
            check(not channels[i] & channels[j], name, 'overlap', i, j)
        check(max(channels[0]) < min(channels[1]), name, 'order 0 1')
        check(max(channels[1]) < min(channels[2]), name, 'order 1 2')
        # the ranges advertised by the space are disjoint too
        check(upper[0] < min(channels[1]), name, 'type range', upper)
        check(upper[1] < min(channels[2]), name, 'status range', upper)
        check(max(channels[2]) <= upper[2], name, 'color range', upper)
    if name == 'compact':
        # no gaps: consecutive from zero (colors other than NONE are only
        # used when the space has a type which can be colored)
        used = channels[0] | channels[1] | channels[2]
        colorable = {Exit, Door, Key, Telepod, Beacon} & set(types)
        n_used = upper[2] + 1 if colorable else upper[1] + 2
        check(used == set(range(n_used)), name, 'gaps', sorted(used))


# ----------------------------------------------------------------------------
# whole state / observation checks
# ----------------------------------------------------------------------------


def check_arrays(name, representation, thing, types, colors, is_state):
    encoder = ref_encoder(name, types, colors)
    arrays = representation.convert(thing)
    expected_keys = {'grid', 'agent_id_grid', 'item'}
    if is_state:
        expected_keys.add('agent')
    check(set(arrays) == expected_keys, name, set(arrays))

    height, width = thing.grid.shape.height, thing.grid.shape.width
    grid = arrays['grid']
    check(grid.shape == (height, width, 3), name, grid.shape)
    check(np.issubdtype(grid.dtype, np.integer), name, grid.dtype)
    for y in range(height):
        for x in range(width):
            check(
                tuple(grid[y, x].tolist()) == encoder(thing.grid[y, x]),
                name,
                (y, x),
                grid[y, x],
            )

    marker = arrays['agent_id_grid']
    check(marker.shape == (height, width), name, marker.shape)
    for y in range(height):
        for x in range(width):
            expected = int((y, x) == thing.agent.position.yx)
            check(marker[y, x] == expected, name, 'marker', (y, x))

    check(
        tuple(arrays['item'].tolist()) == encoder(thing.agent.grid_object),
        name,
        'item',
    )

    if is_state:
        agent = arrays['agent']
        expected = np.zeros(6)
        expected[0] = (2 * thing.agent.position.y - height + 1) / (height - 1)
        expected[1] = (2 * thing.agent.position.x - width + 1) / (width - 1)
        expected[2 + thing.agent.orientation.value] = 1
        check(np.array_equal(agent, expected), name, 'agent', agent)

    space = representation.space
    check(set(space) == expected_keys, name, set(space))
    for key in arrays:
        check(space[key].contains(arrays[key]), name, key, 'not in space')
    return arrays


def random_things(rng, shape, types, colors, is_state, n):
    """member states / observations, with near-duplicates and exact copies"""
    cell_types = set(types) - {NoneGridObject}
    if is_state:
        cell_types -= {Hidden}
    item_types = set(types) - {Hidden}
    cell_objects = all_objects(cell_types, colors)
    item_objects = all_objects(item_types, colors)
    make = State if is_state else Observation
    orientations = list(Orientation) if is_state else [Orientation.F]

    height, width = shape.height, shape.width
    corners = [
        (0, 0),
        (0, width - 1),
        (height - 1, 0),
        (height - 1, width - 1),
        (0, width // 2),
        (height - 1, width // 2),
        (height // 2, 0),
        (height // 2, width - 1),
    ]

    things = []
    for i in range(n):
        grid = Grid(
            [
                [clone_object(rng.choice(cell_objects)) for _ in range(width)]
                for _ in range(height)
            ]
        )
        yx = (
            corners[i % len(corners)]
            if i % 2 == 0
            else (rng.randrange(height), rng.randrange(width))
        )
        agent = Agent(
            Position(*yx),
            orientations[i % len(orientations)],
            clone_object(rng.choice(item_objects)),
        )
        thing = make(grid, agent)
        things.append(thing)

        # exact copy
        things.append(make(clone_grid(grid), clone_agent(agent)))

        # one cell changed
        other = clone_grid(grid)
        y, x = rng.randrange(height), rng.randrange(width)
        other[y, x] = clone_object(rng.choice(cell_objects))
        things.append(make(other, clone_agent(agent)))

        # agent moved
        other = clone_agent(agent)
        other.position = Position(rng.randrange(height), rng.randrange(width))
        things.append(make(clone_grid(grid), other))

        # item changed
        other = clone_agent(agent)
        other.grid_object = clone_object(rng.choice(item_objects))
        things.append(make(clone_grid(grid), other))

        if is_state:
            other = clone_agent(agent)
            other.orientation = rng.choice(orientations)
            things.append(make(clone_grid(grid), other))

        # two cells swapped (positional)
        other = clone_grid(grid)
        p = Position(rng.randrange(height), rng.randrange(width))
        q = Position(rng.randrange(height), rng.randrange(width))
        other.swap(p, q)
        things.append(make(other, clone_agent(agent)))

    return things


def check_space(shape, object_types, colors, is_state, seed):
    object_types = list(object_types)
    colors = list(colors)
    if is_state:
        space = StateSpace(shape, object_types, colors)
        make_representation = make_state_representation
        types = set(object_types) | {NoneGridObject}
    else:
        space = ObservationSpace(shape, object_types, colors)
        make_representation = make_observation_representation
        types = set(object_types) | {NoneGridObject, Hidden}
    all_colors = set(colors) | {Color.NONE}

    rng = random.Random(seed)
    things = random_things(rng, shape, types, all_colors, is_state, 6)
    for thing in things:
        check(space.contains(thing), 'generated non-member', thing)

    # built in a batch and used interleaved: several representations in one
    # process must not influence one another
    representations = {
        name: make_representation(name, space) for name in NAMES
    }

    make = State if is_state else Observation

    def holding(o):
        return make(
            Grid.from_shape((shape.height, shape.width)),
            Agent(Position(0, 0), Orientation.F, o),
        )

    for name in NAMES:
        representation = representations[name]
        item = representation.representations['item']
        # objects that can be held and objects that can be in a cell share the
        # same encoder;  the held ones are checked through `item`, the others
        # through the grid-object representation directly
        check_objects(
            name,
            item,
            item.space,
            types,
            all_colors,
            holding,
        )

        class Direct:
            def __init__(self, r):
                self.r = r

            def convert(self, o):
                return self.r.convert(o)

        check_objects(
            name,
            Direct(item.grid_object_representation),
            item.grid_object_representation.space,
            types,
            all_colors,
            lambda o: o,
        )

    all_arrays = {name: [] for name in NAMES}
    for thing in things:
        for name in NAMES:  # interleaved on purpose
            all_arrays[name].append(
                check_arrays(
                    name,
                    representations[name],
                    thing,
                    types,
                    all_colors,
                    is_state,
                )
            )

    # lossless: equal representations iff equal, and equal ones hash alike
    n_equal = 0
    for i, j in itertools.combinations(range(len(things)), 2):
        equal = things[i] == things[j]
        n_equal += equal
        for name in NAMES:
            same = rep_equal(all_arrays[name][i], all_arrays[name][j])
            check(same == equal, name, 'lossless', things[i], things[j])
        if equal:
            check(hash(things[i]) == hash(things[j]), 'hash', things[i])
    check(n_equal >= 6, 'too few equal pairs', n_equal)

    # a second, independently built representation gives the same arrays
    for name in NAMES:
        fresh = make_representation(name, space)
        for thing, arrays in zip(things, all_arrays[name]):
            check(rep_equal(fresh.convert(thing), arrays), name, 'fresh')


# ----------------------------------------------------------------------------
# hard-coded expectations
# ----------------------------------------------------------------------------


def check_hard_coded():
    # registration order is part of the public encoding
    order = [
        NoneGridObject,
        Hidden,
        Floor,
        Wall,
        Exit,
        Door,
        Key,
        MovingObstacle,
        Box,
        Telepod,
        Beacon,
    ]
    check([t.type_index() for t in order] == list(range(11)), 'type indices')

    space = StateSpace(
        Shape(3, 4), [Floor, Wall, Door, Key], [Color.RED, Color.BLUE]
    )
    door = Door(Door.Status.LOCKED, Color.BLUE)
    key = Key(Color.RED)
    grid = Grid(
        [
            [Wall(), Floor(), door, Floor()],
            [Floor(), Floor(), Floor(), key],
            [Wall(), Wall(), Floor(), Floor()],
        ]
    )
    state = State(grid, Agent(Position(2, 3), Orientation.L, Key(Color.BLUE)))

    expected = {
        # name: (door, key, none, wall, held key, upper bound)
        'default': (
            [5, 2, 3],
            [6, 0, 1],
            [0, 0, 0],
            [3, 0, 0],
            [6, 0, 3],
            [6, 3, 3],
        ),
        'no-overlap': (
            [5, 9, 14],
            [6, 7, 12],
            [0, 7, 11],
            [3, 7, 11],
            [6, 7, 14],
            [6, 10, 14],
        ),
        'compact': (
            [3, 10, 14],
            [4, 11, 13],
            [0, 5, 12],
            [2, 7, 12],
            [4, 11, 14],
            [4, 11, 14],
        ),
    }
    for name, (e_door, e_key, e_none, e_wall, e_item, e_upper) in expected.items():
        representation = make_state_representation(name, space)
        arrays = representation.convert(state)
        check(arrays['grid'][0, 2].tolist() == e_door, name, 'door')
        check(arrays['grid'][1, 3].tolist() == e_key, name, 'key')
        check(arrays['grid'][0, 0].tolist() == e_wall, name, 'wall')
        check(arrays['grid'][2, 1].tolist() == e_wall, name, 'wall')
        check(arrays['item'].tolist() == e_item, name, 'item')
        check(
            arrays['agent_id_grid'].tolist()
            == [[0, 0, 0, 0], [0, 0, 0, 0], [0, 0, 0, 1]],
            name,
            'marker',
        )
        check(
            arrays['agent'].tolist() == [1.0, 1.0, 0.0, 0.0, 1.0, 0.0],
            name,
            'agent',
        )
        gor = representation.representations['item'].grid_object_representation
        check(gor.convert(NoneGridObject()).tolist() == e_none, name, 'none')
        check(gor.space.upper_bound.tolist() == e_upper, name, 'upper')
        check(
            representation.space['grid'].upper_bound.tolist()
            == [[e_upper] * 4] * 3,
            name,
            'grid upper',
        )

    # observations add Hidden:  the same objects get different no-overlap and
    # compact codes, default ones are unchanged
    space = ObservationSpace(
        Shape(2, 3), [Floor, Wall, Door, Key], [Color.RED, Color.BLUE]
    )
    observation = Observation(
        Grid([[Hidden(), door, Wall()], [Floor(), Floor(), key]]),
        Agent(Position(1, 1), Orientation.F),
    )
    expected = {
        'default': ([1, 0, 0], [5, 2, 3], [6, 0, 1], [0, 0, 0]),
        'no-overlap': ([1, 7, 11], [5, 9, 14], [6, 7, 12], [0, 7, 11]),
        'compact': ([1, 7, 14], [4, 12, 16], [5, 13, 15], [0, 6, 14]),
    }
    for name, (e_hidden, e_door, e_key, e_item) in expected.items():
        arrays = make_observation_representation(name, space).convert(
            observation
        )
        check(arrays['grid'][0, 0].tolist() == e_hidden, name, 'o hidden')
        check(arrays['grid'][0, 1].tolist() == e_door, name, 'o door')
        check(arrays['grid'][1, 2].tolist() == e_key, name, 'o key')
        check(arrays['item'].tolist() == e_item, name, 'o item')
        check(
            arrays['agent_id_grid'].tolist() == [[0, 0, 0], [0, 1, 0]],
            name,
            'o marker',
        )


# ----------------------------------------------------------------------------
# the module-level no-overlap functions, called directly
# ----------------------------------------------------------------------------


def check_no_overlap_functions():
    convert = R.no_overlap_grid_object_representation_convert
    make_space = R.no_overlap_grid_object_representation_space
    has_offsets = 'offsets' in inspect.signature(convert).parameters

    type_sets = [
        {NoneGridObject},
        {NoneGridObject, Hidden},
        {NoneGridObject, Floor},
        {NoneGridObject, Door},
        {NoneGridObject, Hidden, Floor, Wall, Exit},
        {NoneGridObject, Hidden, Door, Key, Beacon},
        {NoneGridObject, Floor, Wall, Exit, Door, Key, MovingObstacle, Telepod, Beacon},
        {NoneGridObject, Hidden, Floor, Wall, Exit, Door, Key, MovingObstacle, Box, Telepod, Beacon},
    ]
    color_sets = [
        {Color.NONE},
        {Color.NONE, Color.YELLOW},
        {Color.NONE, Color.RED, Color.GREEN},
        set(Color),
    ]
    for types, colors in itertools.product(type_sets, color_sets):
        encoder = ref_encoder('no-overlap', types, colors)
        space = make_space(types, colors)
        check(
            tuple(space.upper_bound.tolist())
            == ref_upper_bound('no-overlap', types, colors),
            'no-overlap space',
            types,
            colors,
        )
        check(space.lower_bound.tolist() == [0, 0, 0], 'no-overlap lower')
        check(
            np.issubdtype(space.upper_bound.dtype, np.integer),
            'no-overlap upper dtype',
        )
        for o in all_objects(types, colors):
            code = convert(types, colors, o)
            check(tuple(code.tolist()) == encoder(o), 'direct', o, code)
            check(code.dtype == np.array([0]).dtype, 'direct dtype', code.dtype)
            check(space.contains(code), 'direct contains', o)
            # keyword spelling of the three original parameters
            code = convert(
                grid_object_types=types,
                grid_object_colors=colors,
                grid_object=o,
            )
            check(tuple(code.tolist()) == encoder(o), 'direct kw', o, code)
            if has_offsets:
                offsets = R.no_overlap_grid_object_representation_offsets(types)
                code = convert(types, colors, o, offsets=offsets)
                check(tuple(code.tolist()) == encoder(o), 'offsets', o, code)
                code = convert(types, colors, o, offsets=None)
                check(tuple(code.tolist()) == encoder(o), 'offsets none', o)

    # the classes:  two live representations of different spaces
    small = StateSpace(Shape(2, 2), [Floor], [])
    large = StateSpace(Shape(2, 2), [Floor, Door, Beacon], list(Color))
    r_small = NoOverlapGridObjectStateRepresentation(small)
    r_large = NoOverlapGridObjectStateRepresentation(large)
    o_small = NoOverlapGridObjectObservationRepresentation(
        ObservationSpace(Shape(2, 3), [Floor], [])
    )
    e_small = ref_encoder('no-overlap', {NoneGridObject, Floor}, {Color.NONE})
    e_large = ref_encoder(
        'no-overlap', {NoneGridObject, Floor, Door, Beacon}, set(Color)
    )
    e_obs = ref_encoder(
        'no-overlap', {NoneGridObject, Hidden, Floor}, {Color.NONE}
    )
    for _ in range(3):
        for o in (Floor(), NoneGridObject()):
            check(tuple(r_small.convert(o).tolist()) == e_small(o), 'small', o)
            check(tuple(r_large.convert(o).tolist()) == e_large(o), 'large', o)
            check(tuple(o_small.convert(o).tolist()) == e_obs(o), 'obs', o)
    check(r_small.space.upper_bound.tolist() == [2, 4, 5], 'small upper')
    check(r_large.space.upper_bound.tolist() == [10, 14, 19], 'large upper')
    check(o_small.space.upper_bound.tolist() == [2, 4, 5], 'obs upper')

    # empty type set: the documented failure of max() on an empty sequence
    for call in (
        lambda: make_space(set(), {Color.NONE}),
        lambda: convert(set(), {Color.NONE}, Floor()),
    ):
        try:
            call()
        except ValueError:
            pass
        else:
            check(False, 'empty type set accepted')

    # spaces which cannot be represented as states are still refused
    try:
        make_state_representation(
            'no-overlap', StateSpace(Shape(2, 2), [Floor, Box], [])
        )
    except ValueError:
        pass
    else:
        check(False, 'Box accepted in state representation')


# ----------------------------------------------------------------------------
# states and observations of a real environment
# ----------------------------------------------------------------------------


def check_environment():
    object_types = [Floor, Wall, Exit, Door, Key]
    colors = [Color.YELLOW]
    types_s = set(object_types) | {NoneGridObject}
    types_o = types_s | {Hidden}
    all_colors = {Color.NONE, Color.YELLOW}

    for shape, view in (
        (Shape(5, 7), Shape(3, 5)),
        (Shape(7, 5), Shape(6, 3)),
        (Shape(6, 6), Shape(2, 7)),
    ):
        state_space = StateSpace(shape, object_types, colors)
        observation_space = ObservationSpace(view, object_types, colors)
        s_reps = {n: make_state_representation(n, state_space) for n in NAMES}
        o_reps = {
            n: make_observation_representation(n, observation_space)
            for n in NAMES
        }

        states, observations = [], []
        for seed in (0, 1, 2, 0, 1):  # re-seeding gives equal states
            state = reset_functions.keydoor(shape, rng=rnd.default_rng(seed))
            for orientation in Orientation:
                state = State(
                    clone_grid(state.grid),
                    Agent(
                        state.agent.position,
                        orientation,
                        clone_object(state.agent.grid_object),
                    ),
                )
                check(state_space.contains(state), 'env state')
                states.append(state)
                for function in (
                    observation_functions.fully_transparent,
                    observation_functions.partially_occluded,
                ):
                    observation = function(state, area=observation_space.area)
                    check(
                        observation_space.contains(observation), 'env obs'
                    )
                    observations.append(observation)

        for things, reps, types, is_state in (
            (states, s_reps, types_s, True),
            (observations, o_reps, types_o, False),
        ):
            arrays = {
                n: [
                    check_arrays(n, reps[n], t, types, all_colors, is_state)
                    for t in things
                ]
                for n in NAMES
            }
            n_equal = 0
            for i, j in itertools.combinations(range(len(things)), 2):
                equal = things[i] == things[j]
                n_equal += equal
                for n in NAMES:
                    same = rep_equal(arrays[n][i], arrays[n][j])
                    check(same == equal, n, 'env lossless', i, j)
                if equal:
                    check(hash(things[i]) == hash(things[j]), 'env hash')
            check(n_equal > 0, 'no equal pairs in env')


def main():
    check_hard_coded()
    check_no_overlap_functions()

    representable = [
        [Floor],
        [Floor, Wall],
        [Floor, Wall, Exit],
        [Wall, Door],
        [Floor, Key, Door],
        [Floor, Wall, Exit, MovingObstacle],
        [Floor, Telepod, Beacon],
        [Floor, Wall, Exit, Door, Key, MovingObstacle, Telepod, Beacon],
    ]
    color_sets = [
        [],
        [Color.NONE],
        [Color.YELLOW],
        [Color.RED, Color.BLUE],
        [Color.RED, Color.GREEN, Color.BLUE, Color.YELLOW],
    ]
    state_shapes = [Shape(2, 2), Shape(2, 5), Shape(4, 3), Shape(3, 3)]
    observation_shapes = [Shape(1, 1), Shape(1, 3), Shape(4, 1), Shape(2, 5), Shape(3, 3)]

    seed = 0
    for i, (object_types, colors) in enumerate(
        itertools.product(representable, color_sets)
    ):
        seed += 1
        check_space(
            state_shapes[i % len(state_shapes)],
            object_types,
            colors,
            True,
            seed,
        )
        check_space(
            observation_shapes[i % len(observation_shapes)],
            object_types,
            colors,
            False,
            seed,
        )
    # observation spaces may contain Box
    check_space(
        Shape(2, 3), [Floor, Box, Door], [Color.GREEN], False, 1234
    )

    check_environment()
    print(f'ok ({CHECKS} checks)')


if __name__ == '__main__':
    main()
