"""Check program for refactoring B (reward helpers / GridWorld state checks).

Run as:  cd /tmp/wt5-C03 && /venv/bin/python -W ignore _seed/B/demo.py

It contains an INDEPENDENT re-implementation (on plain tuples) of the
deterministic transition functions, of the distance based reward functions
(getting_closer, getting_closer_shortest_path with its own breadth-first
search, proportional_to_distance), of reach_exit and living_reward, and of a
termination composition, and compares GridWorld.functional_step and the
registered reward functions against it over a large family of states x actions
x compositions (including states for which the reward is undefined and a
ValueError is the documented outcome).  On top of that it asserts property C03:

 * functional step / reward / termination / observation never modify the
   states passed to them,
 * next state and input state share no mutable component (static id check and
   dynamic "mutate one, look at the other" check, in both directions),
 * answers are history-independent: second pass in a different order on used
   and on fresh environments, i.e. with different histories of the lru_cache
   behind getting_closer_shortest_path,
 * copies of states are equal to / hash like their originals,
 * the debug-mode state-space checks of GridWorld raise exactly as before.
"""
import copy
import itertools
import math
import os
import random
import sys

sys.path.insert(0, os.getcwd())

from gym_gridverse.action import Action  # noqa: E402
from gym_gridverse.agent import Agent  # noqa: E402
from gym_gridverse.envs.gridworld import GridWorld  # noqa: E402
from gym_gridverse.envs import observation_functions as observation_fs  # noqa: E402
from gym_gridverse.envs import reward_functions as reward_fs  # noqa: E402
from gym_gridverse.envs import terminating_functions as terminating_fs  # noqa: E402
from gym_gridverse.envs import transition_functions as transition_fs  # noqa: E402
from gym_gridverse.debugging import reset_gv_debug  # noqa: E402
from gym_gridverse.geometry import (  # noqa: E402
    Area,
    Orientation,
    Position,
    Shape,
    distance_function_factory,
)
from gym_gridverse.grid import Grid  # noqa: E402
from gym_gridverse.grid_object import (  # noqa: E402
    Beacon,
    Box,
    Color,
    Door,
    Exit,
    Floor,
    Key,
    MovingObstacle,
    NoneGridObject,
    Telepod,
    Wall,
    grid_object_registry,
)
from gym_gridverse.spaces import ActionSpace, ObservationSpace, StateSpace  # noqa: E402
from gym_gridverse.state import State  # noqa: E402
from gym_gridverse.utils.fast_copy import fast_copy  # noqa: E402

# --------------------------------------------------------------------------
# tuple encoding of grid objects / states (independent of the library's __eq__)
# --------------------------------------------------------------------------

FLOOR = ('Floor',)
WALL = ('Wall',)
NONE = ('None',)
OBSTACLE = ('MovingObstacle',)


def build(t):
    """tuple -> fresh library grid object"""
    name = t[0]
    if name == 'Floor':
        return Floor()
    if name == 'Wall':
        return Wall()
    if name == 'None':
        return NoneGridObject()
    if name == 'MovingObstacle':
        return MovingObstacle()
    if name == 'Exit':
        return Exit(Color[t[1]])
    if name == 'Door':
        return Door(Door.Status[t[1]], Color[t[2]])
    if name == 'Key':
        return Key(Color[t[1]])
    if name == 'Telepod':
        return Telepod(Color[t[1]])
    if name == 'Beacon':
        return Beacon(Color[t[1]])
    if name == 'Box':
        return Box(build(t[1]))
    raise AssertionError(t)


def enc(obj):
    """library grid object -> tuple (reads raw attributes only)"""
    name = type(obj).__name__
    if name in ('Floor', 'Wall', 'MovingObstacle', 'Hidden'):
        return (name,)
    if name == 'NoneGridObject':
        return NONE
    if name == 'Exit':
        return ('Exit', obj.color.name)
    if name == 'Door':
        return ('Door', obj.state.name, obj.color.name)
    if name in ('Key', 'Telepod', 'Beacon'):
        return (name, obj.color.name)
    if name == 'Box':
        return ('Box', enc(obj.content))
    raise AssertionError(name)


ORIENTATIONS = [Orientation.F, Orientation.R, Orientation.B, Orientation.L]
# index: 0 = up (F), 1 = right (R), 2 = down (B), 3 = left (L)
DELTAS = [(-1, 0), (0, 1), (1, 0), (0, -1)]


def build_state(ms):
    grid_t, pos, ori, held = ms
    grid = Grid([[build(t) for t in row] for row in grid_t])
    agent = Agent(Position(pos[0], pos[1]), ORIENTATIONS[ori], build(held))
    return State(grid, agent)


def enc_state(state):
    grid_t = tuple(
        tuple(enc(obj) for obj in row) for row in state.grid.objects
    )
    assert len(state.grid.objects) == state.grid.shape.height
    assert all(len(row) == state.grid.shape.width for row in state.grid.objects)
    pos = (int(state.agent.position.y), int(state.agent.position.x))
    ori = ORIENTATIONS.index(state.agent.orientation)
    return (grid_t, pos, ori, enc(state.agent.grid_object))


# --------------------------------------------------------------------------
# independent model of the dynamics, rewards, termination
# --------------------------------------------------------------------------


def blocks_movement(t):
    if t[0] in ('Wall', 'Box'):
        return True
    if t[0] == 'Door':
        return t[1] != 'OPEN'
    return False


def inside(grid, p):
    return 0 <= p[0] < len(grid) and 0 <= p[1] < len(grid[0])


MOVE_OFFSET = {
    Action.MOVE_FORWARD: 0,
    Action.MOVE_RIGHT: 1,
    Action.MOVE_BACKWARD: 2,
    Action.MOVE_LEFT: 3,
}


def tentative_position(pos, ori, action):
    if action not in MOVE_OFFSET:
        return pos
    dy, dx = DELTAS[(ori + MOVE_OFFSET[action]) % 4]
    return (pos[0] + dy, pos[1] + dx)


def front_position(pos, ori):
    dy, dx = DELTAS[ori]
    return (pos[0] + dy, pos[1] + dx)


class M:
    """mutable model state"""

    def __init__(self, ms):
        grid_t, pos, ori, held = ms
        self.grid = [list(row) for row in grid_t]
        self.pos = pos
        self.ori = ori
        self.held = held

    def freeze(self):
        return (
            tuple(tuple(row) for row in self.grid),
            self.pos,
            self.ori,
            self.held,
        )


def m_move_agent(m, action):
    if action not in MOVE_OFFSET:
        return
    p = tentative_position(m.pos, m.ori, action)
    if inside(m.grid, p) and not blocks_movement(m.grid[p[0]][p[1]]):
        m.pos = p


def m_turn_agent(m, action):
    if action is Action.TURN_LEFT:
        m.ori = (m.ori - 1) % 4
    elif action is Action.TURN_RIGHT:
        m.ori = (m.ori + 1) % 4


def m_pickndrop(m, action):
    if action is not Action.PICK_N_DROP:
        return
    p = front_position(m.pos, m.ori)
    if not inside(m.grid, p):
        return
    front = m.grid[p[0]][p[1]]
    if front[0] == 'Key':  # only keys are holdable
        m.grid[p[0]][p[1]] = FLOOR if m.held == NONE else m.held
        m.held = front
    elif front[0] == 'Floor':
        if m.held != NONE:
            m.grid[p[0]][p[1]] = m.held
            m.held = NONE
        # else: Floor is replaced by a Floor, agent keeps holding nothing


def m_actuate_door(m, action):
    if action is not Action.ACTUATE:
        return
    p = front_position(m.pos, m.ori)
    if not inside(m.grid, p):
        return
    front = m.grid[p[0]][p[1]]
    if front[0] != 'Door':
        return
    _, status, color = front
    if status == 'CLOSED':
        m.grid[p[0]][p[1]] = ('Door', 'OPEN', color)
    elif status == 'LOCKED' and m.held == ('Key', color):
        m.grid[p[0]][p[1]] = ('Door', 'OPEN', color)


def m_actuate_box(m, action):
    if action is not Action.ACTUATE:
        return
    p = front_position(m.pos, m.ori)
    if not inside(m.grid, p):
        return
    front = m.grid[p[0]][p[1]]
    if front[0] == 'Box':
        m.grid[p[0]][p[1]] = front[1]


MODEL_FS = {
    'move_agent': m_move_agent,
    'turn_agent': m_turn_agent,
    'pickndrop': m_pickndrop,
    'actuate_door': m_actuate_door,
    'actuate_box': m_actuate_box,
}

CHAINS = [
    # order used by the shipped keydoor environments
    ['move_agent', 'turn_agent', 'actuate_door', 'pickndrop'],
    ['actuate_box', 'actuate_door', 'pickndrop', 'move_agent', 'turn_agent'],
    ['move_agent'],
]


def exit_positions(grid):
    return [
        (y, x)
        for y, row in enumerate(grid)
        for x, t in enumerate(row)
        if t[0] == 'Exit'
    ]


def manhattan(p, q):
    return abs(p[0] - q[0]) + abs(p[1] - q[1])


def euclidean(p, q):
    return math.sqrt((p[0] - q[0]) ** 2 + (p[1] - q[1]) ** 2)


def bfs_distances(grid, source):
    """distance (in moves) from source to every cell, inf if unreachable"""
    h, w = len(grid), len(grid[0])
    dist = [[float('inf')] * w for _ in range(h)]
    dist[source[0]][source[1]] = 0.0
    level = [source]
    d = 0.0
    while level:
        d += 1.0
        following = []
        for y, x in level:
            for ny, nx in ((y - 1, x), (y + 1, x), (y, x - 1), (y, x + 1)):
                if (
                    0 <= ny < h
                    and 0 <= nx < w
                    and dist[ny][nx] == float('inf')
                    and not blocks_movement(grid[ny][nx])
                ):
                    dist[ny][nx] = d
                    following.append((ny, nx))
        level = following
    return dist


def closer_further(prev, nxt, closer, further):
    if nxt < prev:
        return closer
    if nxt > prev:
        return further
    return 0.0


class Undefined(Exception):
    """the model's counterpart of the ValueError raised by more_itertools.one"""


def unique_exit(grid):
    exits = exit_positions(grid)
    if len(exits) != 1:
        raise Undefined
    return exits[0]


def m_getting_closer(ms, ns, distance, closer, further):
    prev = distance(ms[1], unique_exit(ms[0]))
    nxt = distance(ns[1], unique_exit(ns[0]))
    return closer_further(prev, nxt, closer, further)


def m_getting_closer_shortest_path(ms, ns, closer, further):
    e = unique_exit(ms[0])
    prev = bfs_distances(ms[0], e)[ms[1][0]][ms[1][1]]
    e = unique_exit(ns[0])
    nxt = bfs_distances(ns[0], e)[ns[1][0]][ns[1][1]]
    return closer_further(prev, nxt, closer, further)


def m_proportional(ns, distance, per_unit):
    return per_unit * distance(ns[1], unique_exit(ns[0]))


def model_reward(ms, action, ns):
    ngrid, npos = ns[0], ns[1]
    rewards = [
        m_getting_closer(ms, ns, manhattan, 0.2, -0.2),
        m_getting_closer(ms, ns, euclidean, 0.3, -0.7),
        m_getting_closer_shortest_path(ms, ns, 1.5, -2.5),
        m_proportional(ns, manhattan, -0.1),
        m_proportional(ns, euclidean, -0.01),
        5.0 if ngrid[npos[0]][npos[1]][0] == 'Exit' else 0.0,
        -0.05,
    ]
    return sum(rewards)


def model_terminal(ms, action, ns):
    grid, pos, ori, held = ms
    ngrid, npos, nori, nheld = ns
    on_exit = ngrid[npos[0]][npos[1]][0] == 'Exit'
    p = tentative_position(pos, ori, action)
    bump = inside(grid, p) and grid[p[0]][p[1]] == WALL
    return bool(on_exit or bump)


def model_transition(ms, action, chain):
    m = M(ms)
    for name in chain:
        MODEL_FS[name](m, action)
    return m.freeze()


def model_step(ms, action, chain):
    ns = model_transition(ms, action, chain)
    try:
        reward = model_reward(ms, action, ns)
    except Undefined:
        return 'ValueError'
    return ns, reward, model_terminal(ms, action, ns)


# --------------------------------------------------------------------------
# library environments
# --------------------------------------------------------------------------

ALL_TYPES = [
    t for t in grid_object_registry if t.__name__ not in ('NoneGridObject', 'Hidden')
]
ALL_COLORS = list(Color)
OBS_AREA = Area((-3, 0), (-2, 2))


def make_reward_function():
    return reward_fs.factory(
        'reduce_sum',
        reward_functions=[
            reward_fs.factory(
                'getting_closer',
                distance_function=distance_function_factory('manhattan'),
                object_type=Exit,
                reward_closer=0.2,
                reward_further=-0.2,
            ),
            reward_fs.factory(
                'getting_closer',
                distance_function=distance_function_factory('euclidean'),
                object_type=Exit,
                reward_closer=0.3,
                reward_further=-0.7,
            ),
            reward_fs.factory(
                'getting_closer_shortest_path',
                object_type=Exit,
                reward_closer=1.5,
                reward_further=-2.5,
            ),
            reward_fs.factory(
                'proportional_to_distance',
                distance_function=distance_function_factory('manhattan'),
                object_type=Exit,
                reward_per_unit_distance=-0.1,
            ),
            reward_fs.factory(
                'proportional_to_distance',
                distance_function=distance_function_factory('euclidean'),
                object_type=Exit,
                reward_per_unit_distance=-0.01,
            ),
            reward_fs.factory('reach_exit', reward_on=5.0, reward_off=0.0),
            reward_fs.factory('living_reward', reward=-0.05),
        ],
    )


def make_terminating_function():
    return terminating_fs.factory(
        'reduce_any',
        terminating_functions=[
            terminating_fs.factory('reach_exit'),
            terminating_fs.factory('bump_into_wall'),
        ],
    )


def make_env(
    shape,
    chain,
    observation_name='partially_occluded',
    object_types=None,
    actions=None,
    reset_state=None,
):
    transition_function = transition_fs.factory(
        'chain',
        transition_functions=[transition_fs.factory(name) for name in chain],
    )
    observation_function = observation_fs.factory(observation_name, area=OBS_AREA)

    def reset_function(*, rng=None):
        if reset_state is None:
            raise AssertionError('reset is not used here')
        return build_state(reset_state)

    return GridWorld(
        StateSpace(Shape(*shape), object_types or ALL_TYPES, ALL_COLORS),
        ActionSpace(actions or list(Action)),
        ObservationSpace(Shape(OBS_AREA.height, OBS_AREA.width), ALL_TYPES, ALL_COLORS),
        reset_function,
        transition_function,
        observation_function,
        make_reward_function(),
        make_terminating_function(),
    )


_ENVS = {}


def get_env(shape, chain_index, generation=0):
    key = (shape, chain_index, generation)
    if key not in _ENVS:
        env = make_env(shape, CHAINS[chain_index])
        env.set_seed(1234 + chain_index)
        _ENVS[key] = env
    return _ENVS[key]


# --------------------------------------------------------------------------
# alias / purity helpers
# --------------------------------------------------------------------------


def object_ids(obj, out):
    out[id(obj)] = obj
    if type(obj).__name__ == 'Box':
        object_ids(obj.content, out)


def mutable_components(state):
    """id -> object for every mutable component reachable from the state"""
    out = {}
    out[id(state.grid)] = state.grid
    out[id(state.grid.objects)] = state.grid.objects
    for row in state.grid.objects:
        out[id(row)] = row
        for obj in row:
            object_ids(obj, out)
    out[id(state.agent)] = state.agent
    out[id(state.agent.transform)] = state.agent.transform
    object_ids(state.agent.grid_object, out)
    return out


def scramble_object(obj):
    name = type(obj).__name__
    if name == 'Door':
        obj.state = {
            Door.Status.OPEN: Door.Status.LOCKED,
            Door.Status.CLOSED: Door.Status.OPEN,
            Door.Status.LOCKED: Door.Status.CLOSED,
        }[obj.state]
        obj.color = Color.GREEN if obj.color is not Color.GREEN else Color.RED
    elif name in ('Key', 'Telepod', 'Beacon', 'Exit'):
        obj.color = Color.GREEN if obj.color is not Color.GREEN else Color.RED
    elif name == 'Box':
        scramble_object(obj.content)
        obj.content = Wall()


def scramble_state(state):
    """mutate every mutable component of the state in place"""
    for row in state.grid.objects:
        for obj in row:
            scramble_object(obj)
    scramble_object(state.agent.grid_object)
    for y in range(state.grid.shape.height):
        for x in range(state.grid.shape.width):
            state.grid[y, x] = Beacon(Color.GREEN)
    state.grid.objects[0].reverse()
    state.agent.position = Position(
        state.grid.shape.height - 1 - state.agent.position.y,
        state.grid.shape.width - 1 - state.agent.position.x,
    )
    state.agent.orientation = state.agent.orientation * Orientation.R
    state.agent.grid_object = Telepod(Color.GREEN)


COUNTS = {
    'steps': 0,
    'undefined': 0,
    'direct_rewards': 0,
    'dijkstra': 0,
    'observations': 0,
    'gridworld_checks': 0,
}


def check_copy_semantics(state, ms):
    for copied in (fast_copy(state), copy.deepcopy(state), build_state(ms)):
        assert copied == state and state == copied
        assert hash(copied) == hash(state)
        assert copied.grid == state.grid and hash(copied.grid) == hash(state.grid)
        assert copied.agent == state.agent
        assert hash(copied.agent) == hash(state.agent)
        assert enc_state(copied) == ms
        assert not set(mutable_components(copied)) & set(mutable_components(state))


def check_step(env, ms, action, chain, other_envs=()):
    """one functional_step, checked against the model and against C03"""
    expected = model_step(ms, action, chain)

    state = build_state(ms)
    assert enc_state(state) == ms
    components_before = mutable_components(state)

    if expected == 'ValueError':
        # zero or several exits: the distance rewards are undefined
        for _ in range(2):
            try:
                env.functional_step(state, action)
            except ValueError:
                pass
            else:
                raise AssertionError(('expected ValueError', ms, action, chain))
            assert enc_state(state) == ms
            assert set(mutable_components(state)) == set(components_before)
        COUNTS['undefined'] += 1
        return expected

    next_state, reward, terminal = env.functional_step(state, action)
    COUNTS['steps'] += 1

    # input state untouched (same components, same contents)
    assert enc_state(state) == ms, (ms, action, chain)
    assert set(mutable_components(state)) == set(components_before)
    # functional correctness against the independent model
    got = (enc_state(next_state), reward, terminal)
    assert got[0] == expected[0], (ms, action, chain, got[0], expected[0])
    assert reward == expected[1], (ms, action, chain, reward, expected[1])
    assert terminal is expected[2] or terminal == expected[2]
    # no shared mutable component
    shared = set(components_before) & set(mutable_components(next_state))
    assert not shared, (ms, action, chain)

    # history independence: intervening calls on other environments / states
    # (these also push other layouts through the shortest-path cache)
    for other in other_envs:
        for other_action in (Action.ACTUATE, Action.MOVE_FORWARD):
            try:
                other.functional_step(build_state(expected[0]), other_action)
            except ValueError:
                pass
        other.functional_observation(build_state(ms))
    again_state, again_reward, again_terminal = env.functional_step(state, action)
    assert again_state == next_state and next_state == again_state
    assert hash(again_state) == hash(next_state)
    assert enc_state(again_state) == expected[0]
    assert again_reward == reward and again_terminal == terminal
    assert not set(mutable_components(again_state)) & set(
        mutable_components(next_state)
    )

    # dynamic alias check, direction 1: mutate next state, look at input
    scramble_state(next_state)
    assert enc_state(state) == ms
    assert enc_state(again_state) == expected[0]
    # direction 2: mutate input, look at (second) next state
    scramble_state(state)
    assert enc_state(again_state) == expected[0]

    return expected


def expect(model_thunk, library_thunk, context):
    """both give the same value, or model is Undefined and library ValueError"""
    try:
        want = model_thunk()
    except Undefined:
        try:
            library_thunk()
        except ValueError:
            return None
        raise AssertionError(('expected ValueError', context))
    got = library_thunk()
    assert got == want, (context, got, want)
    return got


def check_direct_rewards(ms, action, ns):
    """registered reward functions on arbitrary (state, next_state) pairs"""
    state, next_state = build_state(ms), build_state(ns)
    context = (ms, action, ns)
    # distinct float objects: the functions return their inputs untouched
    closer, further = float('1.25'), float('-3.5')

    for name, distance in (('manhattan', manhattan), ('euclidean', euclidean)):
        library_distance = distance_function_factory(name)
        got = expect(
            lambda: m_getting_closer(ms, ns, distance, closer, further),
            lambda: reward_fs.getting_closer(
                state,
                action,
                next_state,
                distance_function=library_distance,
                object_type=Exit,
                reward_closer=closer,
                reward_further=further,
            ),
            context,
        )
        assert got is None or got is closer or got is further or got == 0.0
        expect(
            lambda: m_proportional(ns, distance, -0.37),
            lambda: reward_fs.proportional_to_distance(
                state,
                action,
                next_state,
                distance_function=library_distance,
                object_type=Exit,
                reward_per_unit_distance=-0.37,
            ),
            context,
        )

    # defaults (manhattan, 1.0 / -1.0 / -1.0), through the registry
    expect(
        lambda: m_getting_closer(ms, ns, manhattan, 1.0, -1.0),
        lambda: reward_fs.reward_function_registry['getting_closer'](
            state, action, next_state, object_type=Exit
        ),
        context,
    )
    expect(
        lambda: m_proportional(ns, manhattan, -1.0),
        lambda: reward_fs.reward_function_registry['proportional_to_distance'](
            state, action, next_state, object_type=Exit, rng=None
        ),
        context,
    )
    for _ in range(2):
        got = expect(
            lambda: m_getting_closer_shortest_path(ms, ns, closer, further),
            lambda: reward_fs.getting_closer_shortest_path(
                state,
                action,
                next_state,
                object_type=Exit,
                reward_closer=closer,
                reward_further=further,
            ),
            context,
        )
        assert got is None or got is closer or got is further or got == 0.0
    expect(
        lambda: m_getting_closer_shortest_path(ms, ns, 1.0, -1.0),
        lambda: reward_fs.factory('getting_closer_shortest_path', object_type=Exit)(
            state, action, next_state
        ),
        context,
    )
    # a different object type (keys): usually undefined, sometimes unique
    keys = [
        (y, x)
        for y, row in enumerate(ns[0])
        for x, t in enumerate(row)
        if t[0] == 'Key'
    ]

    def model_key_distance():
        if len(keys) != 1:
            raise Undefined
        return 2.0 * manhattan(ns[1], keys[0])

    expect(
        model_key_distance,
        lambda: reward_fs.proportional_to_distance(
            state, action, next_state, object_type=Key, reward_per_unit_distance=2.0
        ),
        context,
    )

    # the reward functions are pure
    assert enc_state(state) == ms and enc_state(next_state) == ns
    COUNTS['direct_rewards'] += 1


def check_dijkstra(ms):
    """the (cached) shortest-path helper against the model's own search"""
    grid = ms[0]
    layout = tuple(tuple(not blocks_movement(t) for t in row) for row in grid)
    for source in {(0, 0), ms[1], (len(grid) - 1, len(grid[0]) - 1)}:
        want = bfs_distances(grid, source)
        for _ in range(2):
            got = reward_fs.dijkstra(layout, source)
            assert got.shape == (len(grid), len(grid[0]))
            assert got.tolist() == want, (ms, source, got.tolist(), want)
        COUNTS['dijkstra'] += 1


def check_observation(ms):
    state = build_state(ms)
    for name in ('partially_occluded', 'raytracing'):
        env = OBS_ENVS[name]
        first = env.functional_observation(state)
        assert enc_state(state) == ms
        second = env.functional_observation(state)
        assert first == second and hash(first.grid) == hash(second.grid)
        assert first.agent == second.agent
        assert first.grid is not state.grid
        assert first.grid.objects is not state.grid.objects
        for y in range(first.grid.shape.height):
            for x in range(first.grid.shape.width):
                first.grid[y, x] = Wall()
        assert enc_state(state) == ms
        assert env.functional_observation(state) == second
        COUNTS['observations'] += 1


def raises_value_error(thunk, message=None):
    try:
        thunk()
    except ValueError as error:
        if message is not None:
            assert str(error) == message, (str(error), message)
        return True
    return False


def check_gridworld_checks():
    """debug-mode checks of GridWorld: same errors, same order, same messages"""
    row = (FLOOR, ('Exit', 'NONE'), ('Box', ('Key', 'RED')), FLOOR)
    ms = ((row,), (0, 3), 3, NONE)  # agent faces the box
    shape = (1, 4)
    chain = ['actuate_box', 'move_agent']
    no_keys = [t for t in ALL_TYPES if t is not Key]
    no_boxes = [t for t in ALL_TYPES if t is not Box]
    some_actions = [Action.ACTUATE, Action.MOVE_FORWARD]
    bad_state = 'state does not satisfy state_space'
    bad_next_state = 'next_state does not satisfy state_space'
    bad_action = 'action {action} does not satisfy action-space'

    for debug in (True, False, True):
        reset_gv_debug(debug)

        # everything allowed
        env = make_env(shape, chain, reset_state=ms)
        ns, reward, terminal = env.functional_step(build_state(ms), Action.ACTUATE)
        assert enc_state(ns)[0] == ((FLOOR, ('Exit', 'NONE'), ('Key', 'RED'), FLOOR),)
        assert enc_state(env.functional_reset()) == ms
        env.reset()
        assert enc_state(env.state) == ms
        assert env.step(Action.ACTUATE) == (reward, terminal)
        assert enc_state(env.state) == enc_state(ns)

        # input state outside of the space (wrong shape / unknown type)
        for env in (
            make_env((2, 4), chain, reset_state=ms),
            make_env(shape, chain, object_types=no_boxes, reset_state=ms),
        ):
            state = build_state(ms)
            step = lambda: env.functional_step(state, Action.ACTUATE)  # noqa: E731
            assert raises_value_error(step, bad_state) is debug
            assert raises_value_error(env.functional_reset, bad_state) is debug
            assert raises_value_error(env.reset, bad_state) is debug
            assert enc_state(state) == ms
            # the state check comes before the action check
            env_few = make_env(
                shape, chain, object_types=no_boxes, actions=some_actions
            )
            step = lambda: env_few.functional_step(state, Action.TURN_LEFT)  # noqa: E731
            assert raises_value_error(step, bad_state if debug else bad_action)

        # only the next state is outside of the space (a key comes out of the box)
        env = make_env(shape, chain, object_types=no_keys, reset_state=ms)
        state = build_state(ms)
        step = lambda: env.functional_step(state, Action.ACTUATE)  # noqa: E731
        assert raises_value_error(step, bad_next_state) is debug
        assert enc_state(state) == ms
        assert enc_state(env.functional_reset()) == ms
        env.functional_step(state, Action.MOVE_FORWARD)
        assert enc_state(state) == ms

        # action outside of the action space (checked whatever the debug flag)
        env = make_env(shape, chain, actions=some_actions)
        state = build_state(ms)
        for action in Action:
            step = lambda: env.functional_step(state, action)  # noqa: E731
            assert raises_value_error(step, bad_action) is (
                action not in some_actions
            )
            assert enc_state(state) == ms
        COUNTS['gridworld_checks'] += 1

    reset_gv_debug(True)


# --------------------------------------------------------------------------
# state families
# --------------------------------------------------------------------------

KEY_COLORS = ['RED', 'BLUE', 'YELLOW']
EXIT = ('Exit', 'NONE')
CATALOG = (
    [FLOOR, FLOOR, WALL, OBSTACLE, EXIT]
    + [('Door', s, c) for s in ('OPEN', 'CLOSED', 'LOCKED') for c in KEY_COLORS[:2]]
    + [('Key', c) for c in KEY_COLORS[:2]]
    + [('Telepod', 'RED'), ('Beacon', 'BLUE')]
    + [
        ('Box', FLOOR),
        ('Box', EXIT),
        ('Box', ('Key', 'RED')),
        ('Box', ('Door', 'CLOSED', 'RED')),
        ('Box', ('Box', ('Door', 'LOCKED', 'BLUE'))),
    ]
)
NO_EXIT_CATALOG = [t for t in CATALOG if t != EXIT]
HELD = [NONE, ('Key', 'RED'), ('Key', 'BLUE'), ('Box', EXIT)]


def focused_states():
    """3x4 grids: agent at (1, 1), every object in front, exit in the corner"""
    for front, ori, held in itertools.product(CATALOG, range(4), HELD):
        grid = [[FLOOR] * 4 for _ in range(3)]
        dy, dx = DELTAS[ori]
        grid[1 + dy][1 + dx] = front
        grid[1 - dy][1 - dx] = ('Box', ('Key', 'BLUE'))
        grid[2][3] = ('Exit', 'GREEN')
        yield (tuple(tuple(r) for r in grid), (1, 1), ori, held)


def edge_states():
    """agent on every cell (walls included) of small grids, facing everywhere"""
    layouts = [
        [[EXIT]],
        [[FLOOR]],
        [[('Key', 'RED'), FLOOR, EXIT]],
        [[('Door', 'LOCKED', 'RED')], [FLOOR], [EXIT]],
        [[WALL, ('Key', 'BLUE'), EXIT], [('Door', 'CLOSED', 'BLUE'), FLOOR, ('Box', ('Key', 'RED'))]],
        [[EXIT, WALL, FLOOR], [('Door', 'CLOSED', 'RED'), WALL, FLOOR], [FLOOR, ('Door', 'LOCKED', 'BLUE'), FLOOR]],
    ]
    for layout in layouts:
        h, w = len(layout), len(layout[0])
        for y, x, ori, held in itertools.product(
            range(h), range(w), range(4), HELD[:3]
        ):
            yield (tuple(tuple(r) for r in layout), (y, x), ori, held)


def random_states(n, seed, shapes=None):
    rnd = random.Random(seed)
    for _ in range(n):
        h, w = rnd.choice(shapes) if shapes else (rnd.randint(1, 6), rnd.randint(1, 6))
        density = rnd.choice([0.3, 0.6])
        grid = [
            [
                rnd.choice(NO_EXIT_CATALOG) if rnd.random() < density else FLOOR
                for _ in range(w)
            ]
            for _ in range(h)
        ]
        # mostly exactly one exit, sometimes none / two
        for _ in range(rnd.choice([1, 1, 1, 1, 1, 1, 0, 2])):
            grid[rnd.randrange(h)][rnd.randrange(w)] = EXIT
        yield (
            tuple(tuple(r) for r in grid),
            (rnd.randrange(h), rnd.randrange(w)),
            rnd.randrange(4),
            rnd.choice(HELD),
        )


def shape_of(ms):
    return (len(ms[0]), len(ms[0][0]))


OBS_ENVS = {}


def main():
    for name in ('partially_occluded', 'raytracing'):
        OBS_ENVS[name] = make_env((3, 3), CHAINS[0], observation_name=name)
        OBS_ENVS[name].set_seed(7)

    check_gridworld_checks()

    cases = []
    for ms in itertools.chain(
        focused_states(), edge_states(), random_states(300, seed=20240504)
    ):
        for action in Action:
            cases.append((ms, action))

    # pass 1: every case on every composition
    results = {}
    for ms, action in cases:
        shape = shape_of(ms)
        for chain_index, chain in enumerate(CHAINS):
            env = get_env(shape, chain_index)
            others = [get_env(shape, (chain_index + 1) % len(CHAINS))]
            results[ms, action, chain_index] = check_step(
                env, ms, action, chain, other_envs=others
            )

    # pass 2: different order, both the "used" environments and fresh ones
    rnd = random.Random(99)
    shuffled = list(cases)
    rnd.shuffle(shuffled)
    for ms, action in shuffled[: len(shuffled) // 3]:
        shape = shape_of(ms)
        for chain_index, chain in enumerate(CHAINS):
            for generation in (0, 1):
                env = get_env(shape, chain_index, generation)
                again = check_step(env, ms, action, chain)
                assert again == results[ms, action, chain_index]

    # reward functions called directly on arbitrary pairs of states, i.e. also
    # pairs which no transition function would produce
    few_shapes = [(1, 1), (1, 4), (3, 3), (4, 5), (6, 2)]
    pool = list(random_states(400, seed=5, shapes=few_shapes))
    rnd = random.Random(6)
    by_shape = {}
    for ms in pool:
        by_shape.setdefault(shape_of(ms), []).append(ms)
    for ms in pool:
        for ns in rnd.sample(by_shape[shape_of(ms)], 3) + [ms]:
            check_direct_rewards(ms, rnd.choice(list(Action)), ns)
    for (ms, action, chain_index), result in list(results.items())[::7]:
        if result != 'ValueError':
            check_direct_rewards(ms, action, result[0])

    # copy semantics, observation purity, shortest-path helper
    seen = set()
    for ms, _ in cases:
        if ms in seen:
            continue
        seen.add(ms)
        check_copy_semantics(build_state(ms), ms)
        check_observation(ms)
        check_dijkstra(ms)

    check_gridworld_checks()
    print('demo B OK', COUNTS)


if __name__ == '__main__':
    main()
