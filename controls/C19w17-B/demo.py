"""C19 demo (change B): the ray-traced visibility functions.

`raytracing` and `stochastic_raytracing` (gym_gridverse.envs.visibility_functions)
are compared with a reference implementation embedded here, which casts the
rays with the *uncached* `compute_rays_fancy`:

* an unobstructed ray-traced view shows every cell (absolute and relative
  counts, every origin, non-square grids, single rows / columns / cells);
* with obstacles, visibility equals the reference for both counting modes and
  many thresholds; a few hard-coded expectations;
* the stochastic variant draws exactly the same sample from the same rng (and
  leaves the rng in the same state), also through the library-level rng;
* results do not depend on the order of earlier (cached) ray queries, nor on
  clearing the cache, nor on going through factories / observation functions
  (agents in corners and on borders, four headings, asymmetric view areas).

Exits 0 when everything holds.
"""
import os
import sys
import warnings

sys.path.insert(0, os.getcwd())  # run from the worktree root

import numpy as np

from gym_gridverse.agent import Agent
from gym_gridverse.envs import observation_functions as of
from gym_gridverse.envs import visibility_functions as vf
from gym_gridverse.geometry import Area, Orientation, Position
from gym_gridverse.grid import Grid
from gym_gridverse.grid_object import (
    Beacon,
    Color,
    Door,
    Exit,
    Floor,
    Hidden,
    Key,
    MovingObstacle,
    Wall,
)
from gym_gridverse.rng import make_rng, reset_gv_rng
from gym_gridverse.state import State
from gym_gridverse.utils import raytracing as rt

failures = []


def check(condition, message):
    if not condition:
        failures.append(message)
        if len(failures) <= 20:
            print('FAIL', message)


# ---------------------------------------------------------------- reference


_ref_rays = {}  # the demo's own memo of *uncached* ray computations


def ref_counts(grid, position):
    key = position, grid.area
    if key not in _ref_rays:
        _ref_rays[key] = rt.compute_rays_fancy(position, grid.area)
    rays = _ref_rays[key]
    num = np.zeros((grid.shape.height, grid.shape.width), dtype=int)
    den = np.zeros((grid.shape.height, grid.shape.width), dtype=int)
    for ray in rays:
        light = True
        for pos in ray:
            num[pos.y, pos.x] += int(light)
            den[pos.y, pos.x] += 1
            light = light and not grid[pos].blocks_vision
    return num, den


def ref_raytracing(
    grid, position, *, absolute_counts=True, threshold=1, rng=None
):
    num, den = ref_counts(grid, position)
    return num >= threshold if absolute_counts else (num / den) >= threshold


def ref_stochastic_raytracing(grid, position, *, rng):
    num, den = ref_counts(grid, position)
    probs = np.nan_to_num(num / den)
    return rng.random(probs.shape) < probs


def same(a, b):
    return (
        isinstance(a, np.ndarray)
        and a.dtype == b.dtype
        and a.shape == b.shape
        and bool((a == b).all())
    )


# ---------------------------------------------------------------- scenarios

layout_rng = np.random.default_rng(1919)


def random_grid(h, w, density):
    def cell():
        u = layout_rng.random()
        if u < density:
            return Wall()
        if u < density + 0.04:
            return Door(Door.Status.CLOSED, Color.NONE)  # blocks vision
        if u < density + 0.08:
            return Door(Door.Status.OPEN, Color.RED)  # transparent
        if u < density + 0.11:
            return Key(Color.NONE)
        if u < density + 0.13:
            return MovingObstacle()
        if u < density + 0.15:
            return Exit()
        if u < density + 0.17:
            return Beacon(Color.BLUE)
        if u < density + 0.19:
            return Hidden()  # blocks vision
        return Floor()

    return Grid([[cell() for _ in range(w)] for _ in range(h)])


SHAPES = [
    (1, 1), (1, 2), (2, 1), (1, 6), (6, 1), (2, 2), (2, 5), (5, 2),
    (3, 3), (3, 4), (4, 3), (3, 7), (7, 3), (5, 5), (4, 6), (7, 7),
]  # fmt: skip

# 1. unobstructed view shows everything
for h, w in SHAPES + [(2, 9), (9, 2), (7, 9)]:
    grid = Grid.from_shape((h, w))
    origins = list(grid.area.positions())
    if h * w > 30:  # corners, borders, centre
        origins = [
            Position(0, 0),
            Position(0, w - 1),
            Position(h - 1, 0),
            Position(h - 1, w - 1),
            Position(h - 1, w // 2),
            Position(h // 2, 0),
            Position(h // 2, w // 2),
        ]
    for origin in origins:
        tag = f'unobstructed {h}x{w} from {origin}'
        v = vf.raytracing(grid, origin)
        check(v.dtype == bool and v.shape == (h, w), f'{tag}: dtype/shape')
        check(bool(v.all()), f'{tag}: hidden cells (absolute counts)')
        v = vf.raytracing(grid, origin, absolute_counts=False, threshold=1.0)
        check(bool(v.all()), f'{tag}: hidden cells (relative counts)')
        v = vf.stochastic_raytracing(grid, origin, rng=make_rng(0))
        check(
            v.dtype == bool and v.shape == (h, w) and bool(v.all()),
            f'{tag}: hidden cells (stochastic)',
        )
        num, den = ref_counts(grid, origin)
        check(bool((den >= 1).all()), f'{tag}: a cell is crossed by no ray')
        check(bool((num == den).all()), f'{tag}: dark crossings')

# 2. hard-coded expectations (from the test-suite, plus variations)
W, F = Wall, Floor
cases = [
    (
        [
            [F(), F(), F(), F(), F()],
            [F(), W(), W(), W(), F()],
            [F(), W(), F(), W(), F()],
        ],
        Position(2, 2),
        [[0, 0, 0, 0, 0], [0, 1, 1, 1, 0], [0, 1, 1, 1, 0]],
    ),
    (
        [
            [F(), F(), F(), F(), F()],
            [F(), W(), F(), W(), F()],
            [F(), W(), F(), W(), F()],
        ],
        Position(2, 2),
        [[0, 1, 1, 1, 0], [0, 1, 1, 1, 0], [0, 1, 1, 1, 0]],
    ),
    (
        [
            [F(), F(), F(), F(), F()],
            [F(), W(), W(), W(), F()],
            [F(), F(), F(), W(), F()],
        ],
        Position(2, 2),
        [[0, 0, 0, 0, 0], [1, 1, 1, 1, 0], [1, 1, 1, 1, 0]],
    ),
    # the origin itself blocks vision: only the origin is lit
    ([[F(), W(), F()]], Position(0, 1), [[0, 1, 0]]),
    ([[W()]], Position(0, 0), [[1]]),
    # a column
    ([[F()], [W()], [F()], [F()]], Position(3, 0), [[0], [1], [1], [1]]),
]
for objects, origin, expected in cases:
    grid = Grid(objects)
    v = vf.raytracing(grid, origin)
    check(
        v.dtype == bool and bool((v == np.array(expected, dtype=bool)).all()),
        f'hard-coded case from {origin}: {v.astype(int).tolist()}',
    )

# 3. obstacles: equality with the reference, every mode
THRESHOLDS_ABS = [0, 1, 2, 3, 5, 10, 1.5, True]
THRESHOLDS_REL = [0.0, 0.1, 0.25, 0.5, 0.75, 1.0, 1, 1.01]
records = []  # (grid, origin, kwargs, expected) for the cache-order check
for h, w in SHAPES:
    for density in (0.1, 0.35):
        grid = random_grid(h, w, density)
        origins = list(grid.area.positions())
        for origin in origins[:: max(1, len(origins) // 6)] + [origins[-1]]:
            tag = f'{h}x{w} density {density} from {origin}'
            want = ref_raytracing(grid, origin)
            check(same(vf.raytracing(grid, origin), want), f'{tag}: default')
            records.append((grid, origin, {}, want))
            check(bool(want[origin.y, origin.x]), f'{tag}: origin not visible')

            for threshold in THRESHOLDS_ABS:
                kwargs = dict(absolute_counts=True, threshold=threshold)
                want = ref_raytracing(grid, origin, **kwargs)
                got = vf.raytracing(grid, origin, **kwargs)
                check(same(got, want), f'{tag}: {kwargs}')
            for threshold in THRESHOLDS_REL:
                kwargs = dict(absolute_counts=False, threshold=threshold)
                with warnings.catch_warnings():
                    warnings.simplefilter('ignore')
                    want = ref_raytracing(grid, origin, **kwargs)
                    got = vf.raytracing(grid, origin, **kwargs, rng=make_rng(3))
                check(same(got, want), f'{tag}: {kwargs}')
            records.append((grid, origin, kwargs, want))

            # stochastic: same sample, same rng state afterwards
            for seed in (0, 7):
                rng_got, rng_want = make_rng(seed), make_rng(seed)
                got = vf.stochastic_raytracing(grid, origin, rng=rng_got)
                want = ref_stochastic_raytracing(grid, origin, rng=rng_want)
                check(same(got, want), f'{tag}: stochastic seed {seed}')
                check(
                    rng_got.bit_generator.state == rng_want.bit_generator.state,
                    f'{tag}: rng state after stochastic_raytracing',
                )
                check(
                    bool((got <= ref_raytracing(grid, origin)).all()),
                    f'{tag}: stochastic view shows an unlit cell',
                )

            # library-level rng when none is given (re-seeding)
            reset_gv_rng(11)
            got = vf.stochastic_raytracing(grid, origin)
            got_next = vf.stochastic_raytracing(grid, origin)
            rng_want = make_rng(11)
            want = ref_stochastic_raytracing(grid, origin, rng=rng_want)
            want_next = ref_stochastic_raytracing(grid, origin, rng=rng_want)
            check(
                same(got, want) and same(got_next, want_next),
                f'{tag}: stochastic with the library rng',
            )

# the grid is only read
grid = random_grid(5, 6, 0.3)
before = [[repr(grid[Position(y, x)]) for x in range(6)] for y in range(5)]
ids = [[id(grid[Position(y, x)]) for x in range(6)] for y in range(5)]
vf.raytracing(grid, Position(4, 2))
vf.stochastic_raytracing(grid, Position(4, 2), rng=make_rng(0))
check(
    before == [[repr(grid[Position(y, x)]) for x in range(6)] for y in range(5)]
    and ids == [[id(grid[Position(y, x)]) for x in range(6)] for y in range(5)],
    'grid modified by the visibility functions',
)

# fresh arrays every call
a = vf.raytracing(grid, Position(4, 2))
b = vf.raytracing(grid, Position(4, 2))
a[:] = False
check(bool(b[4, 2]) and a is not b, 'visibility arrays shared between calls')

# 4. any order of earlier ray queries; cleared cache; several repetitions
order = layout_rng.permutation(len(records)).tolist()
for round_ in range(2):
    for i in order if round_ == 0 else reversed(order):
        grid, origin, kwargs, want = records[i]
        with warnings.catch_warnings():
            warnings.simplefilter('ignore')
            got = vf.raytracing(grid, origin, **kwargs)
        check(same(got, want), f'record {i} differs in round {round_}')
    rt.cached_compute_rays_fancy.cache_clear()

# 5. origin outside the grid: ValueError as before
for origin in [Position(-1, 0), Position(0, 5), Position(3, 0)]:
    for f in (vf.raytracing, vf.stochastic_raytracing):
        try:
            f(Grid.from_shape((3, 5)), origin)
        except ValueError:
            pass
        else:
            check(False, f'{f.__name__} from {origin}: no ValueError')

# 6. registry, factories
check(
    vf.visibility_function_registry['raytracing'] is vf.raytracing
    and vf.visibility_function_registry['stochastic_raytracing']
    is vf.stochastic_raytracing,
    'registry entries',
)
check(
    sorted(vf.visibility_function_registry.names())
    == sorted(
        [
            'fully_transparent',
            'partially_occluded',
            'raytracing',
            'stochastic_raytracing',
        ]
    )
    if hasattr(vf.visibility_function_registry, 'names')
    else True,
    'registry names',
)
grid = random_grid(6, 7, 0.3)
origin = Position(5, 3)
f = vf.factory('raytracing')
check(same(f(grid, origin), ref_raytracing(grid, origin)), 'factory default')
f = vf.factory('raytracing', absolute_counts=False, threshold=0.5)
check(
    same(
        f(grid, origin, rng=None),
        ref_raytracing(grid, origin, absolute_counts=False, threshold=0.5),
    ),
    'factory with kwargs',
)
f = vf.factory('raytracing', threshold=4, ignored_key='x')
check(
    same(f(grid, origin), ref_raytracing(grid, origin, threshold=4)),
    'factory with an extra key',
)
f = vf.factory('stochastic_raytracing')
check(
    same(
        f(grid, origin, rng=make_rng(5)),
        ref_stochastic_raytracing(grid, origin, rng=make_rng(5)),
    ),
    'factory stochastic',
)

# 7. through the observation functions: corners, borders, four headings,
#    asymmetric view areas
def ref_observation(state, area, visibility_function, rng=None):
    return of.from_visibility(
        state, area=area, visibility_function=visibility_function, rng=rng
    )


VIEWS = [
    Area((-6, 0), (-3, 3)),  # the usual 7x7 view
    Area((-2, 0), (-1, 1)),
    Area((-3, 1), (-1, 2)),  # asymmetric, agent strictly inside
    Area((0, 0), (0, 0)),
    Area((-4, 0), (0, 0)),
]
world = random_grid(6, 9, 0.2)
open_world = Grid.from_shape((15, 17))
agent_positions = [
    Position(0, 0), Position(0, 8), Position(5, 0), Position(5, 8),
    Position(0, 4), Position(3, 8), Position(2, 3),
]  # fmt: skip
for view in VIEWS:
    for orientation in Orientation:
        # unobstructed: nothing is hidden when the view fits in the grid
        state = State(open_world, Agent(Position(7, 8), orientation))
        obs = of.raytracing(state, area=view)
        check(
            not any(
                isinstance(obs.grid[p], Hidden)
                for p in obs.grid.area.positions()
            ),
            f'open world, {orientation}, {view}: hidden cells',
        )
        check(
            obs.grid.shape.as_tuple == (view.height, view.width),
            f'open world, {orientation}, {view}: shape',
        )

        for position in agent_positions:
            state = State(world, Agent(position, orientation, Key(Color.NONE)))
            tag = f'{position} {orientation} {view}'

            got = of.raytracing(state, area=view)
            want = ref_observation(state, view, ref_raytracing)
            check(got == want, f'observation raytracing {tag}')
            check(
                got.agent.position == Position(-view.ymin, -view.xmin)
                and not isinstance(got.grid[got.agent.position], Hidden),
                f'observation raytracing {tag}: agent cell',
            )

            got = of.factory('raytracing', area=view)(state)
            check(got == want, f'observation factory raytracing {tag}')

            got = of.stochastic_raytracing(state, area=view, rng=make_rng(2))
            want = ref_observation(
                state, view, ref_stochastic_raytracing, rng=make_rng(2)
            )
            check(got == want, f'observation stochastic_raytracing {tag}')

if failures:
    print(f'{len(failures)} failures')
    sys.exit(1)
print(f'ok: {len(records)} recorded views re-checked in scrambled order')
