"""Demo for change B (memory / memory_rooms take any iterable of colors).

Run from the worktree root:  /venv/bin/python _seed/B/demo.py

Exits 0 on the pristine tree and with the patch applied.  It checks property
C13 (well-formed initial states, ValueError for impossible parameters) on a
broad corpus for all eight reset functions, pins the exact outcomes (states and
amount of randomness consumed) with a digest computed on the pristine tree
(also under other PYTHONHASHSEEDs), and compares `memory` against an embedded
reference.  Input kinds which only the patched tree accepts (generators,
repeated colors, ...) are detected with a feature probe, and checked if
available.
"""
import hashlib
import itertools as itt
import os
import sys

sys.path.insert(0, os.getcwd())

import numpy as np  # noqa: E402

from gym_gridverse.envs import reset_functions as rf  # noqa: E402
from gym_gridverse.geometry import Orientation, Position, Shape  # noqa: E402
from gym_gridverse.grid_object import (  # noqa: E402
    Beacon,
    Color,
    Door,
    Exit,
    Floor,
    Key,
    MovingObstacle,
    NoneGridObject,
    Telepod,
    Wall,
)
from gym_gridverse.rng import make_rng  # noqa: E402
from gym_gridverse.state import State  # noqa: E402


# --------------------------------------------------------------------------
# property C13: well-formedness of initial states
# --------------------------------------------------------------------------


def cells(state, object_type):
    return [
        position
        for position in state.grid.area.positions()
        if type(state.grid[position]) is object_type
    ]


def check_common(state, shape):
    assert isinstance(state, State)
    grid, agent = state.grid, state.agent
    assert (grid.shape.height, grid.shape.width) == (shape.height, shape.width)
    # unbroken wall boundary
    for position in grid.area.positions('border'):
        assert type(grid[position]) is Wall, (position, grid[position])
    # agent inside, empty-handed, on a free cell
    y, x = agent.position.y, agent.position.x
    assert 0 < y < shape.height - 1 and 0 < x < shape.width - 1, agent
    assert isinstance(agent.orientation, Orientation)
    assert type(agent.grid_object) is NoneGridObject
    under = grid[agent.position]
    assert not under.blocks_movement, under
    assert not isinstance(under, (Exit, MovingObstacle, Telepod)), under


def only_types(state, allowed):
    for position in state.grid.area.positions():
        assert type(state.grid[position]) in allowed, state.grid[position]


def check_empty(state, shape, random_agent=False, random_exit=False):
    check_common(state, shape)
    only_types(state, {Wall, Floor, Exit})
    assert len(cells(state, Exit)) == 1
    assert len(cells(state, Wall)) == 2 * shape.height + 2 * shape.width - 4
    if not random_exit:
        assert cells(state, Exit) == [
            Position(shape.height - 2, shape.width - 2)
        ]
    if not random_agent:
        assert state.agent.position == Position(1, 1)
        assert state.agent.orientation is Orientation.R


def check_rooms(state, shape, layout):
    check_common(state, shape)
    only_types(state, {Wall, Floor, Exit})
    assert len(cells(state, Exit)) == 1


def check_dynamic_obstacles(state, shape, num_obstacles, random_agent=False):
    check_common(state, shape)
    only_types(state, {Wall, Floor, Exit, MovingObstacle})
    assert len(cells(state, Exit)) == 1
    assert len(cells(state, MovingObstacle)) == num_obstacles
    assert len(cells(state, Wall)) == 2 * shape.height + 2 * shape.width - 4
    if not random_agent:
        assert state.agent.position == Position(1, 1)


def check_keydoor(state, shape):
    check_common(state, shape)
    only_types(state, {Wall, Floor, Exit, Door, Key})
    assert len(cells(state, Exit)) == 1
    (door_position,) = cells(state, Door)
    (key_position,) = cells(state, Key)
    door = state.grid[door_position]
    assert door.is_locked and door.color is Color.YELLOW
    assert state.grid[key_position].color is door.color
    # the door is the only opening of a full-height dividing wall
    x_wall = door_position.x
    assert 2 <= x_wall <= shape.width - 3
    for y in range(1, shape.height - 1):
        if y != door_position.y:
            assert type(state.grid[y, x_wall]) is Wall
    assert key_position.x < x_wall and state.agent.position.x < x_wall
    assert cells(state, Exit)[0].x > x_wall


def check_crossing(state, shape, num_rivers, object_type):
    check_common(state, shape)
    only_types(state, {Wall, Floor, Exit, object_type})
    assert len(cells(state, Exit)) == 1
    assert state.agent.position == Position(1, 1)
    # exit reachable from agent through non-river cells
    seen, stack = {state.agent.position}, [state.agent.position]
    while stack:
        p = stack.pop()
        for dy, dx in [(0, 1), (1, 0), (0, -1), (-1, 0)]:
            q = Position(p.y + dy, p.x + dx)
            if q not in seen and type(state.grid[q]) in (Floor, Exit):
                seen.add(q)
                stack.append(q)
    assert cells(state, Exit)[0] in seen


def check_teleport(state, shape):
    check_common(state, shape)
    only_types(state, {Wall, Floor, Exit, Telepod})
    assert len(cells(state, Exit)) == 1
    telepods = [state.grid[p] for p in cells(state, Telepod)]
    assert len(telepods) == 2
    assert telepods[0].color is telepods[1].color is Color.RED
    assert telepods[0] is not telepods[1]


def check_memory(state, shape, colors):
    check_common(state, shape)
    only_types(state, {Wall, Floor, Exit, Beacon})
    exits = [state.grid[p] for p in cells(state, Exit)]
    beacons = [state.grid[p] for p in cells(state, Beacon)]
    assert len(exits) == 2 and len(beacons) == 2
    assert exits[0].color is not exits[1].color
    assert {e.color for e in exits} <= set(colors)
    assert Color.NONE not in {e.color for e in exits}
    assert beacons[0].color is beacons[1].color
    assert sum(e.color is beacons[0].color for e in exits) == 1


def check_memory_rooms(state, shape, layout, colors, num_beacons, num_exits):
    check_common(state, shape)
    only_types(state, {Wall, Floor, Exit, Beacon})
    exits = [state.grid[p] for p in cells(state, Exit)]
    beacons = [state.grid[p] for p in cells(state, Beacon)]
    assert len(exits) == num_exits and len(beacons) == num_beacons
    exit_colors = [e.color for e in exits]
    assert len(set(exit_colors)) == len(exit_colors)
    assert set(exit_colors) <= set(colors)
    assert Color.NONE not in exit_colors
    assert len({b.color for b in beacons}) == 1
    assert exit_colors.count(beacons[0].color) == 1


CHECKS = {
    'empty': check_empty,
    'rooms': check_rooms,
    'dynamic_obstacles': check_dynamic_obstacles,
    'keydoor': check_keydoor,
    'crossing': check_crossing,
    'teleport': check_teleport,
    'memory': check_memory,
    'memory_rooms': check_memory_rooms,
}


# --------------------------------------------------------------------------
# canonical serialization of outcomes (used for hard-coded expectations)
# --------------------------------------------------------------------------


def serialize_state(state):
    rows = []
    for y in range(state.grid.shape.height):
        row = []
        for x in range(state.grid.shape.width):
            obj = state.grid[y, x]
            row.append(
                f'{type(obj).__name__}.{obj.color.name}.{obj.state_index}'
            )
        rows.append(','.join(row))
    agent = state.agent
    return (
        ';'.join(rows)
        + f'|{int(agent.position.y)},{int(agent.position.x)}'
        + f',{agent.orientation.name},{type(agent.grid_object).__name__}'
    )


def describe(value):
    """process-independent description of a parameter value"""
    if isinstance(value, (set, frozenset)):
        return 'set:' + ','.join(sorted(c.name for c in value))
    if isinstance(value, type):
        return value.__name__
    if isinstance(value, Shape):
        return f'{value.height}x{value.width}'
    return repr(value)


def outcome(name, args, seed, check=True):
    """runs a reset function, checks C13, returns a canonical outcome string

    the outcome includes the next draw of the rng, i.e., it also pins how much
    randomness is consumed by the reset function
    """
    rng = make_rng(seed)
    function = getattr(rf, name)
    try:
        state = function(*args, rng=rng)
    except ValueError:
        # the only failure allowed by C13
        return 'ValueError'
    if check:
        CHECKS[name](state, *args)
    return serialize_state(state) + f'|{int(rng.integers(1 << 30))}'


# --------------------------------------------------------------------------
# corpus shared by the pinned-digest check
# --------------------------------------------------------------------------

C = Color
COLOR_SETS = [
    set(),
    {C.RED},
    {C.NONE, C.RED},
    {C.NONE, C.RED, C.GREEN},
    {C.RED, C.GREEN},
    {C.YELLOW, C.BLUE},
    frozenset({C.BLUE, C.GREEN, C.RED}),
    {C.RED, C.GREEN, C.BLUE, C.YELLOW},
]


def corpus():
    """yields (name, args, seed) over awkward and ordinary parameters"""
    seeds = [0, 1, 7, 2**31 - 1]
    for h, w in itt.product(range(1, 9), range(1, 10)):
        shape = Shape(h, w)
        capacity = (h - 2) * (w - 2) - 2
        for seed in seeds:
            for random_agent in (False, True):
                for random_exit in (False, True):
                    yield 'empty', (shape, random_agent, random_exit), seed
                for n in (-1, 0, 1, 3, capacity - 1, capacity, capacity + 1, 99):
                    yield 'dynamic_obstacles', (shape, n, random_agent), seed
            for layout in [(1, 1), (1, 2), (2, 1), (2, 2), (3, 2), (2, 3)]:
                yield 'rooms', (shape, layout), seed
            yield 'keydoor', (shape,), seed
            yield 'teleport', (shape,), seed
            for n in (0, 1, 2, 3, 10):
                for object_type in (Wall, MovingObstacle):
                    yield 'crossing', (shape, n, object_type), seed
    for h, w in [(3, 5), (4, 5), (5, 4), (5, 5), (5, 7), (6, 9), (9, 5), (7, 11)]:
        shape = Shape(h, w)
        for seed in seeds:
            for colors in COLOR_SETS:
                yield 'memory', (shape, colors), seed
    for h, w in [(3, 3), (5, 5), (5, 9), (9, 6), (11, 13)]:
        shape = Shape(h, w)
        for seed in seeds:
            for layout in [(1, 1), (2, 2), (2, 3), (5, 1)]:
                for colors in COLOR_SETS:
                    for num_beacons, num_exits in [
                        (0, 2),
                        (1, 1),
                        (1, 2),
                        (3, 2),
                        (1, 3),
                        (2, 4),
                        (1, 5),
                        (200, 2),
                    ]:
                        yield (
                            'memory_rooms',
                            (shape, layout, colors, num_beacons, num_exits),
                            seed,
                        )


def corpus_digest():
    sha = hashlib.sha256()
    counts = {}
    for name, args, seed in corpus():
        result = outcome(name, args, seed)
        kind = 'ValueError' if result == 'ValueError' else 'State'
        counts[name, kind] = counts.get((name, kind), 0) + 1
        line = '|'.join([name, *map(describe, args), str(seed), result])
        sha.update(line.encode() + b'\n')
    return sha.hexdigest(), counts


# --------------------------------------------------------------------------
# checks specific to `memory` / `memory_rooms` (touched by change B)
# --------------------------------------------------------------------------

EXPECTED_DIGEST = (
    '1390392371fed55fe5136b79b17240006b8fbc4fcc04cfb401e7264c5b11ec59'
)


def reference_memory(shape, colors, *, rng):
    """the pristine sampling of `memory`, spelled independently

    returns (color_good, color_bad, x_exit_good, x_exit_bad)
    """
    sorted_colors = sorted(colors, key=lambda color: color.value)
    i_good, i_bad = rng.choice(len(sorted_colors), size=2, replace=False)
    xs = [1, shape.width - 2]
    j_good, j_bad = rng.choice(2, size=2, replace=False)
    return sorted_colors[i_good], sorted_colors[i_bad], xs[j_good], xs[j_bad]


def check_memory_against_reference(shape, colors, seed):
    rng, rng_ref = make_rng(seed), make_rng(seed)
    state = rf.memory(shape, colors, rng=rng)
    check_memory(state, shape, set(colors))
    good, bad, x_good, x_bad = reference_memory(shape, set(colors), rng=rng_ref)
    h, w = shape.height, shape.width
    assert state.grid[1, x_good] == Exit(good)
    assert state.grid[1, x_bad] == Exit(bad)
    assert state.grid[h - 2, 1] == Beacon(good)
    assert state.grid[h - 2, w - 2] == Beacon(good)
    assert state.agent.position == Position(h // 2, w // 2)
    assert state.agent.orientation is Orientation.F
    # corridors: top and bottom rows, and the central column
    for x in range(2, w - 2):
        assert type(state.grid[1, x]) is Floor
        assert type(state.grid[h - 2, x]) is Floor
    for y in range(2, h - 2):
        for x in range(1, w - 1):
            expected = Floor if x == w // 2 else Wall
            assert type(state.grid[y, x]) is expected
    assert rng.integers(1 << 62) == rng_ref.integers(1 << 62)
    return serialize_state(state)


def reference_memory_rooms_colors(state, colors, num_beacons, num_exits):
    """what must hold of the colors whichever positions were sampled"""
    exits = [state.grid[p] for p in cells(state, Exit)]
    beacons = [state.grid[p] for p in cells(state, Beacon)]
    assert len(exits) == num_exits and len(beacons) == num_beacons
    assert len({e.color for e in exits}) == num_exits
    assert {e.color for e in exits} <= set(colors)


def new_input_kinds_supported():
    """feature probe: does `memory` take any iterable of colors?"""
    try:
        rf.memory(Shape(5, 5), iter([Color.RED, Color.BLUE]), rng=make_rng(0))
    except TypeError:
        return False
    return True


ORDERINGS = [
    [C.RED, C.GREEN],
    [C.GREEN, C.RED],
    [C.YELLOW, C.RED, C.BLUE],
    [C.BLUE, C.YELLOW, C.RED],
    [C.RED, C.GREEN, C.BLUE, C.YELLOW],
    [C.YELLOW, C.BLUE, C.GREEN, C.RED],
    [C.GREEN, C.YELLOW, C.RED, C.BLUE],
]

SHAPES_MEMORY = [(5, 5), (5, 7), (6, 5), (8, 13), (12, 7)]
ROOMS = [
    (Shape(5, 5), (1, 1)),
    (Shape(7, 10), (2, 3)),
    (Shape(10, 7), (3, 2)),
    (Shape(9, 9), (2, 2)),
]


def check_legal_inputs():
    """sets / frozensets, and duplicate-free sequences in any order"""
    n = 0
    for (h, w), colors, seed in itt.product(
        SHAPES_MEMORY, ORDERINGS, range(8)
    ):
        shape = Shape(h, w)
        results = set()
        for kind in (set, frozenset, list, tuple):
            argument = kind(colors)
            snapshot = kind(colors)
            results.add(check_memory_against_reference(shape, argument, seed))
            assert argument == snapshot  # argument not mutated
            n += 1
        # the container kind and the order of the colors do not matter
        assert len(results) == 1, results

    for (shape, layout), colors, seed in itt.product(
        ROOMS, ORDERINGS, range(4)
    ):
        for num_beacons, num_exits in [(1, 2), (3, 2), (1, 3), (2, 4)]:
            results = set()
            for kind in (set, frozenset, list, tuple):
                argument = kind(colors)
                rng = make_rng(seed)
                try:
                    state = rf.memory_rooms(
                        shape,
                        layout,
                        argument,
                        num_beacons,
                        num_exits,
                        rng=rng,
                    )
                except ValueError:
                    # only possible reason here: more exits than colors
                    assert num_exits > len(colors), (shape, layout, colors)
                    results.add('ValueError')
                    continue
                check_memory_rooms(
                    state, shape, layout, set(colors), num_beacons, num_exits
                )
                reference_memory_rooms_colors(
                    state, colors, num_beacons, num_exits
                )
                assert argument == kind(colors)
                results.add(
                    serialize_state(state) + str(rng.integers(1 << 62))
                )
                n += 1
            assert len(results) == 1, results
            if num_exits > len(colors):
                assert results == {'ValueError'}
    return n


def check_illegal_inputs():
    """impossible color sets raise ValueError, whatever the container"""
    n = 0
    bad = [
        [],
        [C.RED],
        [C.NONE],
        [C.NONE, C.RED],
        [C.NONE, C.RED, C.GREEN],
        [C.RED, C.NONE, C.GREEN, C.BLUE, C.YELLOW],
    ]
    for colors, kind in itt.product(bad, (set, frozenset, list, tuple)):
        for call in (
            lambda a: rf.memory(Shape(5, 5), a, rng=make_rng(0)),
            lambda a: rf.memory_rooms(
                Shape(9, 9), (2, 2), a, 1, 2, rng=make_rng(0)
            ),
        ):
            try:
                call(kind(colors))
            except ValueError as error:
                assert 'colors' in str(error)
                n += 1
            else:
                assert False, (colors, kind)
    # other parameters are still validated
    good = {C.RED, C.GREEN}
    for call in (
        lambda: rf.memory(Shape(4, 5), good),
        lambda: rf.memory(Shape(5, 6), good),
        lambda: rf.memory(Shape(5, 3), good),
        lambda: rf.memory(Shape(1, 1), good),
        lambda: rf.memory_rooms(Shape(9, 9), (2, 2), good, 0, 2),
        lambda: rf.memory_rooms(Shape(9, 9), (2, 2), good, 1, 1),
        lambda: rf.memory_rooms(Shape(9, 9), (2, 2), good, 1, 3),
        lambda: rf.memory_rooms(Shape(3, 9), (2, 2), good, 1, 2),
        lambda: rf.memory_rooms(Shape(9, 3), (2, 2), good, 1, 2),
        lambda: rf.memory_rooms(Shape(1, 1), (1, 1), good, 1, 2),
        lambda: rf.memory_rooms(Shape(3, 3), (1, 1), good, 1, 2),
    ):
        try:
            call()
        except ValueError:
            n += 1
        else:
            assert False
    return n


def check_new_input_kinds():
    """generators, repeated colors, dict keys, arrays (if supported)"""
    n = 0
    for colors, seed in itt.product(ORDERINGS, range(6)):
        variants = [
            lambda: iter(colors),
            lambda: (color for color in colors),
            lambda: colors + colors[::-1],
            lambda: tuple(colors) * 3,
            lambda: dict.fromkeys(colors),
            lambda: dict.fromkeys(colors).keys(),
            lambda: np.array(colors + colors[:1], dtype=object),
        ]
        expected = serialize_state(
            rf.memory(Shape(7, 9), set(colors), rng=make_rng(seed))
        )
        expected_rooms = serialize_state(
            rf.memory_rooms(
                Shape(8, 11), (2, 2), set(colors), 2, 2, rng=make_rng(seed)
            )
        )
        for variant in variants:
            state = rf.memory(Shape(7, 9), variant(), rng=make_rng(seed))
            check_memory(state, Shape(7, 9), set(colors))
            assert serialize_state(state) == expected
            state = rf.memory_rooms(
                Shape(8, 11), (2, 2), variant(), 2, 2, rng=make_rng(seed)
            )
            check_memory_rooms(
                state, Shape(8, 11), (2, 2), set(colors), 2, 2
            )
            assert serialize_state(state) == expected_rooms
            n += 1

    # repetitions do not make up for missing colors
    for bad in (
        lambda: iter([]),
        lambda: [C.RED, C.RED],
        lambda: (C.BLUE,) * 5,
        lambda: iter([C.RED, C.NONE, C.GREEN]),
        lambda: [C.RED, C.GREEN, C.NONE, C.NONE],
    ):
        for call in (
            lambda a: rf.memory(Shape(5, 5), a, rng=make_rng(0)),
            lambda a: rf.memory_rooms(
                Shape(9, 9), (2, 2), a, 1, 2, rng=make_rng(0)
            ),
        ):
            try:
                call(bad())
            except ValueError:
                n += 1
            else:
                assert False
    # no more exits than distinct colors
    try:
        rf.memory_rooms(
            Shape(9, 9), (2, 2), [C.RED, C.GREEN, C.RED], 1, 3, rng=make_rng(0)
        )
    except ValueError:
        n += 1
    else:
        assert False
    return n


def check_factory_and_environments():
    from gym_gridverse.action import Action
    from gym_gridverse.envs.gridworld import GridWorld
    from gym_gridverse.rng import reset_gv_rng
    from gym_gridverse.spaces import (
        ActionSpace,
        ObservationSpace,
        StateSpace,
    )

    def make_env(name, shape, **kwargs):
        reset_function = rf.factory(name, shape=shape, **kwargs)
        object_types = [Floor, Wall, Exit, Beacon]
        return GridWorld(
            StateSpace(shape, object_types, list(Color)),
            ActionSpace(list(Action)),
            ObservationSpace(Shape(3, 3), object_types, list(Color)),
            reset_function,
            lambda state, action, *, rng=None: None,
            lambda state, *, rng=None: None,
            lambda state, action, next_state, *, rng=None: 0.0,
            lambda state, action, next_state, *, rng=None: False,
        )

    colors = {C.YELLOW, C.GREEN, C.RED}
    configs = [
        ('memory', Shape(5, 5), dict(colors=colors)),
        ('memory', Shape(9, 7), dict(colors=frozenset(colors))),
        (
            'memory_rooms',
            Shape(9, 12),
            dict(layout=(2, 3), colors=colors, num_beacons=2, num_exits=3),
        ),
    ]
    envs = [make_env(name, shape, **kw) for name, shape, kw in configs]
    for seed in (0, 11):
        for env in envs:
            env.set_seed(seed)
        observed = [[] for _ in envs]
        for _ in range(4):
            for i, env in enumerate(envs):
                env.reset()
                assert env.state_space.contains(env.state)
                observed[i].append(serialize_state(env.state))
        for i, (name, shape, kw) in enumerate(configs):
            rng = make_rng(seed)
            replay = []
            for _ in range(4):
                state = getattr(rf, name)(shape, **kw, rng=rng)
                CHECKS[name](state, shape, *kw.values())
                replay.append(serialize_state(state))
            assert replay == observed[i]
    # the colors given to the factory are left alone
    assert colors == {C.YELLOW, C.GREEN, C.RED}

    # module-level rng, re-seeded
    reset_gv_rng(3)
    first = [serialize_state(rf.memory(Shape(5, 9), colors)) for _ in range(6)]
    reset_gv_rng(3)
    again = [serialize_state(rf.memory(Shape(5, 9), colors)) for _ in range(6)]
    assert first == again and len(set(first)) > 1


def check_hash_seeds():
    """the outcome does not depend on the iteration order of sets of enums"""
    import subprocess

    for hash_seed in ('1', '2'):
        env = dict(os.environ, PYTHONHASHSEED=hash_seed, C13_DEMO_CHILD='1')
        completed = subprocess.run(
            [sys.executable, os.path.abspath(__file__)],
            env=env,
            stdout=subprocess.PIPE,
            stderr=subprocess.DEVNULL,
            cwd=os.getcwd(),
        )
        assert completed.returncode == 0, completed.stdout
        assert completed.stdout.decode().strip() == EXPECTED_DIGEST


def main():
    digest, counts = corpus_digest()
    if os.environ.get('C13_DEMO_CHILD'):
        print(digest)
        return
    assert digest == EXPECTED_DIGEST, digest
    print('corpus digest ok:', sum(counts.values()), 'scenarios')
    print('legal inputs vs reference:', check_legal_inputs())
    print('illegal inputs:', check_illegal_inputs())
    if new_input_kinds_supported():
        print('new input kinds:', check_new_input_kinds())
    else:
        print('new input kinds: not supported by this tree (skipped)')
    check_factory_and_environments()
    check_hash_seeds()
    print('OK')


if __name__ == '__main__':
    main()
