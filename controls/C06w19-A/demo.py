"""C06 demo (change A): the point-of-view extraction used by the occluding
observation functions.

Runs with or without the patch.  Everything is compared with a reference
implementation embedded in this file, which computes the world cell under every
view cell with explicit per-heading formulas (no Transform / Grid.subgrid /
Grid.__mul__), the visibility with its own copy of the two algorithms, and then
checks the C06 property itself on the library's observations.
"""
import itertools
import os
import random
import sys

sys.path.insert(0, os.getcwd())

import numpy as np  # noqa: E402

from gym_gridverse.agent import Agent  # noqa: E402
from gym_gridverse.envs import observation_functions as ofs  # noqa: E402
from gym_gridverse.envs import reset_functions  # noqa: E402
from gym_gridverse.envs.visibility_functions import (  # noqa: E402
    visibility_function_registry,
)
from gym_gridverse.geometry import (  # noqa: E402
    Area,
    Orientation,
    Position,
    Shape,
)
from gym_gridverse.grid import Grid  # noqa: E402
from gym_gridverse.grid_object import (  # noqa: E402
    Beacon,
    Box,
    Color,
    Door,
    Exit,
    Floor,
    Hidden,
    Key,
    MovingObstacle,
    NoneGridObject,
    Telepod,
    Wall,
)
from gym_gridverse.observation import Observation  # noqa: E402
from gym_gridverse.rng import make_rng  # noqa: E402
from gym_gridverse.state import State  # noqa: E402
from gym_gridverse.utils.raytracing import compute_rays_fancy  # noqa: E402

CHECKS = 0


def check(condition, *message):
    global CHECKS
    CHECKS += 1
    if not condition:
        print('FAIL:', *message)
        sys.exit(1)


# ---------------------------------------------------------------------------
# reference implementation
# ---------------------------------------------------------------------------


def ref_world_position(agent_position, orientation, area, vy, vx):
    """world cell under view cell (vy, vx); explicit formula per heading"""
    ry, rx = vy + area.ymin, vx + area.xmin  # relative to agent, facing up
    ay, ax = agent_position.y, agent_position.x
    if orientation is Orientation.F:
        return ay + ry, ax + rx
    if orientation is Orientation.B:
        return ay - ry, ax - rx
    if orientation is Orientation.R:
        return ay + rx, ax - ry
    if orientation is Orientation.L:
        return ay - rx, ax + ry
    raise AssertionError


def ref_pov(state, area):
    """rows of (object-or-None, world position); None marks off-grid cells"""
    height, width = state.grid.shape.height, state.grid.shape.width
    rows = []
    for vy in range(area.height):
        row = []
        for vx in range(area.width):
            wy, wx = ref_world_position(
                state.agent.position, state.agent.orientation, area, vy, vx
            )
            inside = 0 <= wy < height and 0 <= wx < width
            row.append((state.grid.objects[wy][wx] if inside else None, (wy, wx)))
        rows.append(row)
    return rows


def ref_opaque(rows):
    return [[obj is None or obj.blocks_vision for obj, _ in row] for row in rows]


def ref_partially_occluded(opaque, ay, ax):
    height, width = len(opaque), len(opaque[0])

    def sweep(dx):
        seen = [[False] * width for _ in range(height)]
        stack = [(ay, ax)]
        while stack:
            y, x = stack.pop()
            if not (0 <= y < height and 0 <= x < width) or seen[y][x]:
                continue
            seen[y][x] = True
            if not opaque[y][x]:
                stack.extend([(y - 1, x), (y, x + dx), (y - 1, x + dx)])
        return seen

    left, right = sweep(-1), sweep(+1)
    return [
        [left[y][x] or right[y][x] for x in range(width)] for y in range(height)
    ]


_RAYS = {}


def ref_ray_counts(opaque, ay, ax):
    height, width = len(opaque), len(opaque[0])
    key = (ay, ax, height, width)
    if key not in _RAYS:
        _RAYS[key] = compute_rays_fancy(
            Position(ay, ax), Area((0, height - 1), (0, width - 1))
        )
    num = [[0] * width for _ in range(height)]
    den = [[0] * width for _ in range(height)]
    for ray in _RAYS[key]:
        light = True
        for pos in ray:
            num[pos.y][pos.x] += int(light)
            den[pos.y][pos.x] += 1
            light = light and not opaque[pos.y][pos.x]
    return num, den


def ref_raytracing(opaque, ay, ax):
    num, _ = ref_ray_counts(opaque, ay, ax)
    return [[n >= 1 for n in row] for row in num]


def ref_observation_cells(state, area, name):
    """rows of (object-or-None, world position, visible)"""
    rows = ref_pov(state, area)
    opaque = ref_opaque(rows)
    ay, ax = -area.ymin, -area.xmin
    visible = (
        ref_partially_occluded(opaque, ay, ax)
        if name == 'partially_occluded'
        else ref_raytracing(opaque, ay, ax)
    )
    return [
        [(obj, wpos, vis) for (obj, wpos), vis in zip(row, vrow)]
        for row, vrow in zip(rows, visible)
    ]


def check_against_reference(state, area, name, observation, label):
    cells = ref_observation_cells(state, area, name)
    check(
        observation.grid.shape == Shape(area.height, area.width),
        label,
        'shape',
        observation.grid.shape,
    )
    for vy, row in enumerate(cells):
        for vx, (obj, wpos, vis) in enumerate(row):
            got = observation.grid[vy, vx]
            if vis and obj is not None:
                # the very object of the world cell, no copy
                check(got is obj, label, 'cell', (vy, vx), got, obj)
            else:
                check(type(got) is Hidden, label, 'hidden', (vy, vx), got)
    check(
        observation.agent.position == Position(-area.ymin, -area.xmin),
        label,
        'agent position',
    )
    check(observation.agent.orientation is Orientation.F, label, 'heading')
    check(
        observation.agent.grid_object is state.agent.grid_object,
        label,
        'held object',
    )
    check(
        observation.agent
        == Agent(
            Position(-area.ymin, -area.xmin),
            Orientation.F,
            state.agent.grid_object,
        ),
        label,
        'agent',
    )
    return cells


# ---------------------------------------------------------------------------
# property checks on the library's observations
# ---------------------------------------------------------------------------

OBSERVE = {
    'partially_occluded': ofs.partially_occluded,
    'raytracing': ofs.raytracing,
}


def snapshot(state):
    return (
        [list(row) for row in state.grid.objects],
        state.agent.position,
        state.agent.orientation,
        state.agent.grid_object,
    )


def same_snapshot(a, b):
    return (
        len(a[0]) == len(b[0])
        and all(
            len(r) == len(s) and all(x is y for x, y in zip(r, s))
            for r, s in zip(a[0], b[0])
        )
        and a[1] == b[1]
        and a[2] is b[2]
        and a[3] is b[3]
    )


def visible_view_cells(observation):
    return {
        (p.y, p.x)
        for p in observation.grid.area.positions()
        if type(observation.grid[p]) is not Hidden
    }


def check_chain(observation, label):
    """every visible cell is next to a transparent visible cell linked to the agent"""
    visible = visible_view_cells(observation)
    start = observation.agent.position.yx
    check(start in visible, label, 'agent cell must be visible')
    linked = set()  # transparent visible cells linked to the agent
    reached = {start}
    frontier = [start]
    while frontier:
        y, x = frontier.pop()
        if observation.grid[y, x].blocks_vision:
            continue
        linked.add((y, x))
        for dy, dx in itertools.product((-1, 0, 1), repeat=2):
            cell = (y + dy, x + dx)
            if cell in visible and cell not in reached:
                reached.add(cell)
                frontier.append(cell)
    check(visible <= reached, label, 'chain', sorted(visible - reached))


REPLACEMENTS = [
    lambda: Wall(),
    lambda: Floor(),
    lambda: Door(Door.Status.OPEN, Color.RED),
    lambda: Door(Door.Status.LOCKED, Color.NONE),
    lambda: Key(Color.NONE),
    lambda: Box(Key(Color.BLUE)),
]


def check_property(state, area, name, rnd, *, interference_cells, label):
    observe = OBSERVE[name]
    before = snapshot(state)
    observation = observe(state, area=area)
    check(same_snapshot(before, snapshot(state)), label, 'state was modified')
    cells = check_against_reference(state, area, name, observation, label)

    # repeated calls
    again = observe(state, area=area)
    check(again == observation, label, 'repeated call differs')
    check(again.grid is not observation.grid, label, 'grid instance reused')

    # agent cell + chain
    check_chain(observation, label)

    # which world cells are shown?
    shown = {
        wpos
        for row in cells
        for obj, wpos, vis in row
        if vis and obj is not None
    }
    world = [
        (y, x)
        for y in range(state.grid.shape.height)
        for x in range(state.grid.shape.width)
    ]
    check(state.agent.position.yx in shown, label, 'agent cell not shown')
    not_shown = [c for c in world if c not in shown]
    rnd.shuffle(not_shown)

    # non-interference: hidden / out-of-view cells carry no information
    for y, x in not_shown[:interference_cells]:
        original = state.grid.objects[y][x]
        for make in REPLACEMENTS:
            state.grid[y, x] = make()
            changed = observe(state, area=area)
            check(
                changed == observation,
                label,
                'interference from',
                (y, x),
                state.grid[y, x],
            )
        state.grid[y, x] = original

    # monotone: opening a visible opaque cell hides nothing that was visible
    visible = visible_view_cells(observation)
    opaque_shown = [
        wpos
        for row in cells
        for obj, wpos, vis in row
        if vis and obj is not None and obj.blocks_vision
    ]
    rnd.shuffle(opaque_shown)
    for y, x in opaque_shown[:3]:
        original = state.grid.objects[y][x]
        state.grid[y, x] = Floor()
        opened = observe(state, area=area)
        check(
            visible <= visible_view_cells(opened),
            label,
            'not monotone when opening',
            (y, x),
        )
        state.grid[y, x] = original
    check(same_snapshot(before, snapshot(state)), label, 'state not restored')
    return observation


def check_stochastic(state, area, seeds, label):
    rows = ref_pov(state, area)
    num, den = ref_ray_counts(ref_opaque(rows), -area.ymin, -area.xmin)
    for seed in seeds:
        observation = ofs.stochastic_raytracing(
            state, area=area, rng=make_rng(seed)
        )
        same_seed = ofs.stochastic_raytracing(
            state, area=area, rng=make_rng(seed)
        )
        check(observation == same_seed, label, 're-seeding differs', seed)
        for vy, row in enumerate(rows):
            for vx, (obj, _) in enumerate(row):
                got = observation.grid[vy, vx]
                if type(got) is not Hidden:
                    check(got is obj, label, 'stochastic object', (vy, vx))
                    check(num[vy][vx] >= 1, label, 'stochastic shows unlit')
                elif obj is not None and type(obj) is not Hidden:
                    check(
                        not (den[vy][vx] > 0 and num[vy][vx] == den[vy][vx]),
                        label,
                        'stochastic hides fully lit cell',
                        (vy, vx),
                        seed,
                    )
        check(
            observation.agent.position == Position(-area.ymin, -area.xmin),
            label,
            'stochastic agent',
        )


# ---------------------------------------------------------------------------
# scenarios
# ---------------------------------------------------------------------------

COLORS = list(Color)


def random_object(rnd):
    kind = rnd.randrange(12)
    color = rnd.choice(COLORS)
    if kind <= 3:
        return Floor()
    if kind <= 6:
        return Wall()
    if kind == 7:
        return Door(rnd.choice(list(Door.Status)), color)
    if kind == 8:
        return Key(color)
    if kind == 9:
        return rnd.choice([Exit(color), MovingObstacle(), Beacon(color)])
    if kind == 10:
        return Box(Key(color))
    return Telepod(color)


def random_grid(rnd, height, width):
    return Grid(
        [[random_object(rnd) for _ in range(width)] for _ in range(height)]
    )


# areas with the agent in the bottom row (both functions) ...
AREAS_BOTTOM = [
    Area((-6, 0), (-3, 3)),  # the default 7x7
    Area((-2, 0), (-1, 1)),
    Area((-3, 0), (-1, 2)),  # asymmetric
    Area((-1, 0), (-3, 0)),  # asymmetric, agent in a corner of the view
    Area((-4, 0), (0, 0)),  # one column
    Area((0, 0), (-2, 2)),  # one row
    Area((0, 0), (0, 0)),  # the agent's cell only
]
# ... and elsewhere (ray tracing only)
AREAS_OTHER = [
    Area((-2, 1), (-1, 2)),
    Area((-1, 2), (-2, 1)),
    Area((0, 3), (0, 1)),
]


def main():
    rnd = random.Random(20260927)

    # 1. random worlds: non-square shapes, every cell, every heading
    shapes = [(1, 1), (1, 5), (4, 1), (3, 4), (5, 3), (6, 7)]
    for height, width in shapes:
        grid = random_grid(rnd, height, width)
        positions = [(y, x) for y in range(height) for x in range(width)]
        if len(positions) > 12:
            corners = [
                (0, 0),
                (0, width - 1),
                (height - 1, 0),
                (height - 1, width - 1),
            ]
            borders = [
                p
                for p in positions
                if p[0] in (0, height - 1) or p[1] in (0, width - 1)
            ]
            positions = (
                corners + rnd.sample(borders, 4) + rnd.sample(positions, 4)
            )
        for (y, x), orientation in itertools.product(positions, Orientation):
            held = rnd.choice([None, Key(Color.NONE), Box(Floor())])
            state = State(grid, Agent(Position(y, x), orientation, held))
            for area in rnd.sample(AREAS_BOTTOM, 3):
                for name in OBSERVE:
                    label = f'{height}x{width} {(y, x)} {orientation.name} {area} {name}'
                    check_property(
                        state,
                        area,
                        name,
                        rnd,
                        interference_cells=3,
                        label=label,
                    )
            area = rnd.choice(AREAS_OTHER)
            label = f'{height}x{width} {(y, x)} {orientation.name} {area}'
            check_property(
                state,
                area,
                'raytracing',
                rnd,
                interference_cells=3,
                label=label,
            )
            try:
                ofs.partially_occluded(state, area=area)
            except NotImplementedError:
                pass
            else:
                check(False, label, 'partially_occluded must refuse this area')
            check_stochastic(
                state, rnd.choice(AREAS_BOTTOM + AREAS_OTHER), [0, 1], label
            )

    # 2. exhaustive interference on a few full scenarios
    for height, width, area in [
        (4, 5, Area((-2, 0), (-1, 1))),
        (3, 6, Area((-3, 0), (-1, 2))),
    ]:
        grid = random_grid(rnd, height, width)
        for y, x in [(0, 0), (height - 1, width - 1), (1, 2)]:
            for orientation in Orientation:
                state = State(grid, Agent(Position(y, x), orientation))
                for name in OBSERVE:
                    check_property(
                        state,
                        area,
                        name,
                        rnd,
                        interference_cells=height * width,
                        label=f'full {height}x{width} {(y, x)} {orientation.name} {name}',
                    )

    # 3. every opacity pattern of a 3x3 view, and of a 2x3 asymmetric one
    for area in [Area((-2, 0), (-1, 1)), Area((-1, 0), (-2, 0))]:
        n = area.height * area.width
        for orientation in Orientation:
            # a world exactly as large as the view, whatever the heading
            world_area = orientation * area
            agent_position = Position(-world_area.ymin, -world_area.xmin)
            for pattern in range(2**n):
                bits = [(pattern >> i) & 1 for i in range(n)]
                if orientation is not Orientation.F and pattern % 7:
                    continue  # all patterns facing forward, a seventh otherwise
                objects = [
                    [
                        Wall() if bits[y * world_area.width + x] else Floor()
                        for x in range(world_area.width)
                    ]
                    for y in range(world_area.height)
                ]
                state = State(
                    Grid(objects), Agent(agent_position, orientation)
                )
                for name in OBSERVE:
                    label = f'pattern {pattern} {area} {orientation.name} {name}'
                    observation = OBSERVE[name](state, area=area)
                    check_against_reference(
                        state, area, name, observation, label
                    )
                    check_chain(observation, label)
                    visible = visible_view_cells(observation)
                    # the view covers the world: nothing is out of view
                    for y, x in itertools.product(
                        range(world_area.height), range(world_area.width)
                    ):
                        original = objects[y][x]
                        if not original.blocks_vision:
                            continue
                        objects[y][x] = Floor()
                        opened = OBSERVE[name](state, area=area)
                        objects[y][x] = original
                        if any(
                            opened.grid[p] is original
                            for p in opened.grid.area.positions()
                        ):
                            check(False, label, 'stale object')
                        shown_before = any(
                            observation.grid[p] is original
                            for p in observation.grid.area.positions()
                        )
                        if shown_before:
                            check(
                                visible <= visible_view_cells(opened),
                                label,
                                'not monotone',
                                (y, x),
                            )
                        else:
                            check(opened == observation, label, 'interference')

    # 4. states from the library's reset functions, several in one process
    resets = [
        lambda rng: reset_functions.keydoor(Shape(5, 9), rng=rng),
        lambda rng: reset_functions.rooms(Shape(7, 9), [2, 2], rng=rng),
        lambda rng: reset_functions.teleport(Shape(6, 5), rng=rng),
        lambda rng: reset_functions.empty(Shape(4, 6), True, rng=rng),
    ]
    states = [reset(make_rng(seed)) for reset in resets for seed in (3, 4)]
    for i, state in enumerate(states):
        for orientation in Orientation:
            state.agent.orientation = orientation
            for area in (AREAS_BOTTOM[0], AREAS_BOTTOM[2]):
                for name in OBSERVE:
                    check_property(
                        state,
                        area,
                        name,
                        rnd,
                        interference_cells=4,
                        label=f'reset {i} {orientation.name} {area} {name}',
                    )
            check_stochastic(
                state, AREAS_BOTTOM[0], [5, 6, 7], f'reset {i} stochastic'
            )

    # 5. hard-coded expectation: agent in the corner of a 2x3 world, facing right
    a, b, c, d, e, f = Floor(), Wall(), Key(Color.RED), Floor(), Floor(), Exit()
    state = State(
        Grid([[a, b, c], [d, e, f]]), Agent(Position(0, 0), Orientation.R)
    )
    observation = ofs.partially_occluded(state, area=Area((-2, 0), (-1, 1)))
    # view rows (far to near), left to right of the agent:
    #   off c f / off b e / off a d   -- b is a wall and shadows c
    expected = [[None, None, f], [None, b, e], [None, a, d]]
    for y, x in itertools.product(range(3), range(3)):
        got = observation.grid[y, x]
        if expected[y][x] is None:
            check(type(got) is Hidden, 'hard-coded hidden', (y, x), got)
        else:
            check(got is expected[y][x], 'hard-coded', (y, x), got)
    check(
        observation
        == Observation(
            Grid(
                [
                    [Hidden(), Hidden(), Exit()],
                    [Hidden(), Wall(), Floor()],
                    [Hidden(), Floor(), Floor()],
                ]
            ),
            Agent(Position(2, 1), Orientation.F, NoneGridObject()),
        ),
        'hard-coded observation',
    )

    # 6. the registry / factory route gives the same functions
    for name in OBSERVE:
        function = ofs.factory(name, area=AREAS_BOTTOM[1])
        check(
            function(state) == OBSERVE[name](state, area=AREAS_BOTTOM[1]),
            'factory',
            name,
        )
        direct = ofs.from_visibility(
            state,
            area=AREAS_BOTTOM[1],
            visibility_function=visibility_function_registry[name],
        )
        check(direct == function(state), 'from_visibility', name)

    print(f'OK ({CHECKS} checks)')


if __name__ == '__main__':
    main()
