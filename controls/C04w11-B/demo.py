"""Demo for change B (rng.make_rng: bit generator pinned explicitly).

Run from the worktree root:  /venv/bin/python _seed/B/demo.py

Exits 0 on the pristine tree and with the patch applied.  Checks

1.  rng.make_rng against a reference (numpy.random.default_rng, and the
    explicit numpy.random.Generator(numpy.random.PCG64(seed))) and against
    hard-coded draws:  bit-generator type and full state for small, large and
    beyond-64-bit seeds, numpy integer seeds, sequences, SeedSequence;  pass
    through of Generator / BitGenerator / RandomState;  same exceptions for
    illegal seeds;  every call returns a *fresh, independent* generator;
    unseeded generators differ;  library-level generator helpers
    (reset_gv_rng / get_gv_rng / get_gv_rng_if_none);
2.  property C04 (stateful interface == functional interface, observations
    never stale, memoised once per state, state-before-reset raises, OuterEnv
    exposes exactly the representations) on a zoo of environments, seeds,
    action sequences and read patterns, both for environments seeded with
    set_seed and for unseeded environments driven by the library-level
    generator;  the generator installed by set_seed is checked against the
    reference, and hard-coded digests pin seeded trajectories.
"""
import hashlib
import os
import random
import sys
import warnings

warnings.filterwarnings('ignore')

# run from the worktree root:  make `gym_gridverse` importable from there
sys.path.insert(0, os.getcwd())

import numpy as np  # noqa: E402
import numpy.random as rnd  # noqa: E402

from gym_gridverse.action import Action  # noqa: E402
from gym_gridverse.agent import Agent  # noqa: E402
from gym_gridverse.envs import observation_functions as observation_fs  # noqa: E402
from gym_gridverse.envs import reset_functions as reset_fs  # noqa: E402
from gym_gridverse.envs import reward_functions as reward_fs  # noqa: E402
from gym_gridverse.envs import terminating_functions as terminating_fs  # noqa: E402
from gym_gridverse.envs import transition_functions as transition_fs  # noqa: E402
from gym_gridverse.envs.gridworld import GridWorld  # noqa: E402
from gym_gridverse.geometry import Area, Orientation, Position, Shape  # noqa: E402
from gym_gridverse.grid import Grid  # noqa: E402
from gym_gridverse.grid_object import (  # noqa: E402
    Beacon,
    Color,
    Door,
    Exit,
    Floor,
    Hidden,
    Key,
    MovingObstacle,
    NoneGridObject,
    Telepod,
    Wall,
)
from gym_gridverse.outer_env import OuterEnv  # noqa: E402
from gym_gridverse.representations.observation_representations import (  # noqa: E402
    make_observation_representation,
)
from gym_gridverse.representations.state_representations import (  # noqa: E402
    make_state_representation,
)
from gym_gridverse.rng import (  # noqa: E402
    choice,
    choices,
    get_gv_rng,
    get_gv_rng_if_none,
    make_rng,
    reset_gv_rng,
    shuffle,
)
from gym_gridverse.spaces import (  # noqa: E402
    ActionSpace,
    ObservationSpace,
    StateSpace,
)
from gym_gridverse.state import State  # noqa: E402

CHECKS = 0


def check(condition, message):
    global CHECKS
    CHECKS += 1
    if not condition:
        print(f'FAIL: {message}')
        sys.exit(1)


# ---------------------------------------------------------------------------
# canonical encodings (independent of __eq__/__repr__ of the library)
# ---------------------------------------------------------------------------


def enc_object(obj):
    return (type(obj).__name__, obj.state_index, obj.color.name)


def enc_grid(grid):
    return (
        grid.shape.height,
        grid.shape.width,
        tuple(tuple(enc_object(obj) for obj in row) for row in grid.objects),
    )


def enc_agent(agent):
    return (
        agent.position.y,
        agent.position.x,
        agent.orientation.name,
        enc_object(agent.grid_object),
    )


def enc(state_or_observation):
    return (enc_grid(state_or_observation.grid), enc_agent(state_or_observation.agent))


# ---------------------------------------------------------------------------
# reference view (used by the staleness check)
# ---------------------------------------------------------------------------


def reference_subgrid(grid, area):
    """the original implementation, verbatim"""
    return Grid(
        [
            [
                grid.objects[y][x]
                if 0 <= y < grid.area.height and 0 <= x < grid.area.width
                else Hidden()
                for x in area.x_coordinates()
            ]
            for y in area.y_coordinates()
        ]
    )


# ---------------------------------------------------------------------------
# 1. rng.make_rng vs. reference
# ---------------------------------------------------------------------------


def bit_state(generator):
    return repr(generator.bit_generator.state)


SEEDS = [
    0,
    1,
    2,
    7,
    42,
    12345,
    2**31 - 1,
    2**31 + 11,
    2**32,
    2**63 - 1,
    2**64 + 5,
    2**128 + 1,
]


def check_make_rng():
    for seed in SEEDS:
        generator = make_rng(seed)
        check(type(generator) is rnd.Generator, 'make_rng returns a Generator')
        check(
            type(generator.bit_generator) is rnd.PCG64,
            'the bit generator is PCG64',
        )
        check(
            bit_state(generator) == bit_state(rnd.default_rng(seed)),
            f'make_rng({seed}) has the state of default_rng({seed})',
        )
        check(
            bit_state(generator)
            == bit_state(rnd.Generator(rnd.PCG64(seed))),
            f'make_rng({seed}) has the state of Generator(PCG64({seed}))',
        )
        reference = rnd.default_rng(seed)
        check(
            generator.random() == reference.random()
            and generator.choice(17) == reference.choice(17)
            and list(generator.integers(0, 1000, size=5))
            == list(reference.integers(0, 1000, size=5))
            and np.array_equal(
                generator.random((3, 4)), reference.random((3, 4))
            )
            and bit_state(generator) == bit_state(reference),
            f'make_rng({seed}) draws like default_rng({seed})',
        )

        # every call makes a fresh, independent generator
        first, second = make_rng(seed), make_rng(seed)
        check(first is not second, 'make_rng returns a new generator')
        check(
            first.bit_generator is not second.bit_generator,
            'make_rng returns a new bit generator',
        )
        before = bit_state(second)
        first.random(100)
        check(bit_state(second) == before, 'generators are independent')
        check(bit_state(first) != before, 'drawing advances the generator')

    # hard-coded draws (from the numpy documentation of default_rng)
    check(make_rng(12345).random() == 0.22733602246716966, 'seed 12345')
    check(
        list(make_rng(12345).integers(low=0, high=10, size=3)) == [6, 2, 7],
        'seed 12345, integers',
    )
    check(
        np.allclose(
            make_rng(42).random((3, 3)),
            [
                [0.77395605, 0.43887844, 0.85859792],
                [0.69736803, 0.09417735, 0.97562235],
                [0.7611397, 0.78606431, 0.12811363],
            ],
            rtol=0,
            atol=1e-8,
        ),
        'seed 42',
    )

    # numpy integers, sequences, SeedSequence:  whatever default_rng accepts
    for seed in [
        np.int64(7),
        np.uint8(200),
        np.int32(0),
        [1, 2, 3],
        (4, 5),
        [0],
        np.array([9, 8, 7]),
        rnd.SeedSequence(9),
        rnd.SeedSequence([1, 2]),
        True,
    ]:
        check(
            bit_state(make_rng(seed)) == bit_state(rnd.default_rng(seed)),
            f'make_rng({seed!r}) has the state of default_rng',
        )

    # unseeded:  fresh entropy every time
    unseeded = [make_rng() for _ in range(4)] + [make_rng(None)]
    check(
        all(type(g.bit_generator) is rnd.PCG64 for g in unseeded),
        'unseeded generators are PCG64',
    )
    check(
        len({bit_state(g) for g in unseeded}) == len(unseeded),
        'unseeded generators differ',
    )

    # existing sources of randomness are passed through, not re-seeded
    generator = rnd.default_rng(3)
    generator.random(5)
    before = bit_state(generator)
    check(make_rng(generator) is generator, 'a Generator is returned as is')
    check(bit_state(generator) == before, 'a Generator is not re-seeded')
    for bit_generator in [rnd.PCG64(4), rnd.MT19937(4), rnd.Philox(4)]:
        before = repr(bit_generator.state)
        wrapped = make_rng(bit_generator)
        check(
            type(wrapped) is rnd.Generator
            and wrapped.bit_generator is bit_generator
            and repr(bit_generator.state) == before,
            'a BitGenerator is wrapped',
        )

    def outcome(function, argument):
        try:
            result = function(argument)
        except Exception as error:  # pylint: disable=broad-except
            return ('raises', type(error), str(error))
        return ('returns', type(result), id(result.bit_generator))

    legacy = rnd.RandomState(5)
    check(
        outcome(make_rng, legacy) == outcome(rnd.default_rng, legacy),
        'a RandomState is treated as default_rng treats it',
    )

    # illegal seeds raise exactly what default_rng raises
    for seed in [-1, -(2**70), 1.5, 'abc', [1, -2], [[1, 2], [3, 4.5]], object]:
        got, expected = outcome(make_rng, seed), outcome(rnd.default_rng, seed)
        check(
            got[0] == 'raises' and got == expected,
            f'illegal seed {seed!r}: {got} vs {expected}',
        )


def check_library_rng():
    for seed in SEEDS:
        generator = reset_gv_rng(seed)
        check(
            bit_state(generator) == bit_state(rnd.default_rng(seed)),
            'reset_gv_rng seeds like default_rng',
        )
        check(get_gv_rng() is generator, 'get_gv_rng returns the library rng')
        check(get_gv_rng() is generator, 'get_gv_rng is stable')
        check(
            get_gv_rng_if_none(None) is generator,
            'get_gv_rng_if_none(None) is the library rng',
        )
        other = make_rng(seed)
        check(other is not generator, 'make_rng does not return the library rng')
        check(get_gv_rng_if_none(other) is other, 'get_gv_rng_if_none(rng)')
        check(get_gv_rng() is generator, 'make_rng leaves the library rng')
        other.random(10)
        check(
            bit_state(generator) == bit_state(rnd.default_rng(seed)),
            'the library rng is independent of other generators',
        )

    check(reset_gv_rng(1) is not reset_gv_rng(1), 'reset_gv_rng makes new rngs')
    check(
        bit_state(reset_gv_rng()) != bit_state(reset_gv_rng()),
        'unseeded library rngs differ',
    )

    # helpers draw from the generator they are given, in the documented way
    data = ['a', 'b', 'c', 'd', 'e']
    for seed in [0, 5, 99]:
        reference = rnd.default_rng(seed)
        generator = make_rng(seed)
        check(
            choice(generator, data) == data[reference.choice(len(data))],
            'choice',
        )
        check(
            choices(generator, data, size=3)
            == [data[i] for i in reference.choice(len(data), size=3)],
            'choices',
        )
        indices = list(range(len(data)))
        reference.shuffle(indices)
        check(
            shuffle(generator, data) == [data[i] for i in indices], 'shuffle'
        )
        check(data == ['a', 'b', 'c', 'd', 'e'], 'shuffle leaves input alone')
        check(bit_state(generator) == bit_state(reference), 'same consumption')
        check(choices(generator, [], size=0) == [], 'choices of nothing')
        check(shuffle(generator, []) == [], 'shuffle of nothing')

# ---------------------------------------------------------------------------
# 2. property C04
# ---------------------------------------------------------------------------


def make_env(
    reset_function,
    transition_names,
    observation_name,
    area,
    object_types,
    colors,
    *,
    actions=None,
    terminating=None,
):
    transition_function = transition_fs.factory(
        'chain',
        transition_functions=[
            transition_fs.factory(name) for name in transition_names
        ],
    )
    reward_function = reward_fs.factory(
        'reduce_sum',
        reward_functions=[
            reward_fs.factory('reach_exit', reward_on=5.0, reward_off=0.0),
            reward_fs.factory('bump_into_wall', reward=-1.0),
            reward_fs.factory('living_reward', reward=-0.05),
        ],
    )
    terminating_function = (
        terminating_fs.factory('reach_exit')
        if terminating is None
        else terminating
    )
    observation_function = observation_fs.factory(observation_name, area=area)

    state = reset_function()
    state_space = StateSpace(state.grid.shape, object_types, colors)
    observation = observation_function(state)
    observation_space = ObservationSpace(
        observation.grid.shape, object_types, colors
    )
    action_space = ActionSpace(list(Action) if actions is None else actions)

    env = GridWorld(
        state_space,
        action_space,
        observation_space,
        reset_function,
        transition_function,
        observation_function,
        reward_function,
        terminating_function,
    )
    env.demo_area = area  # the view area, in the agent's frame
    return env


STANDARD = Area((-6, 0), (-3, 3))
SMALL = Area((-2, 0), (-1, 1))
WIDE = Area((-1, 0), (-4, 4))
TALL = Area((-8, 0), (0, 0))
ASYMMETRIC = Area((-3, 1), (-1, 3))
BEHIND = Area((0, 2), (-2, 0))

MOVES = [
    Action.MOVE_FORWARD,
    Action.MOVE_BACKWARD,
    Action.MOVE_LEFT,
    Action.MOVE_RIGHT,
    Action.TURN_LEFT,
    Action.TURN_RIGHT,
]


def env_makers():
    """name -> zero-argument constructor (so that several instances can be made)"""
    basic = [Wall, Floor, Exit]

    def empty(shape, random_agent, random_exit, observation_name, area):
        return lambda: make_env(
            reset_fs.factory(
                'empty',
                shape=Shape(*shape),
                random_agent=random_agent,
                random_exit=random_exit,
            ),
            ['move_agent', 'turn_agent'],
            observation_name,
            area,
            basic,
            [Color.NONE],
        )

    makers = {
        'empty-4x4-fixed': empty((4, 4), False, False, 'partially_occluded', STANDARD),
        'empty-4x9-random': empty((4, 9), True, True, 'partially_occluded', SMALL),
        'empty-9x4-random-wide': empty((9, 4), True, True, 'partially_occluded', WIDE),
        'empty-5x8-tall': empty((5, 8), True, False, 'fully_transparent', TALL),
        'empty-5x6-asymmetric': empty((5, 6), True, True, 'raytracing', ASYMMETRIC),
        'empty-6x5-behind': empty((6, 5), True, True, 'fully_transparent', BEHIND),
        'empty-7x5-stochastic': empty((7, 5), True, True, 'stochastic_raytracing', STANDARD),
        'empty-5x7-stochastic-asymmetric': empty(
            (5, 7), True, True, 'stochastic_raytracing', ASYMMETRIC
        ),
        'keydoor-7x7': lambda: make_env(
            reset_fs.factory('keydoor', shape=Shape(7, 7)),
            ['move_agent', 'turn_agent', 'actuate_door', 'pickndrop'],
            'partially_occluded',
            STANDARD,
            [Wall, Floor, Exit, Door, Key],
            [Color.NONE, Color.YELLOW],
        ),
        'keydoor-6x9-stochastic': lambda: make_env(
            reset_fs.factory('keydoor', shape=Shape(6, 9)),
            ['move_agent', 'turn_agent', 'actuate_door', 'pickndrop'],
            'stochastic_raytracing',
            SMALL,
            [Wall, Floor, Exit, Door, Key],
            [Color.NONE, Color.YELLOW],
        ),
        'dynamic-obstacles-7x6': lambda: make_env(
            reset_fs.factory(
                'dynamic_obstacles',
                shape=Shape(7, 6),
                num_obstacles=3,
                random_agent=True,
            ),
            ['move_agent', 'turn_agent', 'move_obstacles'],
            'stochastic_raytracing',
            STANDARD,
            [Wall, Floor, Exit, MovingObstacle],
            [Color.NONE],
            actions=MOVES,
            terminating=terminating_fs.factory(
                'reduce_any',
                terminating_functions=[
                    terminating_fs.factory('reach_exit'),
                    terminating_fs.factory('bump_moving_obstacle'),
                ],
            ),
        ),
        'crossing-7x9': lambda: make_env(
            reset_fs.factory(
                'crossing', shape=Shape(7, 9), num_rivers=2, object_type=Wall
            ),
            ['move_agent', 'turn_agent'],
            'raytracing',
            STANDARD,
            basic,
            [Color.NONE],
            actions=MOVES,
        ),
        'teleport-6x8': lambda: make_env(
            reset_fs.factory('teleport', shape=Shape(6, 8)),
            ['move_agent', 'turn_agent', 'teleport'],
            'partially_occluded',
            STANDARD,
            [Wall, Floor, Exit, Telepod],
            list(Color),
        ),
        'memory-5x9': lambda: make_env(
            reset_fs.factory(
                'memory', shape=Shape(5, 9), colors={Color.RED, Color.BLUE}
            ),
            ['move_agent', 'turn_agent'],
            'partially_occluded',
            SMALL,
            [Wall, Floor, Exit, Beacon],
            [Color.NONE, Color.RED, Color.BLUE],
        ),
        'four-rooms-9x11': lambda: make_env(
            reset_fs.factory('rooms', shape=Shape(9, 11), layout=(2, 2)),
            ['move_agent', 'turn_agent'],
            'stochastic_raytracing',
            ASYMMETRIC,
            basic,
            [Color.NONE],
        ),
    }
    return makers


def env_rng(env):
    """the generator the environment draws from"""
    # pylint: disable=protected-access
    return get_gv_rng() if env._rng is None else env._rng


def rng_state(env):
    return env_rng(env).bit_generator.state


def seed_env(env, seed, seeding):
    """seeding: 'env' (set_seed) or 'library' (unseeded env, library rng)"""
    if seeding == 'env':
        env.set_seed(seed)
        check(
            bit_state(env_rng(env)) == bit_state(rnd.default_rng(seed)),
            'set_seed installs a generator in the state of default_rng(seed)',
        )
    else:
        check(env._rng is None, 'unseeded environment')  # pylint: disable=protected-access
        reset_gv_rng(seed)


def same_rng_state(a, b):
    return repr(a) == repr(b)


def run_stateful(env, seed, script, seeding='env'):
    """drives the stateful interface;  returns the list of recorded events

    script:  list of ('reset',) / ('step', action) / ('obs', n) / ('state', n)
    """
    seed_env(env, seed, seeding)
    return run_items(env, script)


def run_items(env, script):
    """runs script items on the stateful interface, without (re-)seeding"""
    events = []
    for item in script:
        if item[0] == 'reset':
            env.reset()
            events.append(('reset',))
        elif item[0] == 'step':
            reward, done = env.step(item[1])
            events.append(('step', reward, done))
        elif item[0] == 'state':
            reads = [env.state for _ in range(item[1])]
            check(all(s is reads[0] for s in reads), 'state reads are stable')
            events.append(('state', enc(reads[0])))
        elif item[0] == 'obs':
            first = env.observation
            after_first = rng_state(env)
            reads = [env.observation for _ in range(item[1] - 1)]
            check(
                all(o is first for o in reads),
                'repeated observation reads return the same observation',
            )
            check(
                same_rng_state(after_first, rng_state(env)),
                'repeated observation reads do not consume randomness',
            )
            events.append(('obs', enc(first)))
    return events


def run_functional(env, seed, script, seeding='env'):
    """threads states through the functional interface, mirroring the script"""
    events = []
    seed_env(env, seed, seeding)
    state = None
    observed = False
    for item in script:
        if item[0] == 'reset':
            state = env.functional_reset()
            observed = None
            events.append(('reset',))
        elif item[0] == 'step':
            snapshot = enc(state)
            next_state, reward, done = env.functional_step(state, item[1])
            check(enc(state) == snapshot, 'functional_step leaves input alone')
            check(next_state is not state, 'functional_step returns new state')
            check(
                next_state.grid is not state.grid
                and not (
                    {id(row) for row in next_state.grid.objects}
                    & {id(row) for row in state.grid.objects}
                ),
                'next state does not alias the previous grid',
            )
            state = next_state
            observed = None
            events.append(('step', reward, done))
        elif item[0] == 'state':
            events.append(('state', enc(state)))
        elif item[0] == 'obs':
            # at most one observation is generated per state
            if observed is None:
                snapshot = enc(state)
                rows = [id(row) for row in state.grid.objects]
                observed = env.functional_observation(state)
                check(
                    enc(state) == snapshot
                    and rows == [id(row) for row in state.grid.objects],
                    'functional_observation leaves the state alone',
                )
                check(
                    not (
                        {id(row) for row in observed.grid.objects} & set(rows)
                    ),
                    'observation rows do not alias state rows',
                )
            events.append(('obs', enc(observed)))
    return events


def random_script(rng, env, length, *, reads):
    """reads: 'none', 'every', 'random'"""
    actions = list(env.action_space.actions)
    script = [('reset',)]

    def add_reads():
        if reads == 'none':
            return
        if reads == 'every':
            script.append(('obs', 1))
            return
        for _ in range(rng.randrange(3)):
            kind = rng.choice(['obs', 'obs', 'state'])
            script.append((kind, rng.randint(1, 4)))

    add_reads()
    for _ in range(length):
        if rng.random() < 0.08:
            script.append(('reset',))
            if rng.random() < 0.3:
                # reset twice in a row, possibly without reading anything
                script.append(('reset',))
        else:
            script.append(('step', rng.choice(actions)))
        add_reads()
    # always finish by reading everything, so unread episodes are compared too
    script.append(('state', 2))
    script.append(('obs', 3))
    return script


def check_before_reset(make):
    env = make()
    for _ in range(2):
        try:
            env.state
        except RuntimeError:
            pass
        else:
            check(False, 'state before the first reset must raise')
        try:
            env.observation
        except RuntimeError:
            pass
        else:
            check(False, 'observation before the first reset must raise')
    env.set_seed(3)
    try:
        env.state
    except RuntimeError:
        pass
    else:
        check(False, 'state after seeding but before reset must raise')
    try:
        env.step(env.action_space.actions[0])
    except RuntimeError:
        pass
    else:
        check(False, 'step before the first reset must raise')
    check(True, 'before-reset discipline')


def check_outer(make, seed, script):
    inner = make()
    can_state = inner.state_space.can_be_represented
    for name in ['default', 'no-overlap', 'compact']:
        inner = make()
        state_representation = (
            make_state_representation(name, inner.state_space)
            if can_state
            else None
        )
        observation_representation = make_observation_representation(
            name, inner.observation_space
        )
        outer = OuterEnv(
            inner,
            state_representation=state_representation,
            observation_representation=observation_representation,
        )
        check(outer.action_space is inner.action_space, 'outer action space')

        inner.set_seed(seed)
        for item in script:
            if item[0] == 'reset':
                outer.reset()
            elif item[0] == 'step':
                outer.step(item[1])
            else:
                for _ in range(item[1]):
                    got = outer.observation
                    expected = observation_representation.convert(
                        inner.observation
                    )
                    check(
                        got.keys() == expected.keys()
                        and all(
                            got[k].dtype == expected[k].dtype
                            and np.array_equal(got[k], expected[k])
                            for k in got
                        ),
                        f'outer observation ({name})',
                    )
                    if state_representation is not None:
                        got = outer.state
                        expected = state_representation.convert(inner.state)
                        check(
                            got.keys() == expected.keys()
                            and all(
                                got[k].dtype == expected[k].dtype
                                and np.array_equal(got[k], expected[k])
                                for k in got
                            ),
                            f'outer state ({name})',
                        )

    # missing representations raise
    outer = OuterEnv(make())
    outer.inner_env.set_seed(0)
    outer.reset()
    for attribute in ['state', 'observation']:
        try:
            getattr(outer, attribute)
        except RuntimeError:
            pass
        else:
            check(False, f'outer {attribute} without representation raises')


def check_property():
    rng = random.Random(99)
    makers = env_makers()

    for name, make in makers.items():
        check_before_reset(make)

        stateful, functional, other = make(), make(), make()

        for seed in [0, 1, 7, 2**31 + 11]:
            for reads in ['none', 'every', 'random', 'random']:
                script = random_script(rng, stateful, 25, reads=reads)

                # same instances are re-used across seeds (re-seeding)
                events_stateful = run_stateful(stateful, seed, script)
                events_functional = run_functional(functional, seed, script)
                check(
                    events_stateful == events_functional,
                    f'{name}: stateful != functional (seed {seed}, {reads})',
                )

                # a third environment, used both ways, interleaved with the
                # others in the same process
                check(
                    run_functional(other, seed, script) == events_functional
                    and run_stateful(other, seed, script) == events_stateful,
                    f'{name}: several environments in one process',
                )

                # re-seeding the same instance replays the same trajectory
                check(
                    run_stateful(stateful, seed, script) == events_stateful,
                    f'{name}: re-seeding replays',
                )

        # unseeded environments draw from the library-level generator:  same
        # guarantee, and the same trajectories as a seeded environment
        unseeded_stateful, unseeded_functional = make(), make()
        for seed in [0, 2**31 + 11]:
            script = random_script(rng, stateful, 20, reads='random')
            events = run_stateful(unseeded_stateful, seed, script, 'library')
            check(
                events
                == run_functional(unseeded_functional, seed, script, 'library'),
                f'{name}: stateful != functional (library rng, seed {seed})',
            )
            check(
                events == run_stateful(stateful, seed, script),
                f'{name}: library rng and set_seed give the same trajectory',
            )

        # observation is recomputed after every reset and step (not stale)
        env = make()
        env.set_seed(5)
        env.reset()
        for _ in range(30):
            previous = env.observation
            action = rng.choice(list(env.action_space.actions))
            if rng.random() < 0.1:
                env.reset()
            else:
                env.step(action)
            current = env.observation
            check(current is not previous, 'observation is regenerated')
            check(
                enc_agent(current.agent)[3] == enc_agent(env.state.agent)[3],
                'observation item is the item of the current state',
            )
            # the visible part of the observation agrees with the state
            area = env.state.agent.transform * env.demo_area
            reference = (
                reference_subgrid(env.state.grid, area)
                * env.state.agent.orientation
            )
            check(
                reference.shape == current.grid.shape,
                'observation shape agrees with the view area',
            )
            check(
                all(
                    type(current.grid[p]) is Hidden
                    or current.grid[p] is reference[p]
                    for p in current.grid.area.positions()
                ),
                'visible cells are the cells of the current state',
            )

        check_outer(make, 3, random_script(rng, stateful, 12, reads='random'))


def fixed_script(env, length):
    """a deterministic script:  no dependence on python's random module"""
    actions = list(env.action_space.actions)
    script = [('reset',), ('obs', 2)]
    for i in range(length):
        if i % 11 == 10:
            script.append(('reset',))
        else:
            script.append(('step', actions[(i * i + 3 * i) % len(actions)]))
        if i % 3 == 0:
            script.append(('obs', 1 + i % 2))
        if i % 4 == 1:
            script.append(('state', 1))
    script.append(('state', 1))
    script.append(('obs', 1))
    return script


def digest(events):
    return hashlib.sha256(repr(events).encode()).hexdigest()[:16]


EXPECTED_DIGESTS = {
    ('empty-4x9-random', 0): '423f9613f80b2ec5',
    ('empty-4x9-random', 12345): '13f09137e130c823',
    ('empty-4x9-random', 18446744073709551621): 'ec9db6f1e15b233c',
    ('empty-5x7-stochastic-asymmetric', 0): '1b618b529b6fefd8',
    ('empty-5x7-stochastic-asymmetric', 12345): '78b473d8504bfbcc',
    ('empty-5x7-stochastic-asymmetric', 18446744073709551621): '0c535483a6e0d66b',
    ('keydoor-6x9-stochastic', 0): '86b0c9ee5ba41b91',
    ('keydoor-6x9-stochastic', 12345): '87604ca64c8ac432',
    ('keydoor-6x9-stochastic', 18446744073709551621): 'bb5190d66d052fec',
    ('dynamic-obstacles-7x6', 0): 'ec727ad54ae2e596',
    ('dynamic-obstacles-7x6', 12345): '649a83ced1e36571',
    ('dynamic-obstacles-7x6', 18446744073709551621): 'b18fe27309384c10',
    ('four-rooms-9x11', 0): 'a966f52ce21368da',
    ('four-rooms-9x11', 12345): '387ac085c14a1deb',
    ('four-rooms-9x11', 18446744073709551621): '08140a5392bb8f94',
}


def check_seeding_of_environments():
    makers = env_makers()
    digests = {}
    for name in [
        'empty-4x9-random',
        'empty-5x7-stochastic-asymmetric',
        'keydoor-6x9-stochastic',
        'dynamic-obstacles-7x6',
        'four-rooms-9x11',
    ]:
        first, second = makers[name](), makers[name]()
        script = fixed_script(first, 40)
        for seed in [0, 12345, 2**64 + 5]:
            # two environments, same seed:  own generators, same trajectories,
            # also when their steps are interleaved
            first.set_seed(seed)
            second.set_seed(seed)
            check(
                env_rng(first) is not env_rng(second)
                and env_rng(first).bit_generator
                is not env_rng(second).bit_generator,
                'environments do not share generators',
            )
            check(
                env_rng(first) is not get_gv_rng(),
                'seeded environments do not use the library rng',
            )
            events_first, events_second = [], []
            for item in script:
                events_first.extend(run_items(first, [item]))
                events_second.extend(run_items(second, [item]))
            check(events_first == events_second, f'{name}: interleaved runs')
            check(
                events_first == run_stateful(first, seed, script),
                f'{name}: interleaved == sequential',
            )
            check(
                events_first == run_functional(second, seed, script),
                f'{name}: interleaved == functional',
            )
            digests[name, seed] = digest(events_first)

    if '--print-digests' in sys.argv:
        for key, value in digests.items():
            print(f'    {key!r}: {value!r},')
        return

    check(digests.keys() == EXPECTED_DIGESTS.keys(), 'digest keys')
    for key, value in digests.items():
        check(
            value == EXPECTED_DIGESTS[key],
            f'trajectory digest {key}: {value} != {EXPECTED_DIGESTS[key]}',
        )


def main():
    check_make_rng()
    check_library_rng()
    check_property()
    check_seeding_of_environments()
    print(f'OK ({CHECKS} checks)')


if __name__ == '__main__':
    main()
