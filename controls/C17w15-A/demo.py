"""C17 demo -- configurations build exactly the environment they describe.

Run from the worktree root:  /venv/bin/python _seed/A/demo.py

The script is self-contained: it brings its own loader for the small YAML
subset used by the shipped configuration files (PyYAML is not installed), and
its own *reference* assembly of an environment "by hand" from the named
components.  It exits 0 iff every check passes.
"""
import copy
import functools
import inspect
import itertools as itt
import os
import sys
import types
import warnings

warnings.filterwarnings('ignore')

ROOT = os.getcwd()
sys.path.insert(0, ROOT)
sys.path.insert(0, os.path.join(ROOT, 'examples'))  # custom `coin_env` module

try:  # the factory module does `import yaml`; it is only used for file loading
    import yaml  # noqa: F401
except ImportError:  # pragma: no cover
    sys.modules['yaml'] = types.ModuleType('yaml')

from schema import SchemaError  # noqa: E402

from gym_gridverse.action import Action  # noqa: E402
from gym_gridverse.envs import observation_functions as observation_fs  # noqa: E402
from gym_gridverse.envs import reset_functions as reset_fs  # noqa: E402
from gym_gridverse.envs import reward_functions as reward_fs  # noqa: E402
from gym_gridverse.envs import terminating_functions as terminating_fs  # noqa: E402
from gym_gridverse.envs import transition_functions as transition_fs  # noqa: E402
from gym_gridverse.envs import visibility_functions as visibility_fs  # noqa: E402
from gym_gridverse.envs.gridworld import GridWorld  # noqa: E402
from gym_gridverse.envs.yaml import factory as yf  # noqa: E402
from gym_gridverse.geometry import Area, Position, Shape  # noqa: E402
from gym_gridverse.grid_object import Color, grid_object_registry  # noqa: E402
from gym_gridverse.spaces import ActionSpace, ObservationSpace, StateSpace  # noqa: E402

N_CHECKS = 0


def check(condition, message):
    global N_CHECKS
    N_CHECKS += 1
    if not condition:
        print('FAIL:', message)
        sys.exit(1)


# --------------------------------------------------------------------------
# a loader for the YAML subset used by the shipped files
# --------------------------------------------------------------------------


def _scalar(text):
    text = text.strip()
    if text in ('True', 'true'):
        return True
    if text in ('False', 'false'):
        return False
    if text in ('null', '~', ''):
        return None
    try:
        return int(text)
    except ValueError:
        pass
    try:
        return float(text)
    except ValueError:
        pass
    return text


def _flow(text, i=0):
    """parses a flow sequence starting at text[i] == '['"""
    assert text[i] == '['
    i += 1
    items, token = [], ''
    while True:
        c = text[i]
        if c == '[':
            item, i = _flow(text, i)
            items.append(item)
            token = None
        elif c in ',]':
            if token is not None and token.strip():
                items.append(_scalar(token))
            token = ''
            i += 1
            if c == ']':
                return items, i
        else:
            if token is not None:
                token += c
            i += 1


def _value(text):
    text = text.strip()
    if text.startswith('['):
        value, end = _flow(text)
        assert not text[end:].strip()
        return value
    return _scalar(text)


def _block(lines, i, indent):
    """parses the block starting at lines[i] whose items have `indent`"""
    if lines[i][1].startswith('- '):
        result = []
        while i < len(lines) and lines[i][0] == indent:
            ind, text = lines[i]
            assert text.startswith('- ')
            rest = text[2:].strip()
            key, sep, _ = rest.partition(':')
            if sep and not rest.startswith('[') and ' ' not in key:
                # a mapping item: re-read it as a block indented by 2 more
                lines[i] = (indent + 2, rest)
                item, i = _block(lines, i, indent + 2)
            else:
                item, i = _value(rest), i + 1
            result.append(item)
        return result, i

    result = {}
    while i < len(lines) and lines[i][0] == indent:
        ind, text = lines[i]
        key, sep, rest = text.partition(':')
        assert sep, text
        key = key.strip()
        if rest.strip():
            result[key], i = _value(rest), i + 1
        else:
            i += 1
            if i < len(lines) and (
                lines[i][0] > indent
                or (lines[i][0] == indent and lines[i][1].startswith('- '))
            ):
                result[key], i = _block(lines, i, lines[i][0])
            else:
                result[key] = None
    return result, i


def load_yaml(path):
    lines = []
    with open(path) as f:
        for line in f:
            line = line.split('#')[0].rstrip()
            if line.strip():
                lines.append((len(line) - len(line.lstrip()), line.strip()))
    data, i = _block(lines, 0, 0)
    assert i == len(lines), path
    return data


# --------------------------------------------------------------------------
# reference: assemble the environment by hand from the named components
# --------------------------------------------------------------------------

# (registry, number of leading positional protocol parameters)
REGISTRIES = {
    'reset': (reset_fs.reset_function_registry, 0),
    'transition': (transition_fs.transition_function_registry, 2),
    'reward': (reward_fs.reward_function_registry, 3),
    'terminating': (terminating_fs.terminating_function_registry, 3),
    'observation': (observation_fs.observation_function_registry, 1),
    'visibility': (visibility_fs.visibility_function_registry, 2),
}
FACTORIES = {
    'reset': reset_fs.factory,
    'transition': transition_fs.factory,
    'reward': reward_fs.factory,
    'terminating': terminating_fs.factory,
    'observation': observation_fs.factory,
    'visibility': visibility_fs.factory,
}


def ref_accepted(kind, function):
    """(required, optional) names of the parameters a component accepts"""
    _, n_positional = REGISTRIES[kind]
    parameters = list(inspect.signature(function).parameters.values())
    parameters = [p for p in parameters[n_positional:] if p.name != 'rng']
    required = [p.name for p in parameters if p.default is p.empty]
    optional = [p.name for p in parameters if p.default is not p.empty]
    return required, optional


def ref_name(name):
    if ':' in name:
        module_name, name = name.split(':')
        __import__(module_name)
    return name


def ref_object_type(name):
    name = ref_name(name)
    matches = [t for t in grid_object_registry if t.__name__ == name]
    if not matches:
        raise ValueError(name)
    return matches[0]


def ref_distance_function(name):
    return {
        'manhattan': Position.manhattan_distance,
        'euclidean': Position.euclidean_distance,
    }[name]


def ref_parameters(data):
    """converts the parameters of a component (the reference, spelled out)"""
    out = {}
    for key, value in data.items():
        if key == 'transition_functions':
            value = [ref_component('transition', d) for d in value]
        elif key == 'reward_functions':
            value = [ref_component('reward', d) for d in value]
        elif key == 'terminating_functions':
            value = [ref_component('terminating', d) for d in value]
        elif key == 'reward_function':
            value = ref_component('reward', value)
        elif key == 'visibility_function':
            value = ref_component('visibility', value)
        elif key == 'distance_function':
            value = ref_distance_function(value)
        elif key == 'shape':
            value = Shape(value[0], value[1])
        elif key == 'layout':
            value = (value[0], value[1])
        elif key == 'area':
            value = Area((value[0][0], value[0][1]), (value[1][0], value[1][1]))
        elif key == 'object_type':
            # NB reserved key `object_type` does not import custom modules
            matches = [t for t in grid_object_registry if t.__name__ == value]
            if not matches:
                raise ValueError(value)
            value = matches[0]
        elif key == 'colors':
            value = set(Color[name] for name in value)
        out[key] = value
    return out


def ref_component(kind, data):
    registry, _ = REGISTRIES[kind]
    data = dict(data)
    name = ref_name(data.pop('name'))
    function = registry[name]
    parameters = ref_parameters(data)
    required, optional = ref_accepted(kind, function)
    for key in required:
        if key not in parameters:
            raise ValueError(key)
    kwargs = {k: v for k, v in parameters.items() if k in required + optional}
    return functools.partial(function, **kwargs)


def ref_env(data):
    state_objects = [ref_object_type(n) for n in data['state_space']['objects']]
    state_colors = [Color[n] for n in data['state_space']['colors']]
    observation_objects = [
        ref_object_type(n) for n in data['observation_space']['objects']
    ]
    observation_colors = [Color[n] for n in data['observation_space']['colors']]
    actions = (
        [Action[n] for n in data['action_space']]
        if 'action_space' in data
        else list(Action)
    )

    reset_function = ref_component('reset', data['reset_function'])
    transition_functions = [
        ref_component('transition', d) for d in data['transition_functions']
    ]
    reward_functions = [
        ref_component('reward', d) for d in data['reward_functions']
    ]
    observation_function = ref_component(
        'observation', data['observation_function']
    )
    terminating_function = ref_component(
        'terminating', data['terminating_function']
    )

    def transition_function(state, action, *, rng=None):
        for f in transition_functions:
            f(state, action, rng=rng)

    def reward_function(state, action, next_state, *, rng=None):
        return sum(
            f(state, action, next_state, rng=rng) for f in reward_functions
        )

    state = reset_function()
    observation = observation_function(state)
    return GridWorld(
        StateSpace(state.grid.shape, state_objects, state_colors),
        ActionSpace(actions),
        ObservationSpace(
            observation.grid.shape, observation_objects, observation_colors
        ),
        reset_function,
        transition_function,
        observation_function,
        reward_function,
        terminating_function,
    )


# --------------------------------------------------------------------------
# comparisons
# --------------------------------------------------------------------------


def same_spaces(env, ref):
    return (
        env.state_space.grid_shape == ref.state_space.grid_shape
        and list(env.state_space.object_types)
        == list(ref.state_space.object_types)
        and list(env.state_space.colors) == list(ref.state_space.colors)
        and list(env.action_space.actions) == list(ref.action_space.actions)
        and env.observation_space.grid_shape == ref.observation_space.grid_shape
        and list(env.observation_space.object_types)
        == list(ref.observation_space.object_types)
        and list(env.observation_space.colors)
        == list(ref.observation_space.colors)
    )


def action_sequences(actions, seed):
    import random

    r = random.Random(seed)
    yield [actions[i % len(actions)] for i in range(2 * len(actions))]
    yield [r.choice(actions) for _ in range(30)]
    forward = [a for a in actions if a.name == 'MOVE_FORWARD'] or actions[:1]
    yield [r.choice(actions + 3 * forward) for _ in range(30)]


def same_behaviour(env, ref, seeds=(0, 1, 7)):
    """lock-step comparison of two environments over seeds x action sequences"""
    for seed in seeds:
        for actions in action_sequences(list(ref.action_space.actions), seed):
            env.set_seed(seed)
            ref.set_seed(seed)
            env.reset()
            ref.reset()
            if env.state != ref.state or env.observation != ref.observation:
                return False
            for action in actions:
                r1, d1 = env.step(action)
                r2, d2 = ref.step(action)
                if (
                    r1 != r2
                    or type(r1) is not type(r2)
                    or d1 != d2
                    or env.state != ref.state
                    or env.observation != ref.observation
                ):
                    return False
                if d1:
                    env.reset()
                    ref.reset()
    return True


def rejected(data):
    """True iff building raises a schema or value error"""
    try:
        yf.factory_env_from_data(data)
    except (SchemaError, ValueError):
        return True
    return False


# --------------------------------------------------------------------------
# 1. all shipped configurations
# --------------------------------------------------------------------------

EXPECTED_SHAPES = {
    'gv_crossing.5x5.yaml': (5, 5),
    'gv_crossing.7x7.yaml': (7, 7),
    'gv_dynamic_obstacles.5x5.yaml': (5, 5),
    'gv_dynamic_obstacles.7x7.yaml': (7, 7),
    'gv_empty.4x4.yaml': (4, 4),
    'gv_empty.8x8.yaml': (8, 8),
    'gv_four_rooms.7x7.yaml': (7, 7),
    'gv_four_rooms.9x9.yaml': (9, 9),
    'gv_keydoor.5x5.yaml': (5, 5),
    'gv_keydoor.7x7.yaml': (7, 7),
    'gv_keydoor.9x9.yaml': (9, 9),
    'gv_memory.5x5.yaml': (5, 5),
    'gv_memory.9x9.yaml': (9, 9),
    'gv_memory_four_rooms.7x7.yaml': (7, 7),
    'gv_memory_four_rooms.9x9.yaml': (9, 9),
    'gv_memory_nine_rooms.10x10.yaml': (10, 10),
    'gv_memory_nine_rooms.13x13.yaml': (13, 13),
    'gv_nine_rooms.10x10.yaml': (10, 10),
    'gv_nine_rooms.13x13.yaml': (13, 13),
    'gv_teleport.5x5.yaml': (5, 5),
    'gv_teleport.7x7.yaml': (7, 7),
    'coin_env.yaml': (7, 9),
}

yaml_dir = os.path.join(ROOT, 'yaml')
packaged_dir = os.path.join(ROOT, 'gym_gridverse', 'registered_envs')
examples_dir = os.path.join(ROOT, 'examples')

yaml_files = sorted(f for f in os.listdir(yaml_dir) if f.endswith('.yaml'))
packaged_files = sorted(
    f for f in os.listdir(packaged_dir) if f.endswith('.yaml')
)
check(yaml_files == packaged_files, 'yaml/ and registered_envs/ list differ')
for filename in yaml_files:
    with open(os.path.join(yaml_dir, filename), 'rb') as f1, open(
        os.path.join(packaged_dir, filename), 'rb'
    ) as f2:
        check(f1.read() == f2.read(), f'packaged copy of {filename} differs')

try:
    from gym_gridverse.gym import STRING_TO_YAML_FILE, env_ids
except ImportError:  # gym (or pkg_resources) missing
    STRING_TO_YAML_FILE = None

if STRING_TO_YAML_FILE is not None:
    check(
        sorted(STRING_TO_YAML_FILE.values()) == packaged_files,
        'registered gym ids do not cover the packaged files',
    )
    check(env_ids == list(STRING_TO_YAML_FILE), 'env_ids')
    import gym as _gym

    for env_id, filename in STRING_TO_YAML_FILE.items():
        spec = _gym.spec(env_id)
        path = spec.kwargs['factory'].args[0]
        check(
            os.path.samefile(path, os.path.join(packaged_dir, filename)),
            f'{env_id} does not point at registered_envs/{filename}',
        )

CONFIGS = {}
for directory, filenames in [
    (yaml_dir, yaml_files),
    (packaged_dir, packaged_files),
    (examples_dir, ['coin_env.yaml']),
]:
    for filename in filenames:
        path = os.path.join(directory, filename)
        CONFIGS[path] = load_yaml(path)

for path, data in CONFIGS.items():
    filename = os.path.basename(path)
    pristine = copy.deepcopy(data)

    yf.schemas['env'].validate(data)
    check(data == pristine, f'{path}: validation changed the data')

    env = yf.factory_env_from_data(data)
    check(data == pristine, f'{path}: building changed the input data')
    env_again = yf.factory_env_from_data(data)
    check(data == pristine, f'{path}: re-building changed the input data')

    ref = ref_env(pristine)
    check(same_spaces(env, ref), f'{path}: spaces differ from hand assembly')
    check(same_spaces(env_again, ref), f'{path}: re-built spaces differ')
    check(
        env.state_space.grid_shape.as_tuple == EXPECTED_SHAPES[filename],
        f'{path}: unexpected state grid shape',
    )
    check(
        env.observation_space.grid_shape.as_tuple == (7, 7),
        f'{path}: unexpected observation grid shape',
    )
    check(
        env.action_space.num_actions == (6 if 'action_space' in data else 8),
        f'{path}: unexpected number of actions',
    )
    check(same_behaviour(env, ref), f'{path}: differs from hand assembly')
    # repeatable: the second build behaves like the first; several
    # environments in one process do not interfere; re-seeding works
    check(same_behaviour(env_again, env), f'{path}: build not repeatable')
    check(same_behaviour(env, ref, seeds=(0, 0)), f'{path}: re-seeding')

# --------------------------------------------------------------------------
# 2. variations: awkward but legal parameters
# --------------------------------------------------------------------------

base = copy.deepcopy(CONFIGS[os.path.join(yaml_dir, 'gv_keydoor.5x5.yaml')])
empty = copy.deepcopy(CONFIGS[os.path.join(yaml_dir, 'gv_empty.4x4.yaml')])
memory = copy.deepcopy(CONFIGS[os.path.join(yaml_dir, 'gv_memory.5x5.yaml')])
crossing = copy.deepcopy(
    CONFIGS[os.path.join(yaml_dir, 'gv_crossing.7x7.yaml')]
)
rooms = copy.deepcopy(
    CONFIGS[os.path.join(yaml_dir, 'gv_four_rooms.7x7.yaml')]
)

VARIATIONS = []


def variation(data, **updates):
    data = copy.deepcopy(data)
    for dotted, value in updates.items():
        target = data
        *path, last = dotted.split('__')
        for key in path:
            target = target[int(key) if key.isdigit() else key]
        if value is KeyError:
            target.pop(last, None)
        else:
            target[last] = value
    VARIATIONS.append(data)
    return data


# non-square grids, asymmetric / degenerate view areas
for shape in ([4, 4], [4, 9], [9, 4], [5, 11]):
    for area in (
        [[-6, 0], [-3, 3]],
        [[-2, 1], [-1, 3]],
        [[0, 0], [0, 0]],
        [[-1, 0], [-4, 0]],
        [[0, 3], [-2, 0]],
    ):
        for observation_name in (
            'partially_occluded',
            'fully_transparent',
            'raytracing',
        ):
            if observation_name == 'partially_occluded' and area[0][1] != 0:
                continue  # needs the agent on the bottom row of the view
            variation(
                empty,
                reset_function__shape=shape,
                reset_function__random_agent=True,
                reset_function__random_exit=True,
                observation_function__area=area,
                observation_function__name=observation_name,
            )

# from_visibility with an explicit visibility function (nested component)
for visibility_name in (
    'fully_transparent',
    'partially_occluded',
    'raytracing',
):
    variation(
        empty,
        reset_function__shape=[6, 5],
        observation_function={
            'name': 'from_visibility',
            'area': (
                [[-3, 0], [-3, 1]]
                if visibility_name == 'partially_occluded'
                else [[-3, 1], [-1, 3]]
            ),
            'visibility_function': {'name': visibility_name},
        },
    )

# nested reward / terminating components, both distance functions
variation(
    base,
    reward_functions=[
        {
            'name': 'reduce_sum',
            'reward_functions': [
                {'name': 'living_reward', 'reward': -1.0},
                {
                    'name': 'getting_closer',
                    'distance_function': 'euclidean',
                    'object_type': 'Exit',
                    'reward_closer': 0.5,
                    'reward_further': -0.25,
                },
            ],
        },
        {
            'name': 'proportional_to_distance',
            'distance_function': 'manhattan',
            'object_type': 'Exit',
            'reward_per_unit_distance': -0.1,
        },
        {'name': 'bump_into_wall', 'reward': -3.0},
    ],
    terminating_function={
        'name': 'reduce_any',
        'terminating_functions': [
            {'name': 'reach_exit'},
            {'name': 'bump_into_wall'},
        ],
    },
)
variation(
    base,
    terminating_function={
        'name': 'reduce_all',
        'terminating_functions': [
            {'name': 'reach_exit'},
            {
                'name': 'reduce_any',
                'terminating_functions': [{'name': 'bump_into_wall'}],
            },
        ],
    },
    transition_functions=[
        {
            'name': 'chain',
            'transition_functions': [
                {'name': 'move_agent'},
                {'name': 'turn_agent'},
            ],
        },
        {'name': 'actuate_door'},
        {'name': 'pickndrop'},
    ],
)
# parameters a component does not accept are ignored
variation(
    base,
    reset_function__layout=[2, 2],
    reset_function__colors=['RED'],
    reset_function__num_rivers=3,
    reset_function__unknown_parameter={'a': [1, 2]},
    terminating_function__object_type='Wall',
    observation_function__shape=[3, 3],
    transition_functions__0__distance_function='euclidean',
)
# few colours, all colours (the spaces include colour NONE)
for colors in (
    ['RED', 'GREEN'],
    ['YELLOW', 'BLUE', 'RED'],
    ['RED', 'GREEN', 'BLUE', 'YELLOW'],
):
    for shape in ([5, 7], [8, 5]):
        variation(
            memory,
            reset_function__colors=colors,
            reset_function__shape=shape,
            state_space__colors=['NONE', 'RED', 'GREEN', 'BLUE', 'YELLOW'],
            observation_space__colors=['YELLOW', 'BLUE', 'GREEN', 'RED', 'NONE'],
        )
# action spaces: default (absent), single action, reordered
variation(base, action_space=KeyError)
variation(empty, action_space=KeyError)
variation(crossing, action_space=KeyError)
variation(base, action_space=['TURN_LEFT'])
variation(base, action_space=[a.name for a in reversed(list(Action))])
# crossing with other object types and extreme numbers of rivers
variation(crossing, reset_function__object_type='Wall')
variation(crossing, reset_function__num_rivers=2)
variation(
    crossing,
    reset_function__shape=[9, 5],
    reset_function__num_rivers=1,
)
variation(rooms, reset_function__shape=[7, 13], reset_function__layout=[1, 3])
variation(rooms, reset_function__shape=[13, 4], reset_function__layout=[3, 1])

for index, data in enumerate(VARIATIONS):
    pristine = copy.deepcopy(data)
    env = yf.factory_env_from_data(data)
    check(data == pristine, f'variation {index}: input data changed')
    ref = ref_env(pristine)
    check(same_spaces(env, ref), f'variation {index}: spaces differ')
    check(
        same_behaviour(env, ref, seeds=(0, 3)),
        f'variation {index}: differs from hand assembly',
    )
    env_again = yf.factory_env_from_data(data)
    check(
        same_behaviour(env_again, env, seeds=(5,)),
        f'variation {index}: not repeatable',
    )

# --------------------------------------------------------------------------
# 3. systematic corruptions are rejected
# --------------------------------------------------------------------------

SECTIONS = [
    ('reset_function', None),
    ('observation_function', None),
    ('terminating_function', None),
    ('transition_functions', 0),
    ('transition_functions', -1),
    ('reward_functions', 0),
    ('reward_functions', -1),
]
BAD_SHAPES = [[5], [5, 5, 5], [0, 5], [5, -1], ['5', 5], [5.0, 5], [], 5, None]
BAD_COLORS = [
    [],
    ['PURPLE'],
    ['red'],
    ['RED', 'RED'],
    'RED',
    [0],
    ['NONE', None],
    None,
]
BAD_ACTIONS = [
    [],
    ['JUMP'],
    ['move_forward'],
    ['TURN_LEFT', 'TURN_LEFT'],
    'TURN_LEFT',
    [0],
    None,
]
BAD_OBJECTS = [[], ['Unicorn'], ['Wall', 'Wall'], [None], 'Wall', None]

n_corruptions = 0
for path, data in CONFIGS.items():
    if os.path.dirname(path) == packaged_dir:
        continue  # identical to yaml/

    corruptions = []

    def corrupt(mutate):
        corrupted = copy.deepcopy(data)
        mutate(corrupted)
        corruptions.append(corrupted)

    # unknown component names, component without name, non-dict component
    for section, index in SECTIONS:
        for bad in (
            {'name': 'no_such_component'},
            {'name': ''},
            {'name': None},
            {'name': 7},
            {},
            'move_agent',
            None,
            ['move_agent'],
        ):

            def mutate(d, section=section, index=index, bad=bad):
                if index is not None:
                    d[section][index] = bad
                elif isinstance(bad, dict) and 'name' in bad:
                    d[section]['name'] = bad['name']  # keeps the parameters
                else:
                    d[section] = bad

            corrupt(mutate)

    # missing top-level sections, unknown top-level section, empty lists
    for key in list(data):
        if key != 'action_space':
            corrupt(lambda d, key=key: d.pop(key))
    corrupt(lambda d: d.update(unknown_section=1))
    corrupt(lambda d: d.update(transition_functions=[]))
    corrupt(lambda d: d.update(reward_functions=[]))
    corrupt(lambda d: d.update(transition_functions={'name': 'move_agent'}))

    # missing required parameters
    for key in list(data['reset_function']):
        if key not in ('name', 'random_agent', 'random_exit'):
            corrupt(lambda d, key=key: d['reset_function'].pop(key))
    corrupt(lambda d: d['observation_function'].pop('area'))
    for index, reward in enumerate(data['reward_functions']):
        if reward['name'] == 'getting_closer':
            for key in ('object_type',):  # (distance_function has a default)
                corrupt(
                    lambda d, index=index, key=key: d['reward_functions'][
                        index
                    ].pop(key)
                )
            corrupt(
                lambda d, index=index: d['reward_functions'][index].update(
                    distance_function='chebyshev'
                )
            )
            corrupt(
                lambda d, index=index: d['reward_functions'][index].update(
                    object_type='Unicorn'
                )
            )

    # malformed shapes, colours, actions, objects
    if 'shape' in data['reset_function']:
        for bad in BAD_SHAPES:
            corrupt(lambda d, bad=bad: d['reset_function'].update(shape=bad))
    if 'layout' in data['reset_function']:
        for bad in BAD_SHAPES:
            corrupt(lambda d, bad=bad: d['reset_function'].update(layout=bad))
    if 'colors' in data['reset_function']:
        for bad in BAD_COLORS:
            corrupt(lambda d, bad=bad: d['reset_function'].update(colors=bad))
    for space in ('state_space', 'observation_space'):
        for bad in BAD_COLORS:
            corrupt(lambda d, bad=bad, space=space: d[space].update(colors=bad))
        for bad in BAD_OBJECTS:
            corrupt(
                lambda d, bad=bad, space=space: d[space].update(objects=bad)
            )
        corrupt(lambda d, space=space: d[space].pop('colors'))
        corrupt(lambda d, space=space: d[space].pop('objects'))
        corrupt(lambda d, space=space: d[space].update(shape=[3, 3]))
    for bad in BAD_ACTIONS:
        corrupt(lambda d, bad=bad: d.update(action_space=bad))

    # well-formed but illegal values are rejected by the reset function
    if data['reset_function']['name'] == 'crossing':
        corrupt(lambda d: d['reset_function'].update(num_rivers=0))
        corrupt(lambda d: d['reset_function'].update(shape=[6, 7]))
    if data['reset_function']['name'] == 'memory':
        corrupt(lambda d: d['reset_function'].update(colors=['RED']))
        corrupt(lambda d: d['reset_function'].update(colors=['NONE', 'RED']))
    if data['reset_function']['name'] == 'empty':
        corrupt(lambda d: d['reset_function'].update(shape=[3, 8]))
    corrupt(lambda d: d['observation_function'].update(area=[[0, -1], [0, 0]]))
    corrupt(lambda d: d['observation_function'].update(area=[[-2, 0], [-1, 2]]))

    for index, corrupted in enumerate(corruptions):
        snapshot = copy.deepcopy(corrupted)
        check(
            rejected(corrupted),
            f'{path}: corruption {index} was not rejected: {corrupted}',
        )
        check(corrupted == snapshot, f'{path}: corruption {index} mutated')
        n_corruptions += 1

# rejection has no lasting effect: the pristine data still builds the same
for path, data in list(CONFIGS.items())[:3]:
    check(
        same_behaviour(
            yf.factory_env_from_data(data), ref_env(data), seeds=(11,)
        ),
        f'{path}: differs after the corruptions',
    )

# --------------------------------------------------------------------------
# 4. components by name with parameters
# --------------------------------------------------------------------------


class Sentinel:
    def __init__(self, name):
        self.name = name

    def __repr__(self):
        return f'Sentinel({self.name})'


n_components = 0
for kind, (registry, _) in REGISTRIES.items():
    factory = FACTORIES[kind]
    for name, function in list(registry.items()):
        required, optional = ref_accepted(kind, function)
        sentinels = {key: Sentinel(key) for key in required + optional}
        extras = {'no_such_parameter': Sentinel('extra'), 'rng_': 1}

        parameter_sets = [dict(sentinels), dict(sentinels, **extras)]
        parameter_sets.append({key: sentinels[key] for key in required})
        parameter_sets.append(
            dict({key: sentinels[key] for key in required}, **extras)
        )
        for key in optional:
            parameter_sets.append(
                {k: v for k, v in sentinels.items() if k != key}
            )
        # reversed keyword order
        parameter_sets.append(dict(reversed(list(sentinels.items()))))

        for parameters in parameter_sets:
            snapshot = dict(parameters)
            component = factory(name, **parameters)
            check(parameters == snapshot, f'{kind}:{name} changed parameters')
            check(
                isinstance(component, functools.partial)
                and component.func is function
                and component.args == (),
                f'{kind}:{name} is not the underlying function',
            )
            expected = {
                k: v for k, v in parameters.items() if k in required + optional
            }
            check(
                component.keywords == expected
                and list(component.keywords) == list(expected),
                f'{kind}:{name} keywords {component.keywords} != {expected}',
            )

        # each missing required parameter is rejected with a ValueError
        for key in required:
            parameters = {k: v for k, v in sentinels.items() if k != key}
            try:
                factory(name, **parameters)
            except ValueError as error:
                check(key in str(error), f'{kind}:{name} message {error}')
            else:
                check(False, f'{kind}:{name} accepted without `{key}`')
        if required:
            try:
                factory(name)
            except ValueError as error:
                # the first missing one, in signature order, is reported
                check(
                    required[0] in str(error),
                    f'{kind}:{name} message {error}',
                )
            else:
                check(False, f'{kind}:{name} accepted without parameters')
        n_components += 1

    for bad_name in ('no_such_component', '', 'Chain', ' chain', 'factory'):
        try:
            factory(bad_name)
        except ValueError:
            check(True, '')
        else:
            check(False, f'{kind}: name `{bad_name}` accepted')

# behaviour: a component by name is the function called with the parameters
state = reset_fs.factory('keydoor', shape=Shape(6, 9))()
next_state = copy.deepcopy(state)
transition_fs.factory('move_agent')(next_state, Action.MOVE_FORWARD)
for reward in (-2.5, 0.0, 3):
    component = reward_fs.factory('living_reward', reward=reward, ignored=1)
    value = component(state, Action.MOVE_FORWARD, next_state)
    check(
        value == reward_fs.living_reward(
            state, Action.MOVE_FORWARD, next_state, reward=reward
        )
        == reward,
        'living_reward',
    )
for area in (Area((-2, 0), (-1, 3)), Area((0, 0), (0, 0))):
    component = observation_fs.factory('partially_occluded', area=area)
    check(
        component(state)
        == observation_fs.partially_occluded(state, area=area),
        'partially_occluded',
    )
    check(component(state).grid.shape == Shape(area.height, area.width), 'area')

# --------------------------------------------------------------------------
# 5. conversion of the reserved parameter keys (`process_reserved_keys`)
# --------------------------------------------------------------------------


def same_value(a, b):
    """structural equality of converted parameter values"""
    if isinstance(a, functools.partial) or isinstance(b, functools.partial):
        return (
            isinstance(a, functools.partial)
            and isinstance(b, functools.partial)
            and a.func is b.func
            and a.args == b.args
            and list(a.keywords) == list(b.keywords)
            and all(same_value(a.keywords[k], b.keywords[k]) for k in a.keywords)
        )
    if isinstance(a, Area) or isinstance(b, Area):
        return (
            isinstance(a, Area)
            and isinstance(b, Area)
            and tuple(a.ys) == tuple(b.ys)
            and tuple(a.xs) == tuple(b.xs)
        )
    if type(a) is not type(b):
        return False
    if isinstance(a, (list, tuple)):
        return len(a) == len(b) and all(map(same_value, a, b))
    if isinstance(a, dict):
        return list(a) == list(b) and all(same_value(a[k], b[k]) for k in a)
    return a == b


RESERVED_SAMPLES = {
    'transition_functions': [
        [{'name': 'move_agent'}],
        [
            {'name': 'turn_agent'},
            {
                'name': 'chain',
                'transition_functions': [{'name': 'teleport'}],
            },
        ],
        [],
    ],
    'reward_functions': [
        [{'name': 'living_reward', 'reward': 2}],
        [
            {'name': 'reach_exit', 'reward_on': 1.5, 'junk': [1]},
            {
                'name': 'reduce_sum',
                'reward_functions': [
                    {'name': 'pickndrop', 'object_type': 'Key'}
                ],
            },
        ],
        [],
    ],
    'terminating_functions': [
        [{'name': 'reach_exit'}, {'name': 'bump_into_wall'}],
        [],
    ],
    'reward_function': [
        {'name': 'overlap', 'object_type': 'Exit', 'reward_on': 3.0},
    ],
    'distance_function': ['manhattan', 'euclidean'],
    'visibility_function': [
        {'name': 'raytracing', 'threshold': 2, 'absolute_counts': False},
        {'name': 'fully_transparent', 'threshold': 2},
    ],
    'shape': [[1, 1], [4, 9], [13, 2]],
    'layout': [[1, 1], [3, 2]],
    'area': [[[-6, 0], [-3, 3]], [[0, 0], [0, 0]], [[-1, 2], [0, 5]]],
    'object_type': ['Wall', 'Floor', 'MovingObstacle', 'Coin'],
    'colors': [['NONE'], ['RED', 'NONE'], ['YELLOW', 'BLUE', 'GREEN', 'RED']],
}
RESERVED_ORDER = list(RESERVED_SAMPLES)

# each key alone, with unrelated keys around it (kept as they are, in place)
other = {'a': [1, 2]}
for key, samples in RESERVED_SAMPLES.items():
    for sample in samples:
        for layout_of_keys in (
            lambda: {key: copy.deepcopy(sample)},
            lambda: {'num_rivers': 3, key: copy.deepcopy(sample), 'other': other},
            lambda: {'other': other, 'name_': 'x', key: copy.deepcopy(sample)},
        ):
            data = layout_of_keys()
            keys_before = list(data)
            expected = ref_parameters(layout_of_keys())
            result = yf.process_reserved_keys(data)
            check(result is None, 'process_reserved_keys works in place')
            check(list(data) == keys_before, f'{key}: key order changed')
            check(same_value(data, expected), f'{key}: {data} != {expected}')
            if 'other' in data:
                check(data['other'] is other, 'unrelated value was replaced')

# all keys together, and all pairs of keys, in both insertion orders
firsts = {key: samples[0] for key, samples in RESERVED_SAMPLES.items()}
lasts = {key: samples[-1] for key, samples in RESERVED_SAMPLES.items()}
combos = [list(firsts.items()), list(reversed(list(lasts.items())))]
for k1, k2 in itt.permutations(RESERVED_ORDER, 2):
    combos.append([(k1, firsts[k1]), ('x', 1), (k2, lasts[k2])])
for combo in combos:
    data = copy.deepcopy(dict(combo))
    expected = ref_parameters(copy.deepcopy(dict(combo)))
    yf.process_reserved_keys(data)
    check(list(data) == [k for k, _ in combo], 'key order changed')
    check(same_value(data, expected), f'{data} != {expected}')

# no reserved key: nothing happens (empty dict included)
for data in ({}, {'x': 1, 'reward': -1.0, 'num_rivers': 2}):
    snapshot = copy.deepcopy(data)
    yf.process_reserved_keys(data)
    check(data == snapshot, 'non-reserved parameters changed')

# invalid values: which error wins is decided by the fixed conversion order,
# not by the order of the keys in the data
BAD = {
    'transition_functions': ([{'name': 'nope'}], ValueError),
    'reward_functions': ([{'name': 'reach_exit'}, {'noname': 1}], SchemaError),
    'terminating_functions': ([{'name': 'overlap'}], ValueError),  # no object_type
    'reward_function': ({'name': 'nope'}, ValueError),
    'distance_function': ('chebyshev', SchemaError),
    'visibility_function': ({'name': 'nope'}, ValueError),
    'object_type': ('Unicorn', ValueError),
    'colors': (['PURPLE'], SchemaError),
}
for key, (bad, error_type) in BAD.items():
    try:
        yf.process_reserved_keys({key: copy.deepcopy(bad)})
    except error_type:
        check(True, '')
    else:
        check(False, f'bad `{key}` accepted')

for k1, k2 in itt.permutations(BAD, 2):
    first = min(k1, k2, key=RESERVED_ORDER.index)
    data = {k1: copy.deepcopy(BAD[k1][0]), k2: copy.deepcopy(BAD[k2][0])}
    try:
        yf.process_reserved_keys(data)
    except (SchemaError, ValueError) as error:
        check(
            type(error) is BAD[first][1]
            or isinstance(error, BAD[first][1]),
            f'{k1},{k2}: wrong error {error!r}',
        )
        # keys converted after the failing one are still untouched
        later = k2 if first == k1 else k1
        check(data[later] == BAD[later][0], f'{later} converted after failure')
    else:
        check(False, f'bad `{k1}`, `{k2}` accepted')

# the custom-module prefix is NOT understood by the reserved `object_type` key
try:
    yf.process_reserved_keys({'object_type': 'coin_env:Coin'})
except ValueError:
    check(True, '')
else:
    check(False, 'reserved object_type imported a custom module')

print(
    f'ok: {N_CHECKS} checks, {len(CONFIGS)} configurations, '
    f'{len(VARIATIONS)} variations, {n_corruptions} corruptions, '
    f'{n_components} components'
)
