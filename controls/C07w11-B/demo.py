"""Demo for change B (Grid.subgrid splits the columns once per call).

Run from the worktree root:  /venv/bin/python _seed/B/demo.py

Exits 0 on the pristine tree and with the patch applied.  Checks

1. Grid.subgrid against a reference written here cell by cell, on a sweep of
   areas (inside, straddling each border, larger than the grid, entirely
   outside on each side, single cells, 1xN and Nx1 grids): shape, identity of
   the objects inside, one fresh Hidden per outside cell, no row sharing;
2. property C07: for a broad set of states, all four quarter turns of the
   whole world, many view areas and every deterministic built-in observation
   function, the observation does not change; and it equals a reference
   observation computed in this file cell by cell.
"""
import itertools as itt
import os
import random
import sys

import numpy as np

# run from the worktree root:  make `import gym_gridverse` pick up the worktree
sys.path.insert(0, os.getcwd())

from gym_gridverse.agent import Agent
from gym_gridverse.envs.observation_functions import (
    fully_transparent,
    observation_function_registry,
    partially_occluded,
    raytracing,
    stochastic_raytracing,
)
from gym_gridverse.envs.visibility_functions import visibility_function_registry
from gym_gridverse.geometry import Area, Orientation, Position, Transform
from gym_gridverse.grid import Grid
from gym_gridverse.grid_object import (
    Beacon,
    Box,
    Color,
    Door,
    Exit,
    Floor,
    Hidden,
    Key,
    MovingObstacle,
    NoneGridObject,
    Telepod,
    Wall,
)
from gym_gridverse.state import State

CHECKS = 0


def check(condition, message):
    global CHECKS
    CHECKS += 1
    if not condition:
        print('FAIL:', message)
        sys.exit(1)


# ---------------------------------------------------------------------------
# reference geometry, plain integers
# ---------------------------------------------------------------------------

ORIENTATIONS = [Orientation.F, Orientation.R, Orientation.B, Orientation.L]
# quarter turns clockwise (as seen on screen, y pointing down)
CLOCKWISE = {
    Orientation.F: Orientation.R,
    Orientation.R: Orientation.B,
    Orientation.B: Orientation.L,
    Orientation.L: Orientation.F,
}


def ref_rotate_point(orientation, y, x):
    """agent-frame offset (y, x) -> world-frame offset, agent facing `orientation`"""
    if orientation is Orientation.F:
        return y, x
    if orientation is Orientation.B:
        return -y, -x
    if orientation is Orientation.R:
        return x, -y
    if orientation is Orientation.L:
        return -x, y
    raise AssertionError


def ref_rotate_area(orientation, ys, xs):
    points = [
        ref_rotate_point(orientation, y, x)
        for y in range(ys[0], ys[1] + 1)
        for x in range(xs[0], xs[1] + 1)
    ]
    pys, pxs = zip(*points)
    return (min(pys), max(pys)), (min(pxs), max(pxs))


def ref_subgrid(rows, ys, xs):
    """reference slice of a list of rows: (row, column) pairs, None outside"""
    height, width = len(rows), len(rows[0])
    return [
        [
            (y, x) if 0 <= y < height and 0 <= x < width else None
            for x in range(xs[0], xs[1] + 1)
        ]
        for y in range(ys[0], ys[1] + 1)
    ]


def check_subgrid():
    rnd = random.Random(77)
    for height, width in [(1, 1), (1, 4), (3, 1), (2, 3), (4, 6)]:
        rows = [
            [make_object(random_spec(rnd)) for _ in range(width)]
            for _ in range(height)
        ]
        grid = Grid([list(row) for row in rows])
        before = [list(row) for row in grid.objects]

        bounds_y = sorted({-9, -2, -1, 0, 1, height - 2, height - 1, height, height + 1, 12})
        bounds_x = sorted({-9, -2, -1, 0, 1, width - 2, width - 1, width, width + 1, 12})
        intervals_y = [(a, b) for a in bounds_y for b in bounds_y if a <= b]
        intervals_x = [(a, b) for a in bounds_x for b in bounds_x if a <= b]
        for ys, xs in itt.product(intervals_y, intervals_x):
            if (ys[1] - ys[0] + 1) * (xs[1] - xs[0] + 1) > 200:
                continue
            area = Area(ys, xs)
            sub = grid.subgrid(area)
            expected = ref_subgrid(rows, ys, xs)

            check(type(sub) is Grid, 'subgrid is a Grid')
            check(
                sub.shape.as_tuple == (area.height, area.width),
                f'{area}: shape {sub.shape}',
            )
            check(
                sub.area == Area((0, area.height - 1), (0, area.width - 1)),
                'area of the subgrid',
            )
            check(type(sub.objects) is list, 'list of rows')
            check(len(sub.objects) == area.height, 'number of rows')
            seen_hidden = set()
            for row, exp_row in zip(sub.objects, expected):
                check(type(row) is list, 'rows are lists')
                check(len(row) == area.width, f'{area}: row length')
                for obj, exp in zip(row, exp_row):
                    if exp is None:
                        check(type(obj) is Hidden, f'{area}: Hidden outside')
                        # every outside cell gets an object of its own
                        check(id(obj) not in seen_hidden, 'fresh Hidden')
                        seen_hidden.add(id(obj))
                    else:
                        # inside cells are the very objects of the grid
                        check(obj is rows[exp[0]][exp[1]], f'{area}: object')

            # rows of the slice are not rows of the grid:  writing to the
            # slice leaves the grid alone
            for row in sub.objects:
                check(all(row is not r for r in grid.objects), 'row sharing')
            sub[0, 0] = Wall()
            check(
                all(
                    a is b
                    for ra, rb in zip(grid.objects, before)
                    for a, b in zip(ra, rb)
                )
                and [len(r) for r in grid.objects] == [width] * height,
                'grid untouched',
            )

            # the slice at the grid's own area is an equal grid
            if (ys, xs) == ((0, height - 1), (0, width - 1)):
                check(grid.subgrid(area) == grid, 'full slice')

    # a slice of a slice is the slice at the composed area
    grid = Grid(
        [[make_object(random_spec(rnd)) for _ in range(5)] for _ in range(4)]
    )
    outer = Area((-2, 4), (1, 7))
    inner = Area((1, 5), (0, 3))  # within the outer slice
    composed = Area((-2 + 1, -2 + 5), (1 + 0, 1 + 3))
    check(
        grid.subgrid(outer).subgrid(inner) == grid.subgrid(composed),
        'slice of a slice',
    )

    # rows given as tuples are sliced just as well
    grid = Grid([(Wall(), Floor(), Key(Color.RED)), (Floor(), Wall(), Floor())])
    sub = grid.subgrid(Area((-1, 1), (1, 3)))
    check(
        [[type(o).__name__ for o in row] for row in sub.objects]
        == [
            ['Hidden', 'Hidden', 'Hidden'],
            ['Floor', 'Key', 'Hidden'],
            ['Wall', 'Floor', 'Hidden'],
        ],
        'tuple rows',
    )

# ---------------------------------------------------------------------------
# worlds
# ---------------------------------------------------------------------------

COLORS = list(Color)


def make_object(spec):
    kind = spec[0]
    if kind == 'floor':
        return Floor()
    if kind == 'wall':
        return Wall()
    if kind == 'exit':
        return Exit(spec[1])
    if kind == 'door':
        return Door(spec[1], spec[2])
    if kind == 'key':
        return Key(spec[1])
    if kind == 'obstacle':
        return MovingObstacle()
    if kind == 'box':
        return Box(make_object(spec[1]))
    if kind == 'telepod':
        return Telepod(spec[1])
    if kind == 'beacon':
        return Beacon(spec[1])
    if kind == 'hidden':
        return Hidden()
    if kind == 'none':
        return NoneGridObject()
    raise AssertionError(kind)


def random_spec(rnd):
    r = rnd.random()
    if r < 0.40:
        return ('floor',)
    if r < 0.62:
        return ('wall',)
    kind = rnd.choice(
        ['exit', 'door', 'key', 'obstacle', 'box', 'telepod', 'beacon', 'hidden']
    )
    if kind in ('exit', 'key', 'telepod', 'beacon'):
        return (kind, rnd.choice(COLORS))
    if kind == 'door':
        return (kind, rnd.choice(list(Door.Status)), rnd.choice(COLORS))
    if kind == 'box':
        return (kind, rnd.choice([('floor',), ('key', Color.NONE), ('wall',)]))
    return (kind,)


def rotate_world_clockwise(specs, agent):
    """one quarter turn of the whole world, on plain data

    specs: list of rows of object specs;  agent: (y, x, orientation, held)
    cell (y, x) of an H x W world moves to (x, H - 1 - y) of a W x H world.
    """
    height, width = len(specs), len(specs[0])
    rotated = [[None] * height for _ in range(width)]
    for y in range(height):
        for x in range(width):
            rotated[x][height - 1 - y] = specs[y][x]
    y, x, orientation, held = agent
    return rotated, (x, height - 1 - y, CLOCKWISE[orientation], held)


def build_state(specs, agent):
    grid = Grid([[make_object(spec) for spec in row] for row in specs])
    y, x, orientation, held = agent
    return State(
        grid,
        Agent(
            Position(y, x),
            orientation,
            None if held is None else make_object(held),
        ),
    )


def signature_object(obj):
    return (type(obj).__name__, obj.state_index, obj.color)


def signature(observation):
    grid = observation.grid
    cells = tuple(
        tuple(
            signature_object(grid[y, x]) for x in range(grid.shape.width)
        )
        for y in range(grid.shape.height)
    )
    agent = observation.agent
    return (
        cells,
        agent.position.yx,
        agent.orientation,
        signature_object(agent.grid_object),
    )


def reference_view(specs, agent, area_ys, area_xs):
    """egocentric view, cell by cell, nothing hidden but the outside"""
    height, width = len(specs), len(specs[0])
    ay, ax, orientation, _ = agent
    rows = []
    for ry in range(area_ys[0], area_ys[1] + 1):
        row = []
        for rx in range(area_xs[0], area_xs[1] + 1):
            dy, dx = ref_rotate_point(orientation, ry, rx)
            wy, wx = ay + dy, ax + dx
            inside = 0 <= wy < height and 0 <= wx < width
            row.append(make_object(specs[wy][wx]) if inside else Hidden())
        rows.append(row)
    return rows


def outcome(function, state, area, **kwargs):
    try:
        return 'ok', function(state, area=area, **kwargs)
    except (ValueError, NotImplementedError, IndexError) as error:
        return type(error).__name__, None


AREAS = [
    # (ys, xs), agent frame:  the usual ones
    ((-6, 0), (-3, 3)),
    ((-2, 0), (-1, 1)),
    # asymmetric, agent on the bottom row
    ((-3, 0), (-1, 2)),
    ((-1, 0), (-4, 0)),
    ((-4, 0), (0, 0)),
    # a single cell
    ((0, 0), (0, 0)),
    # agent strictly inside / behind included
    ((-2, 1), (-2, 1)),
    ((-1, 3), (-1, 0)),
    # area which does not contain the agent at all
    ((-4, -2), (1, 3)),
    ((2, 3), (-5, -4)),
]

FUNCTIONS = [
    ('fully_transparent', fully_transparent, 'fully_transparent'),
    ('partially_occluded', partially_occluded, 'partially_occluded'),
    ('raytracing', raytracing, 'raytracing'),
]


def check_world(specs, agent):
    # the four rotated copies of the world
    worlds = [(specs, agent)]
    for _ in range(3):
        worlds.append(rotate_world_clockwise(*worlds[-1]))
    # a fourth quarter turn is the identity
    again = rotate_world_clockwise(*worlds[-1])
    check(again == worlds[0], 'four quarter turns')

    for area_ys, area_xs in AREAS:
        area = Area(area_ys, area_xs)
        for name, function, visibility_name in FUNCTIONS:
            results = []
            for w_specs, w_agent in worlds:
                state = build_state(w_specs, w_agent)
                before = signature_grid(state.grid)
                kind, observation = outcome(function, state, area)
                # repeated call, same result;  state untouched
                kind2, observation2 = outcome(function, state, area)
                check(kind == kind2, 'repeatable outcome')
                check(signature_grid(state.grid) == before, 'state untouched')
                check(
                    state.agent.position.yx == (w_agent[0], w_agent[1])
                    and state.agent.orientation is w_agent[2],
                    'agent untouched',
                )
                if kind == 'ok':
                    check(observation == observation2, 'repeatable observation')
                    check(
                        signature(observation) == signature(observation2),
                        'repeatable signature',
                    )
                results.append((kind, observation, w_specs, w_agent))

            kinds = {kind for kind, *_ in results}
            check(
                len(kinds) == 1,
                f'{name} {area}: outcomes differ across rotations: {kinds}',
            )
            if kinds != {'ok'}:
                continue

            first = results[0][1]
            for kind, observation, w_specs, w_agent in results:
                # C07 proper
                check(
                    observation == first and first == observation,
                    f'{name} {area} agent={w_agent[:3]}: observation changed',
                )
                check(
                    signature(observation) == signature(first),
                    f'{name} {area} agent={w_agent[:3]}: signature changed',
                )
                check(hash(observation.grid) == hash(first.grid), 'hash')

                # reference, computed here
                view = Grid(reference_view(w_specs, w_agent, area_ys, area_xs))
                pov = Position(-area_ys[0], -area_xs[0])
                visibility = visibility_function_registry[visibility_name](
                    view, pov
                )
                for y in range(area.height):
                    for x in range(area.width):
                        if not visibility[y, x]:
                            view[y, x] = Hidden()
                check(
                    (observation.grid.shape.height, observation.grid.shape.width)
                    == (area.height, area.width),
                    'shape of the observation',
                )
                check(observation.grid == view, f'{name} {area}: reference grid')
                check(
                    signature(observation)[0]
                    == tuple(
                        tuple(signature_object(o) for o in row)
                        for row in view.objects
                    ),
                    f'{name} {area}: reference signature',
                )
                check(observation.agent.position == pov, 'pov position')
                check(observation.agent.orientation is Orientation.F, 'pov F')

        # seeded stochastic function: same stream, same observation
        sigs = set()
        kinds = set()
        for w_specs, w_agent in worlds:
            state = build_state(w_specs, w_agent)
            kind, observation = outcome(
                stochastic_raytracing,
                state,
                area,
                rng=np.random.default_rng(1234),
            )
            kinds.add(kind)
            if kind == 'ok':
                sigs.add(signature(observation))
        check(len(kinds) == 1 and len(sigs) <= 1, 'seeded stochastic raytracing')


def signature_grid(grid):
    return tuple(
        tuple(signature_object(obj) for obj in row) for row in grid.objects
    )


def main():
    check(
        {'fully_transparent', 'partially_occluded', 'raytracing'}
        <= set(observation_function_registry.keys()),
        'built-in observation functions registered',
    )

    check_subgrid()

    rnd = random.Random(20240607)
    shapes = [(1, 1), (1, 5), (4, 1), (2, 3), (5, 4), (3, 7)]
    n_worlds = 0
    for height, width in shapes:
        # corners, borders, inside
        spots = {
            (0, 0),
            (0, width - 1),
            (height - 1, 0),
            (height - 1, width - 1),
            (height // 2, width // 2),
            (0, width // 2),
            (height // 2, 0),
        }
        specs = [
            [random_spec(rnd) for _ in range(width)] for _ in range(height)
        ]
        for (y, x), orientation in itt.product(sorted(spots), ORIENTATIONS):
            held = rnd.choice([None, ('key', Color.NONE), ('key', Color.BLUE)])
            check_world(specs, (y, x, orientation, held))
            n_worlds += 1

    # an all-floor and an all-wall world
    for spec in [('floor',), ('wall',)]:
        specs = [[spec] * 3 for _ in range(2)]
        for orientation in ORIENTATIONS:
            check_world(specs, (1, 2, orientation, None))
            n_worlds += 1

    print(f'ok: {n_worlds} worlds x 4 rotations, {CHECKS} checks')


if __name__ == '__main__':
    main()
