"""Demo for change A (transition_functions.move_obstacles / teleport).

Run from the worktree root:  /venv/bin/python _seed/A/demo.py

Exits 0 both on the pristine tree and with the patch applied.  It checks

1. the library `move_obstacles` and `teleport` against reference
   implementations embedded here (the pristine spelling: draw an index with
   `rng.choice(len(candidates))`, treat ValueError as "no candidates"):  same
   resulting state AND same generator state afterwards, on hand-made awkward
   grids (boxed-in obstacles, obstacles on borders/corners of wall-less grids,
   1xN / Nx1 grids, no obstacles at all, lone telepods, several twins, mixed
   colours) and on many random grids;
2. property C02 on whole environments built through the Python API: same seed
   => same trajectory (states, observations, rewards, dones), with the library
   transition functions and with the reference ones giving the very same
   trajectory;  interleaving of several live environments;  re-seeding;  debug
   flag on/off;  no global random source touched;  other interpreter processes
   with different PYTHONHASHSEED values.
"""
import hashlib
import os
import random
import subprocess
import sys
from functools import partial

sys.path.insert(0, os.getcwd())

import numpy as np  # noqa: E402
import numpy.random as rnd  # noqa: E402

import gym_gridverse.rng as gv_rng_module  # noqa: E402
from gym_gridverse.action import Action  # noqa: E402
from gym_gridverse.agent import Agent  # noqa: E402
from gym_gridverse.debugging import reset_gv_debug  # noqa: E402
from gym_gridverse.envs import (  # noqa: E402
    observation_functions,
    reset_functions,
    reward_functions,
    terminating_functions,
    transition_functions,
)
from gym_gridverse.envs.gridworld import GridWorld  # noqa: E402
from gym_gridverse.geometry import (  # noqa: E402
    Orientation,
    Position,
    Shape,
    get_manhattan_boundary,
)
from gym_gridverse.grid import Grid  # noqa: E402
from gym_gridverse.grid_object import (  # noqa: E402
    Color,
    Exit,
    Floor,
    MovingObstacle,
    Telepod,
    Wall,
)
from gym_gridverse.spaces import (  # noqa: E402
    ActionSpace,
    ObservationSpace,
    StateSpace,
)
from gym_gridverse.state import State  # noqa: E402
from gym_gridverse.utils.fast_copy import fast_copy  # noqa: E402

# ---------------------------------------------------------------------------
# reference implementations (pristine spelling)
# ---------------------------------------------------------------------------


def ref_move_obstacles(state, action, *, rng=None):
    rng = gv_rng_module.get_gv_rng_if_none(rng)

    positions = [
        position
        for position in state.grid.area.positions()
        if isinstance(state.grid[position], MovingObstacle)
    ]

    for position in positions:
        next_positions = [
            next_position
            for next_position in get_manhattan_boundary(position, distance=1)
            if state.grid.area.contains(next_position)
            and isinstance(state.grid[next_position], Floor)
        ]

        try:
            i = rng.choice(len(next_positions))
        except ValueError:
            pass
        else:
            next_position = next_positions[i]
            state.grid.swap(position, next_position)


def ref_teleport(state, action, *, rng=None):
    rng = gv_rng_module.get_gv_rng_if_none(rng)

    telepod = state.grid[state.agent.position]

    if isinstance(telepod, Telepod):
        positions = [
            position
            for position in state.grid.area.positions()
            if position != state.agent.position
            and isinstance(state.grid[position], Telepod)
            and state.grid[position].color == telepod.color
        ]
        try:
            i = rng.choice(len(positions))
        except ValueError:
            pass
        else:
            state.agent.position = positions[i]


# ---------------------------------------------------------------------------
# helpers
# ---------------------------------------------------------------------------

_CHARS = {
    '.': Floor,
    '#': Wall,
    'O': MovingObstacle,
    'E': Exit,
    'r': partial(Telepod, Color.RED),
    'b': partial(Telepod, Color.BLUE),
    'g': partial(Telepod, Color.GREEN),
}


def grid_from_ascii(rows):
    return Grid([[_CHARS[c]() for c in row] for row in rows])


def obj_key(obj):
    return (type(obj).__name__, obj.state_index, obj.color.name)


def grid_key(grid):
    return tuple(
        tuple(obj_key(grid[y, x]) for x in range(grid.shape.width))
        for y in range(grid.shape.height)
    )


def agent_key(agent):
    return (
        agent.position.yx,
        agent.orientation.name,
        obj_key(agent.grid_object),
    )


def state_key(state):
    return (grid_key(state.grid), agent_key(state.agent))


def rng_state(rng):
    state = rng.bit_generator.state
    return repr(state)


def global_sources_snapshot():
    gv = gv_rng_module._gv_rng
    return (
        None if gv is None else rng_state(gv),
        id(gv),
        hashlib.sha256(repr(np.random.get_state()).encode()).hexdigest(),
        hashlib.sha256(repr(random.getstate()).encode()).hexdigest(),
    )


checks = 0


def check(condition, message):
    global checks
    checks += 1
    if not condition:
        print('FAILED:', message)
        sys.exit(1)


# ---------------------------------------------------------------------------
# 1. unit-level comparison with the reference
# ---------------------------------------------------------------------------


def compare_unit(function, reference, state, action, seed, label):
    state_lib, state_ref = fast_copy(state), fast_copy(state)
    rng_lib, rng_ref = rnd.default_rng(seed), rnd.default_rng(seed)
    # advance a little, so that we do not only test fresh generators
    rng_lib.random(seed % 5)
    rng_ref.random(seed % 5)

    function(state_lib, action, rng=rng_lib)
    reference(state_ref, action, rng=rng_ref)

    check(
        state_key(state_lib) == state_key(state_ref),
        f'{label}: states differ (seed {seed})',
    )
    check(
        rng_state(rng_lib) == rng_state(rng_ref),
        f'{label}: generator states differ (seed {seed})',
    )
    return state_lib


HAND_MADE_OBSTACLE_GRIDS = [
    # boxed-in obstacle: no candidate, no draw
    ['#####', '##O##', '#####'],
    # boxed in by other obstacles, which themselves can move
    ['.O.', 'OOO', '.O.'],
    # all obstacles, nobody can move
    ['OOO', 'OOO'],
    # wall-less grid, obstacles in the four corners and on borders
    ['O..O', '....', 'O.OO'],
    # single row, single column, single cell
    ['O.O..O'],
    ['O', '.', 'O', '.', '.'],
    ['O'],
    ['.'],
    # no obstacles at all
    ['#####', '#...#', '#####'],
    # obstacle next to exit (exit is not a Floor: not a candidate)
    ['#####', '#OE.#', '#####'],
    # non-square with walls
    ['#######', '#O.O.O#', '#.O.O.#', '#######'],
    # chain: earlier moves free / occupy cells for later obstacles
    ['OO.OO.O'],
]

HAND_MADE_TELEPOD_CASES = [
    # (rows, agent position)
    (['r...', '....'], (0, 0)),  # lone telepod: no twin, no draw
    (['r..r', '....'], (0, 0)),  # one twin
    (['r..r', 'r..r'], (1, 3)),  # three twins, agent in a corner
    (['r..b', 'b..r'], (0, 0)),  # other colour is not a twin
    (['r..b', 'b..g'], (0, 3)),  # only other colours: no twin of blue but one
    (['r..b', '...g'], (1, 3)),  # lone green
    (['r..r', '....'], (1, 1)),  # agent not on a telepod: nothing happens
    (['rrrrr'], (0, 2)),  # single row
    (['r', 'r', 'b', 'r'], (3, 0)),  # single column
    (['r'], (0, 0)),  # single cell
]


def unit_checks():
    # hand-made obstacle grids
    for rows in HAND_MADE_OBSTACLE_GRIDS:
        for seed in range(25):
            grid = grid_from_ascii(rows)
            state = State(grid, Agent(Position(0, 0), Orientation.F))
            for action in (Action.MOVE_FORWARD, Action.ACTUATE):
                # repeated calls on the evolving state
                for _ in range(3):
                    state = compare_unit(
                        transition_functions.move_obstacles,
                        ref_move_obstacles,
                        state,
                        action,
                        seed,
                        f'move_obstacles {rows}',
                    )

    # boxed-in obstacles consume no randomness at all
    state = State(
        grid_from_ascii(['#####', '##O##', '#####']),
        Agent(Position(0, 0), Orientation.F),
    )
    rng = rnd.default_rng(3)
    before = rng_state(rng)
    transition_functions.move_obstacles(state, Action.TURN_LEFT, rng=rng)
    check(rng_state(rng) == before, 'boxed-in obstacle consumed randomness')
    check(
        grid_key(state.grid)
        == grid_key(grid_from_ascii(['#####', '##O##', '#####'])),
        'boxed-in obstacle moved',
    )

    # hand-made telepod cases, all four headings
    for rows, (y, x) in HAND_MADE_TELEPOD_CASES:
        for orientation in Orientation:
            for seed in range(25):
                state = State(
                    grid_from_ascii(rows), Agent(Position(y, x), orientation)
                )
                for _ in range(3):
                    state = compare_unit(
                        transition_functions.teleport,
                        ref_teleport,
                        state,
                        Action.MOVE_FORWARD,
                        seed,
                        f'teleport {rows} {(y, x)}',
                    )

    # lone telepod consumes no randomness
    state = State(
        grid_from_ascii(['r..b']), Agent(Position(0, 0), Orientation.R)
    )
    rng = rnd.default_rng(4)
    before = rng_state(rng)
    transition_functions.teleport(state, Action.MOVE_FORWARD, rng=rng)
    check(rng_state(rng) == before, 'lone telepod consumed randomness')
    check(state.agent.position == Position(0, 0), 'lone telepod moved agent')

    # random grids (local python generator: no global source involved)
    local = random.Random(20240927)
    for case in range(300):
        height, width = local.randint(1, 6), local.randint(1, 7)
        rows = [
            ''.join(local.choice('..#OOrbE') for _ in range(width))
            for _ in range(height)
        ]
        agent = Agent(
            Position(local.randrange(height), local.randrange(width)),
            local.choice(list(Orientation)),
        )
        state = State(grid_from_ascii(rows), agent)
        seed = local.randrange(10_000)
        for _ in range(2):
            state = compare_unit(
                transition_functions.move_obstacles,
                ref_move_obstacles,
                state,
                Action.MOVE_LEFT,
                seed,
                f'random move_obstacles {rows}',
            )
            state = compare_unit(
                transition_functions.teleport,
                ref_teleport,
                state,
                Action.MOVE_LEFT,
                seed,
                f'random teleport {rows}',
            )


# ---------------------------------------------------------------------------
# 2. whole environments
# ---------------------------------------------------------------------------

ACTIONS = list(Action)


def make_env(kind, *, reference=False):
    """builds a GridWorld through the python API

    `reference=True` swaps the two functions under test with the references.
    """
    move_obstacles = (
        ref_move_obstacles if reference else transition_functions.move_obstacles
    )
    teleport = ref_teleport if reference else transition_functions.teleport

    if kind == 'dynamic_obstacles':
        shape = Shape(6, 9)  # non-square
        object_types = [Floor, Wall, Exit, MovingObstacle]
        colors = [Color.NONE]
        reset = partial(
            reset_functions.dynamic_obstacles,
            shape,
            num_obstacles=9,
            random_agent=True,
        )
        transitions = [
            transition_functions.move_agent,
            transition_functions.turn_agent,
            move_obstacles,
        ]
        observation_shape = Shape(4, 5)  # asymmetric view area
        observation_name = 'stochastic_raytracing'
    elif kind == 'crowded_obstacles':
        # nearly full: many obstacles are boxed in at every step
        shape = Shape(5, 5)
        object_types = [Floor, Wall, Exit, MovingObstacle]
        colors = [Color.NONE]
        reset = partial(
            reset_functions.dynamic_obstacles,
            shape,
            num_obstacles=6,
            random_agent=False,
        )
        transitions = [
            move_obstacles,
            transition_functions.move_agent,
            transition_functions.turn_agent,
            move_obstacles,
        ]
        observation_shape = Shape(3, 7)
        observation_name = 'raytracing'
    elif kind == 'teleport':
        shape = Shape(5, 8)
        object_types = [Floor, Wall, Exit, Telepod]
        colors = [Color.NONE, Color.RED]
        reset = partial(reset_functions.teleport, shape)
        transitions = [
            transition_functions.move_agent,
            transition_functions.turn_agent,
            teleport,
        ]
        observation_shape = Shape(7, 7)
        observation_name = 'stochastic_raytracing'
    elif kind == 'teleport_and_obstacles':
        shape = Shape(7, 6)

        def reset(*, rng=None):
            state = reset_functions.teleport(shape, rng=rng)
            rng = gv_rng_module.get_gv_rng_if_none(rng)
            vacant = [
                position
                for position in state.grid.area.positions()
                if isinstance(state.grid[position], Floor)
                and position != state.agent.position
            ]
            for position in gv_rng_module.choices(
                rng, vacant, size=5, replace=False
            ):
                state.grid[position] = MovingObstacle()
            return state

        object_types = [Floor, Wall, Exit, Telepod, MovingObstacle]
        colors = [Color.NONE, Color.RED]
        transitions = [
            transition_functions.move_agent,
            teleport,
            transition_functions.turn_agent,
            move_obstacles,
        ]
        observation_shape = Shape(5, 3)
        observation_name = 'partially_occluded'
    else:
        raise ValueError(kind)

    state_space = StateSpace(shape, object_types, colors)
    action_space = ActionSpace(ACTIONS)
    observation_space = ObservationSpace(
        observation_shape, object_types, colors
    )
    transition = partial(
        transition_functions.chain, transition_functions=transitions
    )
    observation = partial(
        getattr(observation_functions, observation_name),
        area=observation_space.area,
    )
    reward = partial(
        reward_functions.reduce_sum,
        reward_functions=[
            partial(reward_functions.living_reward, reward=-0.25),
            partial(reward_functions.reach_exit, reward_on=5.0),
            partial(reward_functions.bump_moving_obstacle, reward=-2.0),
        ],
    )
    termination = partial(
        terminating_functions.reduce_any,
        terminating_functions=[
            terminating_functions.reach_exit,
            terminating_functions.bump_moving_obstacle,
        ],
    )
    return GridWorld(
        state_space,
        action_space,
        observation_space,
        reset,
        transition,
        observation,
        reward,
        termination,
    )


KINDS = [
    'dynamic_obstacles',
    'crowded_obstacles',
    'teleport',
    'teleport_and_obstacles',
]


def action_sequence(kind, seed, length):
    local = random.Random(f'{kind}-{seed}')
    return [local.choice(ACTIONS) for _ in range(length)]


def observation_key(observation):
    return (grid_key(observation.grid), agent_key(observation.agent))


class Runner:
    """steps an environment one event at a time (allows interleaving)"""

    def __init__(self, env, seed, actions):
        self.env = env
        self.seed = seed
        self.actions = list(actions)
        self.trajectory = []
        self.events = self._events()

    def _events(self):
        env = self.env
        env.set_seed(self.seed)
        yield
        env.reset()
        self.trajectory.append(('reset', state_key(env.state)))
        yield
        self.trajectory.append(('obs', observation_key(env.observation)))
        yield
        for t, action in enumerate(self.actions):
            reward, done = env.step(action)
            self.trajectory.append(
                ('step', action.name, reward, done, state_key(env.state))
            )
            yield
            # the observation is lazy:  only ask for it most of the times
            if t % 3 != 2:
                self.trajectory.append(
                    ('obs', observation_key(env.observation))
                )
                # asking twice must not draw twice
                self.trajectory.append(
                    ('obs', observation_key(env.observation))
                )
                yield
            if done:
                env.reset()
                self.trajectory.append(('reset', state_key(env.state)))
                yield

    def advance(self):
        try:
            next(self.events)
            return True
        except StopIteration:
            return False

    def run(self):
        while self.advance():
            pass
        return self.trajectory


def trajectory(kind, seed, length=60, *, reference=False):
    env = make_env(kind, reference=reference)
    return Runner(env, seed, action_sequence(kind, seed, length)).run()


def digest(obj):
    return hashlib.sha256(repr(obj).encode()).hexdigest()


def all_trajectories_digest():
    return digest(
        [
            (kind, seed, trajectory(kind, seed))
            for kind in KINDS
            for seed in (0, 1, 2**31 - 1)
        ]
    )


def env_checks():
    # NOTE: some pristine reset functions (keydoor, crossing, teleport) call
    # `empty(shape)` without rng, which lazily *creates* the library-level
    # generator (without drawing from it);  we therefore create it up front,
    # and check that it is never replaced nor advanced
    gv = gv_rng_module.reset_gv_rng(123)
    snapshot = global_sources_snapshot()

    for kind in KINDS:
        for seed in (0, 1, 7, 1234, 2**31 - 1):
            a = trajectory(kind, seed)
            b = trajectory(kind, seed)
            c = trajectory(kind, seed, reference=True)
            check(a == b, f'{kind}/{seed}: not reproducible')
            check(a == c, f'{kind}/{seed}: differs from reference')
            check(
                len({digest(a), digest(trajectory(kind, seed + 1))}) == 2,
                f'{kind}/{seed}: seed has no influence (suspicious)',
            )

    # re-seeding a used environment restarts the same sequence
    for kind in KINDS:
        env = make_env(kind)
        actions = action_sequence(kind, 5, 40)
        first = Runner(env, 5, actions).run()
        Runner(env, 99, actions[:17]).run()
        again = Runner(env, 5, actions).run()
        check(first == again, f'{kind}: re-seeding is not reproducible')

    # interleaving with other live environments (library and reference ones)
    local = random.Random(42)
    for kind in KINDS:
        solo = {seed: trajectory(kind, seed) for seed in (3, 4)}
        runners = [
            Runner(make_env(kind), 3, action_sequence(kind, 3, 60)),
            Runner(make_env(kind), 4, action_sequence(kind, 4, 60)),
            Runner(make_env(kind), 3, action_sequence(kind, 3, 60)),
            Runner(
                make_env(kind, reference=True),
                3,
                action_sequence(kind, 3, 60),
            ),
            Runner(
                make_env(KINDS[(KINDS.index(kind) + 1) % len(KINDS)]),
                3,
                action_sequence('other', 3, 60),
            ),
        ]
        live = list(runners)
        while live:
            runner = local.choice(live)
            if not runner.advance():
                live.remove(runner)
        check(runners[0].trajectory == solo[3], f'{kind}: interleaving (0)')
        check(runners[1].trajectory == solo[4], f'{kind}: interleaving (1)')
        check(runners[2].trajectory == solo[3], f'{kind}: interleaving (2)')
        check(runners[3].trajectory == solo[3], f'{kind}: interleaving (ref)')

    # debug flag on / off
    try:
        reset_gv_debug(True)
        with_debug = all_trajectories_digest()
        reset_gv_debug(False)
        without_debug = all_trajectories_digest()
    finally:
        reset_gv_debug(None)
    check(with_debug == without_debug, 'debug flag changes trajectories')

    # no global random source was replaced, read or advanced
    check(
        global_sources_snapshot() == snapshot,
        'a global random source was touched by seeded environments',
    )
    check(gv_rng_module._gv_rng is gv, 'library-level generator was replaced')
    gv_rng_module._gv_rng = None

    # other interpreter processes, other hash seeds
    here = all_trajectories_digest()
    for hashseed in ('0', '1', '4242', 'random'):
        env = dict(os.environ, PYTHONHASHSEED=hashseed)
        for flags in ([], ['-O']):
            out = subprocess.run(
                [sys.executable, *flags, os.path.abspath(__file__), '--digest'],
                env=env,
                cwd=os.getcwd(),
                capture_output=True,
                text=True,
                check=True,
            ).stdout.strip()
            check(
                out == here,
                f'PYTHONHASHSEED={hashseed} {flags}: trajectories differ',
            )


def main():
    if '--digest' in sys.argv:
        print(all_trajectories_digest())
        return

    unit_checks()
    env_checks()
    print(f'demo A: all {checks} checks passed')


if __name__ == '__main__':
    main()
