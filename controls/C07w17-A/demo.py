"""Demo for change A (utils/raytracing.py restructured).

Exits 0 on the pristine tree and with the patch applied.  Checks

1. compute_ray / compute_rays / compute_rays_fancy against a reference
   implementation embedded here (the generator pipeline of the pristine tree),
   ray by ray, position by position;
2. property C07: rotating the whole world (grid and agent pose together) by any
   quarter turn leaves the observation of every deterministic built-in
   observation function unchanged, for many view areas.
"""
import itertools as itt
import math
import os
import sys

sys.path.insert(0, os.getcwd())

import numpy as np  # noqa: E402

from gym_gridverse.agent import Agent  # noqa: E402
from gym_gridverse.envs import observation_functions as of  # noqa: E402
from gym_gridverse.geometry import Area, Orientation, Position  # noqa: E402
from gym_gridverse.grid import Grid  # noqa: E402
from gym_gridverse.grid_object import (  # noqa: E402
    Beacon,
    Box,
    Color,
    Door,
    Exit,
    Floor,
    Key,
    MovingObstacle,
    Telepod,
    Wall,
)
from gym_gridverse.state import State  # noqa: E402
from gym_gridverse.utils import raytracing as rt  # noqa: E402

failures = []


def check(condition, message):
    if not condition:
        failures.append(message)
        print('FAIL', message)


# --------------------------------------------------------------------------
# reference implementation (pristine generator pipeline)
# --------------------------------------------------------------------------


def unique_everseen(iterable):
    """more_itertools.unique_everseen, for hashable elements"""
    seen = set()
    for element in iterable:
        if element not in seen:
            seen.add(element)
            yield element


def ref_compute_ray(position, area, *, radians, step_size, unique=True):
    if not area.contains(position):
        raise ValueError(f'Position {position} is not inside area {area}')

    y0, x0 = float(position.y), float(position.x)
    dy = step_size * math.sin(radians)
    dx = step_size * math.cos(radians)

    ys = (y0 + i * dy for i in itt.count())
    xs = (x0 + i * dx for i in itt.count())
    positions = (Position(round(y), round(x)) for y, x in zip(ys, xs))
    positions = itt.takewhile(area.contains, positions)
    positions = unique_everseen(positions) if unique else positions
    return list(positions)


def ref_compute_rays(position, area):
    radians_over_degrees = math.pi / 180.0
    return [
        ref_compute_ray(
            position, area, radians=deg * radians_over_degrees, step_size=0.01
        )
        for deg in range(360)
    ]


def ref_compute_rays_fancy(position, area):
    ys = np.linspace(area.ymin, area.ymax + 1, num=area.height + 1) - 0.5
    xs = np.linspace(area.xmin, area.xmax + 1, num=area.width + 1) - 0.5
    ys = ys - position.y
    xs = xs - position.x
    yys, xxs = np.meshgrid(ys, xs)
    radians = np.sort(np.arctan2(yys, xxs), axis=None)
    return [
        ref_compute_ray(position, area, radians=rad, step_size=0.01)
        for rad in radians
    ]


# --------------------------------------------------------------------------
# 1. rays are identical
# --------------------------------------------------------------------------

ray_areas = [
    Area((0, 0), (0, 0)),  # single cell
    Area((0, 0), (0, 5)),  # single row
    Area((0, 4), (0, 0)),  # single column
    Area((0, 2), (0, 4)),  # non-square
    Area((0, 6), (0, 6)),  # default 7x7 view
    Area((-3, 1), (-2, 4)),  # negative coordinates, asymmetric
    Area((2, 5), (-7, -5)),  # does not contain the origin
]

n_rays = 0
for area in ray_areas:
    corners = [
        Position(area.ymin, area.xmin),
        Position(area.ymin, area.xmax),
        Position(area.ymax, area.xmin),
        Position(area.ymax, area.xmax),
    ]
    middle = Position(
        (area.ymin + area.ymax) // 2, (area.xmin + area.xmax) // 2
    )
    for position in dict.fromkeys(corners + [middle]):
        # compute_ray, awkward angles and step sizes, unique or not
        angles = [
            0.0,
            -0.0,
            math.pi / 4,
            math.pi / 2,
            math.pi,
            -math.pi,
            3 * math.pi / 2,
            math.tau,
            1.0,
            -2.5,
            7.3,
            1e-9,
            math.atan2(1, 2),
            np.float64(0.75),
        ]
        for radians, step_size, unique in itt.product(
            angles, [0.01, 0.3, 1.0, 2.5], [True, False]
        ):
            got = rt.compute_ray(
                position,
                area,
                radians=radians,
                step_size=step_size,
                unique=unique,
            )
            want = ref_compute_ray(
                position,
                area,
                radians=radians,
                step_size=step_size,
                unique=unique,
            )
            n_rays += 1
            check(
                got == want and type(got) is list,
                f'compute_ray {position} {area} {radians} {step_size} {unique}',
            )
            check(
                len(got) >= 1 and got[0] == position,
                f'ray starts at the position {position} {area}',
            )

        # default of `unique` is True
        check(
            rt.compute_ray(position, area, radians=0.3, step_size=0.01)
            == ref_compute_ray(position, area, radians=0.3, step_size=0.01),
            f'compute_ray default unique {position} {area}',
        )

        got = rt.compute_rays(position, area)
        check(len(got) == 360, f'compute_rays count {position} {area}')
        check(
            got == ref_compute_rays(position, area),
            f'compute_rays {position} {area}',
        )

        got = rt.compute_rays_fancy(position, area)
        check(
            len(got) == (area.height + 1) * (area.width + 1),
            f'compute_rays_fancy count {position} {area}',
        )
        check(
            got == ref_compute_rays_fancy(position, area),
            f'compute_rays_fancy {position} {area}',
        )

        # cached versions:  same rays, repeated calls return the same value
        first = rt.cached_compute_rays_fancy(position, area)
        second = rt.cached_compute_rays_fancy(position, area)
        check(
            first == second == ref_compute_rays_fancy(position, area),
            f'cached_compute_rays_fancy {position} {area}',
        )
        check(
            rt.cached_compute_rays(position, area)
            == ref_compute_rays(position, area),
            f'cached_compute_rays {position} {area}',
        )

# position outside of the area is still rejected, by all three functions
outside = Position(5, 5)
small = Area((0, 2), (0, 2))
for name, function in [
    (
        'compute_ray',
        lambda: rt.compute_ray(outside, small, radians=0.0, step_size=0.01),
    ),
    ('compute_rays', lambda: rt.compute_rays(outside, small)),
    ('compute_rays_fancy', lambda: rt.compute_rays_fancy(outside, small)),
]:
    try:
        function()
    except ValueError:
        pass
    else:
        check(False, f'{name} accepts a position outside of the area')

# hard-coded expectations (tests/utils/test_raytracing.py style)
check(
    rt.compute_ray(
        Position(0, 0), Area((0, 2), (0, 3)), radians=0.0, step_size=0.01
    )
    == [Position(0, 0), Position(0, 1), Position(0, 2), Position(0, 3)],
    'hard-coded ray, 0 radians',
)
check(
    rt.compute_ray(
        Position(0, 0),
        Area((0, 2), (0, 3)),
        radians=math.pi / 2,
        step_size=0.01,
    )
    == [Position(0, 0), Position(1, 0), Position(2, 0)],
    'hard-coded ray, pi/2 radians',
)
check(
    rt.compute_ray(
        Position(0, 0), Area((0, 2), (0, 3)), radians=math.pi, step_size=0.01
    )
    == [Position(0, 0)],
    'hard-coded ray, pi radians (leaves immediately)',
)
check(
    rt.compute_ray(
        Position(0, 0),
        Area((0, 1), (0, 1)),
        radians=0.0,
        step_size=0.5,
        unique=False,
    )
    # x = 0.0, 0.5, 1.0, 1.5 -> round() gives 0, 0, 1, 2 (half to even)
    == [Position(0, 0), Position(0, 0), Position(0, 1)],
    'hard-coded ray, repeated positions when not unique',
)


# --------------------------------------------------------------------------
# 2. property C07
# --------------------------------------------------------------------------

_turn_right = {
    Orientation.F: Orientation.R,
    Orientation.R: Orientation.B,
    Orientation.B: Orientation.L,
    Orientation.L: Orientation.F,
}


def rotate_world_clockwise(state):
    """quarter turn of grid and agent pose, written without geometry operators"""
    height, width = state.grid.shape.height, state.grid.shape.width
    objects = [
        [state.grid.objects[height - 1 - x][y] for x in range(height)]
        for y in range(width)
    ]
    position = Position(state.agent.position.x, height - 1 - state.agent.position.y)
    orientation = _turn_right[state.agent.orientation]
    return State(
        Grid(objects), Agent(position, orientation, state.agent.grid_object)
    )


def make_grid(height, width, seed):
    rng = np.random.default_rng(seed)
    colors = list(Color)
    factories = [
        Floor,
        Floor,
        Floor,
        Wall,
        Wall,
        lambda: Exit(),
        lambda: Exit(colors[rng.integers(len(colors))]),
        lambda: Door(Door.Status.OPEN, colors[rng.integers(len(colors))]),
        lambda: Door(Door.Status.CLOSED, Color.NONE),
        lambda: Door(Door.Status.LOCKED, colors[rng.integers(len(colors))]),
        lambda: Key(colors[rng.integers(len(colors))]),
        MovingObstacle,
        lambda: Box(Key(Color.NONE)),
        lambda: Telepod(colors[rng.integers(len(colors))]),
        lambda: Beacon(Color.NONE),
    ]
    return Grid(
        [
            [factories[rng.integers(len(factories))]() for _ in range(width)]
            for _ in range(height)
        ]
    )


view_areas = [
    Area((-6, 0), (-3, 3)),  # default
    Area((0, 0), (0, 0)),  # only the agent cell
    Area((-2, 0), (-1, 1)),
    Area((-3, 0), (-4, 1)),  # asymmetric, agent on the bottom row
    Area((-1, 0), (0, 5)),  # agent in the corner of the view
    Area((-2, 2), (-2, 2)),  # agent in the centre
    Area((-1, 3), (-2, 1)),  # asymmetric, agent inside
    Area((0, 2), (-1, 0)),  # agent on the top row (looks backwards)
    Area((-9, 0), (-8, 8)),  # much larger than the grids
]

deterministic = ['fully_transparent', 'partially_occluded', 'raytracing']


def observe(name, state, area):
    function = of.factory(name, area=area)
    try:
        return 'ok', function(state)
    except NotImplementedError:
        # partially_occluded only supports agents on the bottom row of the view
        return 'not-implemented', None


def agent_positions(height, width):
    ys = sorted({0, height // 2, height - 1})
    xs = sorted({0, width // 2, width - 1})
    return [Position(y, x) for y in ys for x in xs]


n_observations = 0
shapes = [(1, 1), (1, 4), (5, 1), (3, 3), (2, 5), (4, 6), (7, 3)]
for index, (height, width) in enumerate(shapes):
    grid = make_grid(height, width, seed=index)
    for position, orientation, held in itt.product(
        agent_positions(height, width),
        [Orientation.F, Orientation.R, Orientation.B, Orientation.L],
        [None, Key(Color.NONE)],
    ):
        if held is not None and orientation is not Orientation.L:
            continue  # one heading with a held object is plenty
        state = State(grid, Agent(position, orientation, held))
        rotated = [state]
        for _ in range(3):
            rotated.append(rotate_world_clockwise(rotated[-1]))
        check(
            rotate_world_clockwise(rotated[-1]).grid == state.grid,
            'four quarter turns are the identity',
        )

        for name, area in itt.product(deterministic, view_areas):
            status, observation = observe(name, state, area)
            if name != 'partially_occluded' or area.ymax == 0:
                check(status == 'ok', f'{name} {area} raised')
            if status == 'ok':
                check(
                    observation.grid.shape.as_tuple
                    == (area.height, area.width),
                    f'{name} {area} observation shape',
                )
                check(
                    observation.agent
                    == Agent(
                        Position(-area.ymin, -area.xmin), Orientation.F, held
                    ),
                    f'{name} {area} observation agent',
                )
            for turns, other in enumerate(rotated[1:], start=1):
                other_status, other_observation = observe(name, other, area)
                n_observations += 1
                check(
                    status == other_status
                    and observation == other_observation,
                    f'C07 {name} {area} {height}x{width} {position} '
                    f'{orientation} turns={turns}',
                )
            # repeated calls give the same observation
            check(
                observe(name, state, area)[1] == observation,
                f'{name} {area} repeated call',
            )

print(f'rays checked: {n_rays}, rotated observations checked: {n_observations}')
if failures:
    print(f'{len(failures)} failures')
    sys.exit(1)
print('OK')
