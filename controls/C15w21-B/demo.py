"""C15 demo: numeric representations lie inside their declared spaces.

Runs identically on the pristine tree and with the change applied.  Everything
is compared against a reference implementation embedded below (written from the
documented channel layout, not by calling the library helpers).

Run from the worktree root:  /venv/bin/python _seed/B/demo.py
"""
import glob
import itertools
import json
import os
import re
import sys
import warnings

warnings.filterwarnings('ignore')
sys.path.insert(0, os.getcwd())

import numpy as np  # noqa: E402

from gym_gridverse.agent import Agent  # noqa: E402
from gym_gridverse.geometry import Orientation, Position, Shape  # noqa: E402
from gym_gridverse.grid import Grid  # noqa: E402
from gym_gridverse.grid_object import (  # noqa: E402
    Beacon,
    Box,
    Color,
    Door,
    Exit,
    Floor,
    Hidden,
    Key,
    MovingObstacle,
    NoneGridObject,
    Telepod,
    Wall,
    grid_object_registry,
)
from gym_gridverse.observation import Observation  # noqa: E402
from gym_gridverse.representations import representation as R  # noqa: E402
from gym_gridverse.representations.observation_representations import (  # noqa: E402
    make_observation_representation,
)
from gym_gridverse.representations.spaces import Space, SpaceType  # noqa: E402
from gym_gridverse.representations.state_representations import (  # noqa: E402
    make_state_representation,
)
from gym_gridverse.spaces import ObservationSpace, StateSpace  # noqa: E402
from gym_gridverse.state import State  # noqa: E402

NAMES = ('default', 'no-overlap', 'compact')
CHECKS = 0


def check(cond, *msg):
    global CHECKS
    CHECKS += 1
    if not cond:
        print('FAIL', *msg)
        sys.exit(1)


# --------------------------------------------------------------------------
# member objects


def instances(object_type, colors):
    """every member object of a type: every status and every colour"""
    colors = sorted(colors, key=lambda c: c.value)
    if object_type in (NoneGridObject, Hidden, Floor, Wall, MovingObstacle):
        return [object_type()]
    if object_type is Exit:
        return [Exit(c) for c in colors]
    if object_type is Door:
        return [Door(s, c) for s in Door.Status for c in colors]
    if object_type in (Key, Telepod, Beacon):
        return [object_type(c) for c in colors]
    if object_type is Box:
        return [Box(Floor()), Box(Key(colors[-1]))]
    raise AssertionError(object_type)


ALL_TYPES = list(grid_object_registry)
check(
    set(ALL_TYPES)
    == {
        NoneGridObject,
        Hidden,
        Floor,
        Wall,
        Exit,
        Door,
        Key,
        MovingObstacle,
        Box,
        Telepod,
        Beacon,
    },
    'unexpected registry',
    ALL_TYPES,
)
PLAIN_TYPES = [t for t in ALL_TYPES if t not in (NoneGridObject, Hidden)]
STATE_TYPES = [t for t in PLAIN_TYPES if t.can_be_represented_in_state()]
ALL_COLORS = list(Color)

# --------------------------------------------------------------------------
# reference implementation of the three grid-object encodings


def ref_maxes(types, colors):
    mt = max(ALL_TYPES.index(t) for t in types)
    ms = max(t.num_states() for t in types)  # (sic) num-states, not max index
    mc = max(c.value for c in colors)
    return mt, ms, mc


def ref_upper(name, types, colors):
    mt, ms, mc = ref_maxes(types, colors)
    if name == 'default':
        return [mt, ms, mc]
    if name == 'no-overlap':
        return [mt, mt + ms + 1, mt + ms + mc + 2]
    # compact: one index per type, then per (type, status), then per colour
    n_types = len(types)
    n_states = sum(t.num_states() for t in types)
    return [n_types - 1, n_types + n_states - 1, n_types + n_states + len(colors) - 1]


def ref_convert(name, types, colors, obj):
    mt, ms, _ = ref_maxes(types, colors)
    i, j, k = ALL_TYPES.index(type(obj)), obj.state_index, obj.color.value
    if name == 'default':
        return [i, j, k]
    if name == 'no-overlap':
        return [i, mt + 1 + j, mt + ms + 2 + k]
    stypes = sorted(types, key=ALL_TYPES.index)
    scolors = sorted(colors, key=lambda c: c.value)
    a = stypes.index(type(obj))
    b = len(stypes) + sum(t.num_states() for t in stypes[:a]) + j
    c = len(stypes) + sum(t.num_states() for t in stypes) + scolors.index(obj.color)
    return [a, b, c]


# --------------------------------------------------------------------------
# generic containment check (does not trust Space.contains alone)


def check_in_space(array, space, *ctx):
    check(isinstance(array, np.ndarray), 'not an array', *ctx)
    check(array.shape == space.lower_bound.shape, 'shape', array.shape, space.lower_bound.shape, *ctx)
    check(array.shape == space.upper_bound.shape, 'shape-ub', *ctx)
    if space.space_type is SpaceType.CONTINUOUS:
        check(np.issubdtype(array.dtype, np.floating), 'dtype', array.dtype, *ctx)
    else:
        check(np.issubdtype(array.dtype, np.integer), 'dtype', array.dtype, *ctx)
        check(np.issubdtype(space.lower_bound.dtype, np.integer), 'lb dtype', *ctx)
        check(np.issubdtype(space.upper_bound.dtype, np.integer), 'ub dtype', *ctx)
    check(bool(np.all(space.lower_bound <= array)), 'below lower bound', array, *ctx)
    check(bool(np.all(array <= space.upper_bound)), 'above upper bound', array, *ctx)
    check(space.contains(array), 'Space.contains', *ctx)


def check_dict(arrays, spaces, *ctx):
    check(set(arrays) == set(spaces), 'keys', sorted(arrays), sorted(spaces), *ctx)
    for key in spaces:
        check_in_space(arrays[key], spaces[key], key, *ctx)
    try:
        from gym_gridverse.gym import outer_space_to_gym_space
    except Exception:  # gym not installed: skip the gym layer
        return
    gym_space = outer_space_to_gym_space(spaces)
    for key, box in gym_space.spaces.items():
        check(box.shape == spaces[key].shape, 'gym shape', key, *ctx)
        check(np.array_equal(box.low, spaces[key].lower_bound), 'gym low', key, *ctx)
        check(np.array_equal(box.high, spaces[key].upper_bound), 'gym high', key, *ctx)
        check(box.contains(arrays[key].astype(box.dtype)), 'gym contains', key, *ctx)
        kind = np.floating if spaces[key].space_type is SpaceType.CONTINUOUS else np.integer
        check(np.issubdtype(box.dtype, kind), 'gym dtype', key, *ctx)
        check(np.can_cast(arrays[key].dtype, box.dtype), 'gym cast', key, *ctx)


# --------------------------------------------------------------------------
# 1. grid-object level: spaces and conversions against the reference,
#    over subsets of the registered types x colour subsets


def subsets_of(items, rng, n_random):
    items = list(items)
    out = []
    for r in (1, 2, len(items) - 1, len(items)):
        out.extend(itertools.combinations(items, r))
    for _ in range(n_random):
        mask = rng.integers(0, 2, len(items))
        sub = tuple(x for x, m in zip(items, mask) if m)
        if sub:
            out.append(sub)
    return list(dict.fromkeys(out))


def grid_object_level():
    rng = np.random.default_rng(15)
    color_subsets = [()] + subsets_of(ALL_COLORS, rng, 0)  # all but a few; () -> {NONE}
    for kind, pool in (('state', STATE_TYPES), ('observation', PLAIN_TYPES)):
        type_subsets = subsets_of(pool, rng, 40)
        for n, types in enumerate(type_subsets):
            # every colour subset for the small/large ones, 3 random ones otherwise
            if n % 7 == 0:
                csubs = color_subsets
            else:
                csubs = [color_subsets[i] for i in rng.choice(len(color_subsets), 3, replace=False)]
            for colors in csubs:
                if kind == 'state':
                    space = StateSpace(Shape(3, 4), list(types), list(colors))
                    make = make_state_representation
                    extra = {NoneGridObject}
                else:
                    space = ObservationSpace(Shape(3, 5), list(types), list(colors))
                    make = make_observation_representation
                    extra = {NoneGridObject, Hidden}
                full_types = set(types) | extra
                full_colors = set(colors) | {Color.NONE}
                check(space.colors == full_colors, 'space colours')
                members = [o for t in full_types for o in instances(t, full_colors)]
                for name in NAMES:
                    rep = make(name, space)
                    gor = rep.representations['item'].grid_object_representation
                    gspace = gor.space
                    ctx = (kind, name, [t.__name__ for t in types], [c.name for c in colors])
                    check(gspace.space_type is SpaceType.CATEGORICAL, 'type', *ctx)
                    check(gspace.lower_bound.tolist() == [0, 0, 0], 'lb', *ctx)
                    check(
                        gspace.upper_bound.tolist() == ref_upper(name, full_types, full_colors),
                        'ub', gspace.upper_bound.tolist(), ref_upper(name, full_types, full_colors), *ctx,
                    )
                    check(np.issubdtype(gspace.upper_bound.dtype, np.integer), 'ub dtype', *ctx)
                    # the space property builds fresh, equal spaces on repeated calls
                    again = gor.space
                    check(again == gspace, 'space not repeatable', *ctx)
                    check(again.upper_bound is not gspace.upper_bound, 'aliased bounds', *ctx)
                    for obj in members:
                        arr = gor.convert(obj)
                        check(
                            arr.tolist() == ref_convert(name, full_types, full_colors, obj),
                            'convert', obj, arr.tolist(), ref_convert(name, full_types, full_colors, obj), *ctx,
                        )
                        check_in_space(arr, gspace, obj, *ctx)
                    if name != 'default':
                        # channels never overlap
                        vals = [set(), set(), set()]
                        for obj in members:
                            for ch, v in enumerate(gor.convert(obj).tolist()):
                                vals[ch].add(v)
                        check(not (vals[0] & vals[1]) and not (vals[1] & vals[2]) and not (vals[0] & vals[2]), 'overlap', *ctx)


# --------------------------------------------------------------------------
# 1b. the module-level no-overlap / default functions, called directly
#     (hard-coded expectations + the empty cases)


def function_level():
    types = {NoneGridObject, Hidden, Floor, Wall, Door, Key}
    colors = {Color.NONE, Color.RED, Color.YELLOW}
    mt = max(ALL_TYPES.index(t) for t in types)
    check(ALL_TYPES.index(NoneGridObject) == 0 and ALL_TYPES.index(Hidden) == 1, 'registry order')
    check(
        [t.__name__ for t in ALL_TYPES]
        == ['NoneGridObject', 'Hidden', 'Floor', 'Wall', 'Exit', 'Door', 'Key',
            'MovingObstacle', 'Box', 'Telepod', 'Beacon'],
        'registry order', ALL_TYPES,
    )
    check(mt == 6, 'max type')
    sp = R.no_overlap_grid_object_representation_space(types, colors)
    check(sp.upper_bound.tolist() == [6, 10, 15], 'hard-coded no-overlap ub', sp.upper_bound.tolist())
    check(sp.lower_bound.tolist() == [0, 0, 0], 'lb')
    check(sp.space_type is SpaceType.CATEGORICAL, 'type')
    got = R.no_overlap_grid_object_representation_convert(types, colors, Door(Door.Status.LOCKED, Color.YELLOW))
    check(got.tolist() == [5, 9, 15], 'hard-coded no-overlap convert', got.tolist())
    got = R.no_overlap_grid_object_representation_convert(types, colors, NoneGridObject())
    check(got.tolist() == [0, 7, 11], 'hard-coded no-overlap convert None', got.tolist())
    check(np.issubdtype(got.dtype, np.integer) and got.shape == (3,), 'dtype/shape')
    sp = R.default_grid_object_representation_space(types, colors)
    check(sp.upper_bound.tolist() == [6, 3, 4], 'hard-coded default ub')

    # convert never looks at the colours (an empty colour set is fine there) ...
    got = R.no_overlap_grid_object_representation_convert(types, set(), Key(Color.BLUE))
    check(got.tolist() == [6, 7, 14], 'convert with empty colours', got.tolist())
    # ... while the space needs them, and both need a non-empty type set
    for call in (
        lambda: R.no_overlap_grid_object_representation_space(types, set()),
        lambda: R.no_overlap_grid_object_representation_space(set(), colors),
        lambda: R.no_overlap_grid_object_representation_space(set(), set()),
        lambda: R.no_overlap_grid_object_representation_convert(set(), colors, Floor()),
        lambda: R.default_grid_object_representation_space(set(), colors),
    ):
        try:
            call()
        except ValueError:
            check(True)
        else:
            check(False, 'empty input did not raise ValueError')
    # single-type, single-colour
    sp = R.no_overlap_grid_object_representation_space({NoneGridObject}, {Color.NONE})
    check(sp.upper_bound.tolist() == [0, 2, 3], 'tiny ub', sp.upper_bound.tolist())
    got = R.no_overlap_grid_object_representation_convert({NoneGridObject}, {Color.NONE}, NoneGridObject())
    check(got.tolist() == [0, 1, 3], 'tiny convert', got.tolist())
    # frozensets / repeated calls with the same set object
    ft = frozenset(types)
    a = R.no_overlap_grid_object_representation_space(ft, frozenset(colors))
    b = R.no_overlap_grid_object_representation_space(ft, frozenset(colors))
    check(a == b and a.upper_bound is not b.upper_bound, 'repeatable')


# --------------------------------------------------------------------------
# 1c. the grid spaces: one copy of the grid-object bounds per cell, for every
#     grid shape (non-square ones tell height from width)


def grid_space_level():
    types, colors = [Floor, Wall, Exit, Door, Key], [Color.YELLOW, Color.RED]
    for height in range(1, 7):
        for width in range(1, 8):
            cases = []
            if height >= 2 and width >= 2:
                sspace = StateSpace(Shape(height, width), types, colors)
                cases.append(('state', make_state_representation, sspace, {NoneGridObject}))
            if width % 2 == 1:
                ospace = ObservationSpace(Shape(height, width), types, colors)
                cases.append(('observation', make_observation_representation, ospace, {NoneGridObject, Hidden}))
            for kind, make, space, extra_types in cases:
                full_types = set(types) | extra_types
                full_colors = set(colors) | {Color.NONE}
                for name in NAMES:
                    ctx = (kind, name, height, width)
                    rep = make(name, space)
                    grid_rep = rep.representations['grid']
                    cell = grid_rep.grid_object_representation.space
                    sp = grid_rep.space
                    ub = np.array(ref_upper(name, full_types, full_colors))
                    check(sp.space_type is cell.space_type is SpaceType.CATEGORICAL, 'space type', *ctx)
                    check(sp.shape == (height, width, 3), 'shape', sp.shape, *ctx)
                    check(sp.lower_bound.shape == sp.upper_bound.shape == (height, width, 3), 'bound shapes', *ctx)
                    check(sp.lower_bound.dtype == cell.lower_bound.dtype, 'lb dtype', *ctx)
                    check(sp.upper_bound.dtype == cell.upper_bound.dtype, 'ub dtype', *ctx)
                    check(np.issubdtype(sp.upper_bound.dtype, np.integer), 'int dtype', *ctx)
                    check(np.array_equal(sp.upper_bound, np.broadcast_to(ub, (height, width, 3))), 'ub', *ctx)
                    check(np.array_equal(sp.lower_bound, np.zeros((height, width, 3), int)), 'lb', *ctx)
                    for y in range(height):
                        for x in range(width):
                            check(sp.upper_bound[y, x].tolist() == cell.upper_bound.tolist(), 'cell ub', y, x, *ctx)
                    # bounds are writable private copies (never views of the
                    # cell bounds, of each other, or of an earlier result)
                    check(sp.upper_bound.flags.writeable and sp.lower_bound.flags.writeable, 'writeable', *ctx)
                    check(sp.upper_bound.flags.owndata or sp.upper_bound.base is not cell.upper_bound, 'view', *ctx)
                    check(not np.shares_memory(sp.upper_bound, sp.lower_bound), 'lb/ub share', *ctx)
                    check(not np.shares_memory(sp.upper_bound, cell.upper_bound), 'ub shares cell', *ctx)
                    other = grid_rep.space
                    check(not np.shares_memory(sp.upper_bound, other.upper_bound), 'ub shares', *ctx)
                    check(not np.shares_memory(sp.lower_bound, other.lower_bound), 'lb shares', *ctx)
                    check(sp == other, 'equal', *ctx)
                    # the gym layer advertises exactly these bounds
                    try:
                        from gym_gridverse.gym import outer_space_to_gym_space
                    except Exception:
                        continue
                    box = outer_space_to_gym_space(rep.space)['grid']
                    check(box.shape == (height, width, 3), 'gym shape', *ctx)
                    check(np.array_equal(box.high, sp.upper_bound) and np.array_equal(box.low, sp.lower_bound), 'gym bounds', *ctx)

    # Space.tile, where available, against numpy on all three space types
    if hasattr(Space, 'tile'):
        lo = np.array([-1.0, 0.0, 0.5])
        hi = np.array([1.0, 0.0, 2.5])
        for base in (
            Space.make_continuous_space(lo, hi),
            Space.make_discrete_space(np.array([-2, 0, 1]), np.array([3, 0, 1])),
            Space.make_categorical_space(np.array([4, 0, 9])),
            Space.make_discrete_space(np.zeros((2, 3), int), np.ones((2, 3), int)),
        ):
            for reps in ((2, 5, 1), (5, 2, 1), (1, 1, 1), (3,), (1,), (2, 2), (0, 4, 1)):
                tiled = base.tile(reps)
                check(tiled.space_type is base.space_type, 'tile type')
                check(np.array_equal(tiled.lower_bound, np.tile(base.lower_bound, reps)), 'tile lb')
                check(np.array_equal(tiled.upper_bound, np.tile(base.upper_bound, reps)), 'tile ub')
                check(tiled.lower_bound.dtype == base.lower_bound.dtype, 'tile dtype')
                check(not np.shares_memory(tiled.upper_bound, base.upper_bound), 'tile alias')
                check(not np.shares_memory(tiled.lower_bound, base.lower_bound), 'tile alias')
            try:
                base.tile((-1, 2, 1))
            except ValueError:
                check(True)
            else:
                check(False, 'negative reps accepted')


# --------------------------------------------------------------------------
# 2. whole states / observations: every agent pose, held item, grid shape


def random_grid(shape, members, rng):
    return Grid(
        [
            [members[rng.integers(len(members))] for _ in range(shape.width)]
            for _ in range(shape.height)
        ]
    )


def ref_grid(name, types, colors, grid):
    return [
        [ref_convert(name, types, colors, grid[Position(y, x)]) for x in range(grid.shape.width)]
        for y in range(grid.shape.height)
    ]


def border_positions(shape):
    ys = sorted({0, shape.height // 2, shape.height - 1})
    xs = sorted({0, shape.width // 2, shape.width - 1})
    return [Position(y, x) for y in ys for x in xs]


def state_level():
    rng = np.random.default_rng(1515)
    configs = [
        (STATE_TYPES, ALL_COLORS),
        ([Floor], []),
        ([Wall, Door], [Color.BLUE]),
        ([Floor, Wall, Exit, Door, Key], [Color.NONE, Color.YELLOW]),
        ([Beacon, Telepod, MovingObstacle], [Color.RED, Color.GREEN]),
        ([Key], [Color.YELLOW]),
    ]
    shapes = [Shape(2, 2), Shape(2, 5), Shape(5, 2), Shape(3, 7), Shape(6, 4)]
    for types, colors in configs:
        full_types = set(types) | {NoneGridObject}
        full_colors = set(colors) | {Color.NONE}
        grid_members = [o for t in types for o in instances(t, full_colors)]
        items = [o for t in full_types for o in instances(t, full_colors)]
        for shape in shapes:
            space = StateSpace(shape, types, colors)
            reps = {name: make_state_representation(name, space) for name in NAMES}
            spaces = {name: reps[name].space for name in NAMES}
            for name in NAMES:
                ctx = ('state', name, shape, [t.__name__ for t in types])
                sp = spaces[name]
                check(set(sp) == {'grid', 'agent_id_grid', 'agent', 'item'}, 'keys', *ctx)
                ub = ref_upper(name, full_types, full_colors)
                check(sp['grid'].shape == (shape.height, shape.width, 3), 'grid space shape', sp['grid'].shape, *ctx)
                check(sp['grid'].space_type is SpaceType.CATEGORICAL, 'grid space type', *ctx)
                check(np.all(sp['grid'].lower_bound == 0), 'grid lb', *ctx)
                check(np.all(sp['grid'].upper_bound == np.array(ub)), 'grid ub', *ctx)
                check(np.issubdtype(sp['grid'].lower_bound.dtype, np.integer), 'grid lb dtype', *ctx)
                check(np.issubdtype(sp['grid'].upper_bound.dtype, np.integer), 'grid ub dtype', *ctx)
                check(sp['item'].upper_bound.tolist() == ub, 'item ub', *ctx)
                check(sp['agent_id_grid'].shape == (shape.height, shape.width), 'id shape', *ctx)
                check(sp['agent_id_grid'].space_type is SpaceType.DISCRETE, 'id type', *ctx)
                check(sp['agent'].shape == (6,), 'agent shape', *ctx)
                # the tiled bounds are private arrays: writing to one space
                # does not leak into a second request, nor into the item space
                sp2 = reps[name].space
                sp['grid'].upper_bound[0, 0, 0] += 1000
                sp['grid'].lower_bound[0, 0, 0] -= 1000
                check(np.all(sp2['grid'].upper_bound == np.array(ub)), 'leak ub', *ctx)
                check(np.all(sp2['grid'].lower_bound == 0), 'leak lb', *ctx)
                check(reps[name].space['item'].upper_bound.tolist() == ub, 'leak item', *ctx)
                spaces[name] = sp2
            for n, position in enumerate(border_positions(shape)):
                for orientation in Orientation:
                    item = items[(n * 4 + orientation.value) % len(items)]
                    grid = random_grid(shape, grid_members, rng)
                    state = State(grid, Agent(position, orientation, item))
                    check(space.contains(state), 'not a member state')
                    for name in NAMES:
                        ctx = ('state', name, shape, position, orientation, item)
                        arrays = reps[name].convert(state)
                        check_dict(arrays, spaces[name], *ctx)
                        check(arrays['grid'].tolist() == ref_grid(name, full_types, full_colors, grid), 'grid values', *ctx)
                        check(arrays['item'].tolist() == ref_convert(name, full_types, full_colors, item), 'item values', *ctx)
                        idg = np.zeros((shape.height, shape.width), int)
                        idg[position.y, position.x] = 1
                        check(np.array_equal(arrays['agent_id_grid'], idg), 'id grid', *ctx)
                        ag = [0.0] * 6
                        ag[0] = (2 * position.y - shape.height + 1) / (shape.height - 1)
                        ag[1] = (2 * position.x - shape.width + 1) / (shape.width - 1)
                        ag[2 + orientation.value] = 1.0
                        check(arrays['agent'].tolist() == ag, 'agent values', arrays['agent'].tolist(), ag, *ctx)
                        # repeated conversion gives equal, fresh arrays
                        again = reps[name].convert(state)
                        for key in arrays:
                            check(np.array_equal(arrays[key], again[key]), 'repeat', key, *ctx)
                            check(arrays[key] is not again[key], 'aliased', key, *ctx)


def observation_level():
    rng = np.random.default_rng(151515)
    configs = [
        (PLAIN_TYPES, ALL_COLORS),
        ([Floor], []),
        ([Wall, Door, Box], [Color.BLUE]),
        ([Floor, Wall, Exit, Door, Key], [Color.NONE, Color.YELLOW]),
        ([Beacon, Telepod, MovingObstacle], [Color.RED, Color.GREEN]),
        ([Box], []),
    ]
    # view shapes: odd width, including degenerate and asymmetric ones
    shapes = [Shape(1, 1), Shape(2, 1), Shape(1, 3), Shape(3, 3), Shape(7, 5), Shape(2, 7), Shape(6, 3)]
    for types, colors in configs:
        full_types = set(types) | {NoneGridObject, Hidden}
        full_colors = set(colors) | {Color.NONE}
        grid_members = [o for t in set(types) | {Hidden} for o in instances(t, full_colors)]
        items = [o for t in set(types) | {NoneGridObject} for o in instances(t, full_colors)]
        for shape in shapes:
            space = ObservationSpace(shape, types, colors)
            reps = {name: make_observation_representation(name, space) for name in NAMES}
            spaces = {name: reps[name].space for name in NAMES}
            for name in NAMES:
                ctx = ('observation', name, shape, [t.__name__ for t in types])
                sp = spaces[name]
                check(set(sp) == {'grid', 'agent_id_grid', 'item'}, 'keys', *ctx)
                ub = ref_upper(name, full_types, full_colors)
                check(sp['grid'].shape == (shape.height, shape.width, 3), 'grid space shape', sp['grid'].shape, *ctx)
                check(sp['grid'].space_type is SpaceType.CATEGORICAL, 'grid space type', *ctx)
                check(np.all(sp['grid'].lower_bound == 0), 'grid lb', *ctx)
                check(np.all(sp['grid'].upper_bound == np.array(ub)), 'grid ub', *ctx)
                check(np.issubdtype(sp['grid'].upper_bound.dtype, np.integer), 'grid ub dtype', *ctx)
                check(sp['item'].upper_bound.tolist() == ub, 'item ub', *ctx)
                check(sp['agent_id_grid'].shape == (shape.height, shape.width), 'id shape', *ctx)
                sp2 = reps[name].space
                sp['grid'].upper_bound[0, 0, 0] += 1000
                check(np.all(sp2['grid'].upper_bound == np.array(ub)), 'leak ub', *ctx)
                check(reps[name].space['item'].upper_bound.tolist() == ub, 'leak item', *ctx)
                spaces[name] = sp2
            for n, item in enumerate(items):
                grid = random_grid(shape, grid_members, rng)
                agent = Agent(space.agent_position, Orientation.F, item)
                observation = Observation(grid, agent)
                check(space.contains(observation), 'not a member observation')
                for name in NAMES:
                    ctx = ('observation', name, shape, item)
                    arrays = reps[name].convert(observation)
                    check_dict(arrays, spaces[name], *ctx)
                    check(arrays['grid'].tolist() == ref_grid(name, full_types, full_colors, grid), 'grid values', *ctx)
                    check(arrays['item'].tolist() == ref_convert(name, full_types, full_colors, item), 'item values', *ctx)
                    idg = np.zeros((shape.height, shape.width), int)
                    idg[shape.height - 1, shape.width // 2] = 1
                    check(np.array_equal(arrays['agent_id_grid'], idg), 'id grid', *ctx)


# --------------------------------------------------------------------------
# 3. trajectories of the shipped configurations (skipped if YAML unavailable)


def _scalar(text):
    text = text.strip()
    if text.startswith('['):
        quoted = re.sub(r'[A-Za-z_][A-Za-z_0-9]*', lambda m: '"%s"' % m.group(), text)
        return json.loads(quoted)
    if text in ('True', 'true'):
        return True
    if text in ('False', 'false'):
        return False
    for cast in (int, float):
        try:
            return cast(text)
        except ValueError:
            pass
    return text


def _parse_block(lines, i, indent):
    """parses the small YAML subset used by the shipped configurations"""
    if lines[i][1].startswith('- '):
        out = []
        while i < len(lines) and lines[i][0] == indent and lines[i][1].startswith('- '):
            rest = lines[i][1][2:].strip()
            if re.match(r'^[A-Za-z_]+:', rest):
                lines[i] = (indent + 2, rest)  # mapping item: re-read as a mapping
                value, i = _parse_block(lines, i, indent + 2)
            else:
                value, i = _scalar(rest), i + 1
            out.append(value)
        return out, i
    out = {}
    while i < len(lines) and lines[i][0] == indent and not lines[i][1].startswith('- '):
        key, _, rest = lines[i][1].partition(':')
        if rest.strip():
            out[key.strip()], i = _scalar(rest), i + 1
        else:
            check(lines[i + 1][0] > indent, 'yaml subset: nested block expected')
            out[key.strip()], i = _parse_block(lines, i + 1, lines[i + 1][0])
    return out, i


def load_config(path):
    lines = []
    with open(path) as f:
        for raw in f:
            raw = raw.split('#')[0].rstrip()
            if raw.strip():
                lines.append((len(raw) - len(raw.lstrip()), raw.strip()))
    data, i = _parse_block(lines, 0, 0)
    check(i == len(lines), 'yaml subset: trailing lines', path)
    return data


def trajectories():
    try:
        from gym_gridverse.envs.yaml.factory import factory_env_from_data
        from gym_gridverse.gym import GymEnvironment
        from gym_gridverse.outer_env import OuterEnv
    except Exception as error:  # pragma: no cover
        print('trajectories skipped:', type(error).__name__)
        return 0
    paths = sorted(glob.glob('gym_gridverse/registered_envs/*.yaml'))
    done = 0
    for path in paths:
        inner = factory_env_from_data(load_config(path))
        state_ok = inner.state_space.can_be_represented
        s_reps = {n: make_state_representation(n, inner.state_space) for n in NAMES} if state_ok else {}
        o_reps = {n: make_observation_representation(n, inner.observation_space) for n in NAMES}
        gym_env = GymEnvironment(
            OuterEnv(
                inner,
                state_representation=s_reps.get('default'),
                observation_representation=o_reps['default'],
            )
        )
        for seed in (0, 7, 0):  # includes re-seeding with an earlier seed
            inner.set_seed(seed)
            rng = np.random.default_rng(seed)
            inner.reset()
            for step in range(30):
                for name in NAMES:
                    ctx = (os.path.basename(path), name, seed, step)
                    check_dict(o_reps[name].convert(inner.observation), o_reps[name].space, 'obs', *ctx)
                    if state_ok:
                        check_dict(s_reps[name].convert(inner.state), s_reps[name].space, 'state', *ctx)
                name = NAMES[step % 3]
                gym_env.set_observation_representation(name)
                check(gym_env.observation_space.contains(
                    {k: v.astype(gym_env.observation_space[k].dtype) for k, v in gym_env.observation.items()}
                ), 'gym observation', path, name, step)
                if state_ok:
                    gym_env.set_state_representation(name)
                    check(gym_env.state_space.contains(
                        {k: v.astype(gym_env.state_space[k].dtype) for k, v in gym_env.state.items()}
                    ), 'gym state', path, name, step)
                action = inner.action_space.actions[rng.integers(inner.action_space.num_actions)]
                _, terminal = inner.step(action)
                if terminal:
                    inner.reset()
        done += 1
    return done


if __name__ == '__main__':
    function_level()
    grid_space_level()
    grid_object_level()
    state_level()
    observation_level()
    n = trajectories()
    print(f'OK: {CHECKS} checks, {n} shipped configurations')
