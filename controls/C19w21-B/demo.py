"""C19 demo (change B): ray-traced visibility = reference, unobstructed view shows all.

Runs unchanged on the pristine tree and with the patch applied.
"""
import itertools as itt
import os
import sys
import warnings

sys.path.insert(0, os.getcwd())  # run from the worktree root

import numpy as np
import numpy.random as rnd

from gym_gridverse.agent import Agent
from gym_gridverse.envs import observation_functions as obs_fs
from gym_gridverse.envs import visibility_functions as vis_fs
from gym_gridverse.geometry import Area, Orientation, Position
from gym_gridverse.grid import Grid
from gym_gridverse.grid_object import (
    Beacon,
    Box,
    Color,
    Door,
    Exit,
    Floor,
    Hidden,
    Key,
    MovingObstacle,
    NoneGridObject,
    Telepod,
    Wall,
)
from gym_gridverse.rng import reset_gv_rng
from gym_gridverse.state import State
from gym_gridverse.utils.raytracing import (
    cached_compute_rays_fancy,
    compute_rays_fancy,
)


# ---- reference implementations (verbatim copies of the pristine loops) ----
def ref_counts(grid, position, rays=None):
    if rays is None:
        rays = compute_rays_fancy(position, grid.area)  # uncached
    counts_num = np.zeros((grid.shape.height, grid.shape.width), dtype=int)
    counts_den = np.zeros((grid.shape.height, grid.shape.width), dtype=int)
    for ray in rays:
        light = True
        for pos in ray:
            counts_num[pos.y, pos.x] += int(light)
            counts_den[pos.y, pos.x] += 1
            light = light and not grid[pos].blocks_vision
    return counts_num, counts_den


def ref_raytracing(grid, position, *, absolute_counts=True, threshold=1):
    counts_num, counts_den = ref_counts(grid, position)
    return (
        counts_num >= threshold
        if absolute_counts
        else (counts_num / counts_den) >= threshold
    )


def ref_stochastic_raytracing(grid, position, *, rng):
    counts_num, counts_den = ref_counts(grid, position)
    probs = np.nan_to_num(counts_num / counts_den)
    return rng.random(probs.shape) < probs


def same(a, b):
    return a.dtype == b.dtype and a.shape == b.shape and bool((a == b).all())


# ---- the ray property, on the rays the visibility functions use ----
def check_fan(rays, position, area):
    for ray in rays:
        assert ray[0] == position
        assert all(area.contains(p) for p in ray)
        assert len(set(ray)) == len(ray)
        for p, q in zip(ray, ray[1:]):
            assert max(abs(p.y - q.y), abs(p.x - q.x)) == 1
        last = ray[-1]
        assert last.y in (area.ymin, area.ymax) or last.x in (
            area.xmin,
            area.xmax,
        )
    assert set(itt.chain.from_iterable(rays)) == set(area.positions())


OBJECT_FACTORIES = [
    Floor,
    Wall,
    Exit,
    lambda: Door(Door.Status.OPEN, Color.RED),
    lambda: Door(Door.Status.CLOSED, Color.NONE),
    lambda: Door(Door.Status.LOCKED, Color.BLUE),
    lambda: Key(Color.NONE),
    MovingObstacle,
    lambda: Box(Key(Color.GREEN)),
    lambda: Telepod(Color.YELLOW),
    lambda: Beacon(Color.NONE),
    NoneGridObject,
    Hidden,
]

SHAPES = [(1, 1), (1, 6), (6, 1), (2, 2), (3, 5), (5, 3), (4, 7), (7, 7)]


def random_grid(shape, rng, p_special):
    grid = Grid.from_shape(shape, factory=Floor)
    for position in grid.area.positions():
        if rng.random() < p_special:
            factory = OBJECT_FACTORIES[rng.integers(len(OBJECT_FACTORIES))]
            grid[position] = factory()
    return grid


def main():
    warnings.simplefilter('error')  # no new (or lost) numpy warnings either
    scenario_rng = rnd.default_rng(19)
    n = 0

    # 1. unobstructed view shows everything, from every origin
    for shape in SHAPES:
        grid = Grid.from_shape(shape, factory=Floor)
        for position in grid.area.positions():
            rays = cached_compute_rays_fancy(position, grid.area)
            check_fan(rays, position, grid.area)
            num, den = ref_counts(grid, position, rays)
            assert (num == den).all() and (den >= 1).all()
            v = vis_fs.raytracing(grid, position)
            assert v.dtype == bool and v.shape == shape and v.all()
            v = vis_fs.raytracing(
                grid, position, absolute_counts=False, threshold=1.0
            )
            assert v.all()
            v = vis_fs.stochastic_raytracing(
                grid, position, rng=rnd.default_rng(0)
            )
            assert v.dtype == bool and v.shape == shape and v.all()
            n += 1

    # 2. grids with every object type: equality with the reference
    for shape, p_special in itt.product(SHAPES, [0.2, 0.6, 1.0]):
        grid = random_grid(shape, scenario_rng, p_special)
        positions = list(grid.area.positions())
        # corners, borders and a few others
        chosen = {positions[0], positions[-1]}
        chosen |= {
            Position(0, shape[1] - 1),
            Position(shape[0] - 1, 0),
            Position(shape[0] // 2, shape[1] // 2),
            Position(shape[0] - 1, shape[1] // 2),
        }
        for position in sorted(chosen, key=lambda p: p.yx):
            for absolute_counts, threshold in [
                (True, 1),
                (True, 2),
                (True, 5),
                (True, 0),
                (False, 1.0),
                (False, 0.5),
                (False, 0.0),
                (False, 1),
            ]:
                got = vis_fs.raytracing(
                    grid,
                    position,
                    absolute_counts=absolute_counts,
                    threshold=threshold,
                )
                expected = ref_raytracing(
                    grid,
                    position,
                    absolute_counts=absolute_counts,
                    threshold=threshold,
                )
                assert same(got, expected), (shape, position, threshold)
                # origin always visible with the default parameters
            assert vis_fs.raytracing(grid, position)[position.y, position.x]
            # repeated calls: independent, equal results (no shared arrays)
            first = vis_fs.raytracing(grid, position)
            first_copy = first.copy()
            second = vis_fs.raytracing(grid, position)
            second[...] = False
            assert same(first, first_copy)
            assert same(vis_fs.raytracing(grid, position), first_copy)

            # stochastic: same draws, same number of draws
            for seed in (0, 1):
                rng_a, rng_b = rnd.default_rng(seed), rnd.default_rng(seed)
                got = vis_fs.stochastic_raytracing(grid, position, rng=rng_a)
                expected = ref_stochastic_raytracing(
                    grid, position, rng=rng_b
                )
                assert same(got, expected)
                assert rng_a.random() == rng_b.random()
            # library-level generator, re-seeding
            reset_gv_rng(7)
            got = vis_fs.stochastic_raytracing(grid, position)
            got2 = vis_fs.stochastic_raytracing(grid, position)
            rng_b = rnd.default_rng(7)
            assert same(
                got, ref_stochastic_raytracing(grid, position, rng=rng_b)
            )
            assert same(
                got2, ref_stochastic_raytracing(grid, position, rng=rng_b)
            )
            reset_gv_rng(7)
            assert same(got, vis_fs.stochastic_raytracing(grid, position))
            n += 1

    # 3. hard-coded expectations
    grid = Grid.from_shape((3, 5), factory=Floor)
    grid[Position(1, 2)] = Wall()
    expected = np.array(
        [[1, 1, 1, 1, 1], [1, 1, 1, 0, 0], [1, 1, 1, 1, 1]], dtype=bool
    )
    assert same(vis_fs.raytracing(grid, Position(1, 0)), expected)
    grid = Grid.from_shape((1, 5), factory=Floor)
    grid[Position(0, 1)] = Door(Door.Status.CLOSED, Color.NONE)
    expected = np.array([[1, 1, 0, 0, 0]], dtype=bool)
    assert same(vis_fs.raytracing(grid, Position(0, 0)), expected)
    expected = np.array([[0, 1, 1, 1, 1]], dtype=bool)
    assert same(vis_fs.raytracing(grid, Position(0, 4)), expected)

    # 4. through the observation function: all headings, asymmetric areas,
    #    agent in corners and on borders of a non-square open room
    grid = Grid.from_shape((4, 6), factory=Floor)
    for area in [Area((-6, 0), (-3, 3)), Area((-2, 1), (-1, 3)), Area((0, 0), (0, 0))]:
        for position in grid.area.positions():
            for orientation in [
                Orientation.F,
                Orientation.B,
                Orientation.L,
                Orientation.R,
            ]:
                state = State(grid, Agent(position, orientation))
                for f in (obs_fs.raytracing, obs_fs.stochastic_raytracing):
                    observation = f(state, area=area, rng=rnd.default_rng(3))
                    assert observation.grid.shape.as_tuple == (
                        area.height,
                        area.width,
                    )
                    pov = state.agent.transform * area
                    for p in area.positions():
                        q = state.agent.transform * p
                        obj = observation.grid[
                            Position(p.y - area.ymin, p.x - area.xmin)
                        ]
                        if grid.area.contains(q):
                            assert isinstance(obj, Floor), (area, position, p)
                        else:
                            assert isinstance(obj, Hidden), (area, position, p)
                    assert pov.height in (area.height, area.width)
                n += 1

    print(f'OK ({n} scenarios checked)')
    return 0


if __name__ == '__main__':
    sys.exit(main())
