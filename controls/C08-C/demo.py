"""Behavioural check of agent kinematics (property C08).

Run as:  cd /tmp/wt3-C08 && /venv/bin/python -W ignore _seed/<X>/demo.py

The expected outcomes are computed by an independent re-implementation of the
kinematics (integer headings, clockwise quarter turns, plain tuples) that does
not use any of the library's tables or operators; the library is then driven
through its public API and compared against that model.

Sections
  1. geometry: orientation composition / negation / rotation of positions
  2. get_next_position: all positions x headings x actions
  3. move_agent: all grids x poses x actions x target-cell kinds
  4. turn_agent: all headings x actions, inverse and 4-cycle laws
  5. other transition functions never change the pose
  6. teleport: exact target and exact random-number consumption
  7. rollouts in all 21 shipped configurations (step-by-step vs model),
     plus a digest of the complete traces (regression guard, also covers
     random-number consumption order)
"""
import hashlib
import os
import sys

sys.path.insert(0, os.getcwd())

import numpy.random as rnd  # noqa: E402

from gym_gridverse.action import Action  # noqa: E402
from gym_gridverse.agent import Agent  # noqa: E402
from gym_gridverse.envs import reset_functions as reset_fs  # noqa: E402
from gym_gridverse.envs import transition_functions as transition_fs  # noqa: E402
from gym_gridverse.envs.utils import get_next_position  # noqa: E402
from gym_gridverse.geometry import (  # noqa: E402
    Area,
    Orientation,
    Position,
    Shape,
    Transform,
)
from gym_gridverse.grid import Grid  # noqa: E402
from gym_gridverse.grid_object import (  # noqa: E402
    Beacon,
    Box,
    Color,
    Door,
    Exit,
    Floor,
    Hidden,
    Key,
    MovingObstacle,
    NoneGridObject,
    Telepod,
    Wall,
)
from gym_gridverse.state import State  # noqa: E402

# --------------------------------------------------------------------------
# independent reference model
# --------------------------------------------------------------------------

# headings are integers, counted in clockwise quarter turns from "north"
HEADING_NAMES = ['FORWARD', 'RIGHT', 'BACKWARD', 'LEFT']
HEADING_DELTAS = [(-1, 0), (0, 1), (1, 0), (0, -1)]  # (dy, dx), y downward
MOVE_TURNS = {
    'MOVE_FORWARD': 0,
    'MOVE_RIGHT': 1,
    'MOVE_BACKWARD': 2,
    'MOVE_LEFT': 3,
}
TURN_TURNS = {'TURN_LEFT': 3, 'TURN_RIGHT': 1}
ALL_ACTION_NAMES = [
    'MOVE_FORWARD',
    'MOVE_BACKWARD',
    'MOVE_LEFT',
    'MOVE_RIGHT',
    'TURN_LEFT',
    'TURN_RIGHT',
    'ACTUATE',
    'PICK_N_DROP',
]


def heading_of(orientation):
    return HEADING_NAMES.index(orientation.name)


def orientation_of(heading):
    return Orientation[HEADING_NAMES[heading % 4]]


def ref_rotate(heading, yx):
    """rotates the vector `yx` by `heading` clockwise quarter turns"""
    y, x = yx
    for _ in range(heading % 4):
        y, x = x, -y
    return y, x


def ref_blocks(obj):
    name = type(obj).__name__
    if name in ('Wall', 'Box'):
        return True
    if name == 'Door':
        return obj.state.name != 'OPEN'
    assert name in (
        'Floor',
        'Exit',
        'Key',
        'MovingObstacle',
        'Telepod',
        'Beacon',
        'Hidden',
        'NoneGridObject',
    ), name
    return False


def ref_target(yx, heading, action_name):
    dy, dx = HEADING_DELTAS[(heading + MOVE_TURNS[action_name]) % 4]
    return yx[0] + dy, yx[1] + dx


def ref_step_pose(objects, yx, heading, action_name):
    """pose after `move_agent` and `turn_agent` (no teleportation)"""
    height, width = len(objects), len(objects[0])
    if action_name in MOVE_TURNS:
        ty, tx = ref_target(yx, heading, action_name)
        if 0 <= ty < height and 0 <= tx < width:
            if not ref_blocks(objects[ty][tx]):
                return (ty, tx), heading
        return yx, heading
    if action_name in TURN_TURNS:
        return yx, (heading + TURN_TURNS[action_name]) % 4
    return yx, heading


# --------------------------------------------------------------------------
# helpers
# --------------------------------------------------------------------------

ALL_ACTIONS = list(Action)
assert [a.name for a in ALL_ACTIONS] == ALL_ACTION_NAMES
ALL_ORIENTATIONS = [orientation_of(k) for k in range(4)]
assert set(ALL_ORIENTATIONS) == set(Orientation)

COUNTS = {}


def count(key, n=1):
    COUNTS[key] = COUNTS.get(key, 0) + n


def target_kinds():
    """factories of every kind of target cell (type and status)"""
    kinds = [
        Floor,
        Wall,
        Exit,
        lambda: Exit(Color.RED),
        lambda: Key(Color.RED),
        lambda: Key(Color.BLUE),
        MovingObstacle,
        lambda: Box(Floor()),
        lambda: Box(Key(Color.GREEN)),
        lambda: Box(Wall()),
        lambda: Telepod(Color.RED),
        lambda: Telepod(Color.YELLOW),
        lambda: Beacon(Color.GREEN),
        Hidden,
        NoneGridObject,
    ]
    for status in Door.Status:
        for color in (Color.NONE, Color.RED, Color.YELLOW):
            kinds.append(lambda status=status, color=color: Door(status, color))
    return kinds


def snapshot_grid(grid):
    return [[(id(obj), repr(obj)) for obj in row] for row in grid.objects]


def rng_state(rng):
    return repr(rng.bit_generator.state)


def clone_rng(rng):
    clone = rnd.default_rng(0)
    clone.bit_generator.state = rng.bit_generator.state
    return clone


SHAPES = [
    (1, 1),
    (1, 2),
    (2, 1),
    (1, 4),
    (3, 1),
    (2, 2),
    (3, 3),
    (2, 5),
    (4, 3),
]


# --------------------------------------------------------------------------
# 1. geometry
# --------------------------------------------------------------------------


def check_geometry():
    import gym_gridverse.geometry as geometry

    for i, a in enumerate(ALL_ORIENTATIONS):
        assert Position.from_orientation(a) == Position(*HEADING_DELTAS[i])
        assert Position.from_orientation(a).yx == HEADING_DELTAS[i]
        assert -a is orientation_of(-i), (a, -a)
        assert a * -a is Orientation.F and -a * a is Orientation.F
        for j, b in enumerate(ALL_ORIENTATIONS):
            assert a * b is orientation_of(i + j), (a, b, a * b)
            assert type(a * b) is Orientation
            count('orientation products')
        for y in range(-3, 4):
            for x in range(-3, 4):
                rotated = a * Position(y, x)
                assert type(rotated) is Position
                assert rotated.yx == ref_rotate(i, (y, x)), (a, y, x, rotated)
                assert (Position(y, x) * a) == rotated
                count('position rotations')

    # quarter-turn laws
    for a in ALL_ORIENTATIONS:
        assert a * Orientation.L * Orientation.R is a
        assert a * Orientation.R * Orientation.L is a
        assert a * Orientation.L * Orientation.L * Orientation.L * Orientation.L is a
        assert a * Orientation.R * Orientation.R * Orientation.R * Orientation.R is a
        assert a * Orientation.L is not a and a * Orientation.R is not a
        assert a * Orientation.L * Orientation.L is a * Orientation.B
        assert a * Orientation.R * Orientation.R is a * Orientation.B

    # the module-level tables, content and order of keys
    F, R, B, L = ALL_ORIENTATIONS
    expected_rotations = [
        ((F, F), F), ((F, R), R), ((F, B), B), ((F, L), L),
        ((R, F), R), ((R, R), B), ((R, B), L), ((R, L), F),
        ((B, F), B), ((B, R), L), ((B, B), F), ((B, L), R),
        ((L, F), L), ((L, R), F), ((L, B), R), ((L, L), B),
    ]  # fmt: skip
    table = geometry._orientation_rotations
    assert type(table) is dict
    assert list(table.items()) == expected_rotations
    assert all(v is e[1] for v, e in zip(table.values(), expected_rotations))
    table = geometry._orientation_neg
    assert type(table) is dict
    assert list(table.items()) == [(F, F), (R, L), (B, B), (L, R)]
    table = geometry._position_from_orientation
    assert type(table) is dict
    assert list(table.items()) == [
        (F, Position(-1, 0)),
        (R, Position(0, 1)),
        (B, Position(1, 0)),
        (L, Position(0, -1)),
    ]

    # enum itself
    assert [o.name for o in Orientation] == [
        'FORWARD',
        'BACKWARD',
        'LEFT',
        'RIGHT',
    ]
    assert [o.value for o in Orientation] == [0, 1, 2, 3]
    assert Orientation.F is Orientation.FORWARD
    assert Orientation.B is Orientation.BACKWARD
    assert Orientation.L is Orientation.LEFT
    assert Orientation.R is Orientation.RIGHT

    # unsupported operands
    for bad in (1, 'x', None, (0, 1)):
        try:
            Orientation.F * bad
        except TypeError:
            pass
        else:
            raise AssertionError(bad)
    try:
        Position.from_orientation('FORWARD')
    except TypeError:
        pass
    else:
        raise AssertionError

    # transforms and agent.front
    for i, a in enumerate(ALL_ORIENTATIONS):
        for y in range(-2, 3):
            for x in range(-2, 3):
                transform = Transform(Position(y, x), a)
                agent = Agent(Position(y, x), a)
                dy, dx = HEADING_DELTAS[i]
                assert agent.front() == Position(y + dy, x + dx)
                for j, b in enumerate(ALL_ORIENTATIONS):
                    assert transform * b is orientation_of(i + j)
                    other = Transform(Position(1, -2), b)
                    product = transform * other
                    ry, rx = ref_rotate(i, (1, -2))
                    assert product.position == Position(y + ry, x + rx)
                    assert product.orientation is orientation_of(i + j)
                    inverse = -transform
                    identity = inverse * transform
                    assert identity.position == Position(0, 0)
                    assert identity.orientation is Orientation.F
                    count('transform products')
        area = Area((-1, 2), (-3, 0))
        corners = [
            ref_rotate(i, (y, x)) for y in (-1, 2) for x in (-3, 0)
        ]
        ys = [c[0] for c in corners]
        xs = [c[1] for c in corners]
        assert a * area == Area((min(ys), max(ys)), (min(xs), max(xs)))


# --------------------------------------------------------------------------
# 2. get_next_position
# --------------------------------------------------------------------------


def check_get_next_position():
    for y in range(-3, 5):
        for x in range(-3, 5):
            for heading, orientation in enumerate(ALL_ORIENTATIONS):
                for action in ALL_ACTIONS:
                    position = Position(y, x)
                    result = get_next_position(position, orientation, action)
                    assert type(result) is Position
                    if action.name in MOVE_TURNS:
                        expected = ref_target((y, x), heading, action.name)
                        assert result.yx == expected, (y, x, orientation, action)
                        # exactly one cell away
                        assert abs(result.y - y) + abs(result.x - x) == 1
                    else:
                        # the very same object is handed back
                        assert result is position
                    assert position == Position(y, x)
                    # keyword arguments are accepted as well
                    assert (
                        get_next_position(
                            position=position,
                            orientation=orientation,
                            action=action,
                        )
                        == result
                    )
                    count('get_next_position')

    # is_move / is_turn
    for action in ALL_ACTIONS:
        assert action.is_move() == (action.name in MOVE_TURNS)
        assert action.is_turn() == (action.name in TURN_TURNS)


# --------------------------------------------------------------------------
# 3. move_agent
# --------------------------------------------------------------------------


def check_move_agent():
    kinds = target_kinds()
    rng = rnd.default_rng(123)
    rng_before = rng_state(rng)

    for height, width in SHAPES:
        for y in range(height):
            for x in range(width):
                for heading, orientation in enumerate(ALL_ORIENTATIONS):
                    for action in ALL_ACTIONS:
                        for k, kind in enumerate(kinds):
                            for background in (Floor, Wall):
                                _check_move_agent_case(
                                    height,
                                    width,
                                    (y, x),
                                    heading,
                                    orientation,
                                    action,
                                    kind,
                                    background,
                                    held=Key(Color.RED) if k % 2 else None,
                                    rng=rng if k % 3 else None,
                                )
    assert rng_state(rng) == rng_before


def _check_move_agent_case(
    height, width, yx, heading, orientation, action, kind, background, held, rng
):
    objects = [[background() for _ in range(width)] for _ in range(height)]
    # the agent's own cell never matters, keep it a floor for validity
    objects[yx[0]][yx[1]] = Floor()
    target_inside = False
    if action.name in MOVE_TURNS:
        ty, tx = ref_target(yx, heading, action.name)
        if 0 <= ty < height and 0 <= tx < width:
            objects[ty][tx] = kind()
            target_inside = True
    else:
        # put the object in front of the agent
        ty, tx = ref_target(yx, heading, 'MOVE_FORWARD')
        if 0 <= ty < height and 0 <= tx < width:
            objects[ty][tx] = kind()

    grid = Grid(objects)
    agent = Agent(Position(*yx), orientation, held)
    state = State(grid, agent)
    held_before = agent.grid_object
    transform_before = agent.transform
    before = snapshot_grid(grid)
    expected_yx, expected_heading = ref_step_pose(
        objects, yx, heading, action.name
    )
    if action.name in TURN_TURNS:
        expected_heading = heading  # move_agent does not turn

    if rng is None:
        result = transition_fs.move_agent(state, action)
    else:
        result = transition_fs.move_agent(state, action, rng=rng)

    assert result is None
    assert state.agent is agent and state.grid is grid
    assert agent.transform is transform_before
    assert agent.position.yx == expected_yx, (
        (height, width),
        yx,
        orientation,
        action,
        objects,
        agent.position,
    )
    assert type(agent.position) is Position
    assert agent.orientation is orientation_of(expected_heading)
    assert agent.grid_object is held_before
    assert snapshot_grid(grid) == before
    assert grid.objects is objects

    # derived facts
    moved = expected_yx != yx
    if moved:
        assert action.name in MOVE_TURNS and target_inside
        assert abs(expected_yx[0] - yx[0]) + abs(expected_yx[1] - yx[1]) == 1
    assert grid.area.contains(agent.position)
    assert not grid[agent.position].blocks_movement
    assert ref_blocks(grid[agent.position]) is False
    count('move_agent')
    count('move_agent displaced', int(moved))


# --------------------------------------------------------------------------
# 4. turn_agent
# --------------------------------------------------------------------------


def check_turn_agent():
    kinds = target_kinds()
    for height, width in [(1, 1), (2, 2), (3, 3)]:
        for y in range(height):
            for x in range(width):
                for heading, orientation in enumerate(ALL_ORIENTATIONS):
                    for action in ALL_ACTIONS:
                        for kind in kinds:
                            objects = [
                                [kind() for _ in range(width)]
                                for _ in range(height)
                            ]
                            objects[y][x] = Floor()
                            grid = Grid(objects)
                            agent = Agent(Position(y, x), orientation)
                            state = State(grid, agent)
                            before = snapshot_grid(grid)
                            position_before = agent.position
                            transform_before = agent.transform
                            held_before = agent.grid_object

                            result = transition_fs.turn_agent(state, action)

                            assert result is None
                            expected = (
                                heading + TURN_TURNS.get(action.name, 0)
                            ) % 4
                            assert agent.orientation is orientation_of(expected)
                            assert agent.position is position_before
                            assert agent.position.yx == (y, x)
                            assert agent.transform is transform_before
                            assert agent.grid_object is held_before
                            assert snapshot_grid(grid) == before
                            count('turn_agent')

    # group laws, through the transition function
    def turns(orientation, actions):
        state = State(Grid.from_shape((2, 2)), Agent(Position(1, 0), orientation))
        for action in actions:
            transition_fs.turn_agent(state, action, rng=None)
            assert state.agent.position == Position(1, 0)
        return state.agent.orientation

    LEFT, RIGHT = Action.TURN_LEFT, Action.TURN_RIGHT
    for orientation in ALL_ORIENTATIONS:
        assert turns(orientation, [LEFT, RIGHT]) is orientation
        assert turns(orientation, [RIGHT, LEFT]) is orientation
        assert turns(orientation, [LEFT] * 4) is orientation
        assert turns(orientation, [RIGHT] * 4) is orientation
        assert turns(orientation, [LEFT]) is not orientation
        assert turns(orientation, [RIGHT]) is not orientation
        assert turns(orientation, [LEFT]) is not turns(orientation, [RIGHT])
        assert turns(orientation, [LEFT] * 2) is turns(orientation, [RIGHT] * 2)
        assert turns(orientation, [LEFT] * 3) is turns(orientation, [RIGHT])
        seen = {turns(orientation, [LEFT] * n) for n in range(4)}
        assert len(seen) == 4

    # the module-level table used by turn_agent
    table = transition_fs._action_orientations
    assert type(table) is dict
    assert list(table.items()) == [
        (Action.TURN_LEFT, Orientation.L),
        (Action.TURN_RIGHT, Orientation.R),
    ]


# --------------------------------------------------------------------------
# 5. other transition functions never change the pose
# --------------------------------------------------------------------------


def check_other_functions_keep_pose():
    kinds = target_kinds()
    rng = rnd.default_rng(7)
    functions = [
        transition_fs.pickndrop,
        transition_fs.actuate_door,
        transition_fs.actuate_box,
        transition_fs.move_obstacles,
    ]
    for function in functions:
        for height, width in [(1, 1), (1, 2), (2, 2), (3, 3)]:
            for y in range(height):
                for x in range(width):
                    for heading, orientation in enumerate(ALL_ORIENTATIONS):
                        for action in ALL_ACTIONS:
                            for k, kind in enumerate(kinds):
                                objects = [
                                    [kind() for _ in range(width)]
                                    for _ in range(height)
                                ]
                                objects[y][x] = Floor()
                                held = [None, Key(Color.RED), Key(Color.YELLOW)][
                                    k % 3
                                ]
                                agent = Agent(Position(y, x), orientation, held)
                                state = State(Grid(objects), agent)
                                function(state, action, rng=rng)
                                assert agent.position.yx == (y, x)
                                assert agent.orientation is orientation
                                count('other functions')


# --------------------------------------------------------------------------
# 6. teleport
# --------------------------------------------------------------------------


def ref_teleport(objects, yx, generator):
    """reference teleportation; draws from `generator` like the library"""
    here = objects[yx[0]][yx[1]]
    if type(here).__name__ != 'Telepod':
        return yx
    candidates = []
    for y, row in enumerate(objects):  # row-major scan
        for x, obj in enumerate(row):
            if (y, x) == yx:
                continue
            if type(obj).__name__ == 'Telepod' and obj.color.name == here.color.name:
                candidates.append((y, x))
    if not candidates:
        return yx
    return candidates[int(generator.choice(len(candidates)))]


def check_teleport():
    layouts = []
    # (height, width, {yx: color name})
    layouts.append((1, 1, {(0, 0): 'RED'}))
    layouts.append((1, 3, {(0, 0): 'RED', (0, 2): 'RED'}))
    layouts.append((1, 3, {(0, 0): 'RED', (0, 2): 'BLUE'}))
    layouts.append((3, 3, {(0, 0): 'RED', (2, 2): 'RED', (1, 1): 'BLUE'}))
    layouts.append(
        (
            3,
            4,
            {
                (0, 0): 'RED',
                (0, 3): 'RED',
                (2, 0): 'RED',
                (2, 3): 'RED',
                (1, 1): 'BLUE',
                (1, 2): 'BLUE',
                (2, 1): 'GREEN',
            },
        )
    )
    layouts.append((2, 2, {}))
    layouts.append(
        (2, 3, {(y, x): 'YELLOW' for y in range(2) for x in range(3)})
    )

    for height, width, pods in layouts:
        for seed in range(12):
            for y in range(height):
                for x in range(width):
                    for orientation in ALL_ORIENTATIONS:
                        for action in ALL_ACTIONS:
                            objects = [
                                [
                                    Telepod(Color[pods[(yy, xx)]])
                                    if (yy, xx) in pods
                                    else Floor()
                                    for xx in range(width)
                                ]
                                for yy in range(height)
                            ]
                            grid = Grid(objects)
                            agent = Agent(Position(y, x), orientation)
                            state = State(grid, agent)
                            before = snapshot_grid(grid)
                            rng = rnd.default_rng(seed)
                            reference_rng = rnd.default_rng(seed)
                            expected = ref_teleport(
                                objects, (y, x), reference_rng
                            )

                            result = transition_fs.teleport(
                                state, action, rng=rng
                            )

                            assert result is None
                            assert agent.position.yx == expected, (
                                pods,
                                (y, x),
                                seed,
                                agent.position,
                            )
                            assert type(agent.position) is Position
                            assert agent.orientation is orientation
                            assert snapshot_grid(grid) == before
                            # identical consumption of random numbers
                            assert rng_state(rng) == rng_state(reference_rng)
                            if expected != (y, x):
                                assert (y, x) in pods and expected in pods
                                assert pods[expected] == pods[(y, x)]
                                count('teleport displaced')
                            count('teleport')

    # all partners are reachable, and only partners
    height, width, pods = layouts[4]
    reached = set()
    for seed in range(200):
        objects = [
            [
                Telepod(Color[pods[(yy, xx)]]) if (yy, xx) in pods else Floor()
                for xx in range(width)
            ]
            for yy in range(height)
        ]
        state = State(Grid(objects), Agent(Position(0, 0), Orientation.F))
        transition_fs.teleport(
            state, Action.MOVE_FORWARD, rng=rnd.default_rng(seed)
        )
        reached.add(state.agent.position.yx)
    assert reached == {(0, 3), (2, 0), (2, 3)}, reached

    # library-level generator is used when rng is None
    from gym_gridverse.rng import get_gv_rng, reset_gv_rng

    for seed in range(10):
        objects = [[Telepod(Color.RED) for _ in range(3)] for _ in range(3)]
        state = State(Grid(objects), Agent(Position(1, 1), Orientation.F))
        reset_gv_rng(seed)
        reference_rng = rnd.default_rng(seed)
        expected = ref_teleport(objects, (1, 1), reference_rng)
        transition_fs.teleport(state, Action.ACTUATE)
        assert state.agent.position.yx == expected
        assert rng_state(get_gv_rng()) == rng_state(reference_rng)


# --------------------------------------------------------------------------
# 7. rollouts in the shipped configurations
# --------------------------------------------------------------------------

SIX = ALL_ACTION_NAMES[:6]
EIGHT = ALL_ACTION_NAMES
RGBY = ['RED', 'GREEN', 'BLUE', 'YELLOW']
# hand transcription of gym_gridverse/registered_envs/*.yaml
# (reset function, transition functions, action space)
CONFIGURATIONS = {
    'gv_crossing.5x5': (
        dict(name='crossing', shape=(5, 5), num_rivers=1, object_type='Wall'),
        ['move_agent', 'turn_agent'],
        SIX,
    ),
    'gv_crossing.7x7': (
        dict(name='crossing', shape=(7, 7), num_rivers=2, object_type='Wall'),
        ['move_agent', 'turn_agent'],
        SIX,
    ),
    'gv_dynamic_obstacles.5x5': (
        dict(
            name='dynamic_obstacles',
            shape=(5, 5),
            num_obstacles=1,
            random_agent=False,
        ),
        ['move_agent', 'turn_agent', 'move_obstacles'],
        SIX,
    ),
    'gv_dynamic_obstacles.7x7': (
        dict(
            name='dynamic_obstacles',
            shape=(7, 7),
            num_obstacles=2,
            random_agent=False,
        ),
        ['move_agent', 'turn_agent', 'move_obstacles'],
        SIX,
    ),
    'gv_empty.4x4': (
        dict(name='empty', shape=(4, 4), random_agent=True),
        ['move_agent', 'turn_agent'],
        SIX,
    ),
    'gv_empty.8x8': (
        dict(name='empty', shape=(8, 8), random_agent=True),
        ['move_agent', 'turn_agent'],
        SIX,
    ),
    'gv_four_rooms.7x7': (
        dict(name='rooms', shape=(7, 7), layout=(2, 2)),
        ['move_agent', 'turn_agent'],
        SIX,
    ),
    'gv_four_rooms.9x9': (
        dict(name='rooms', shape=(9, 9), layout=(2, 2)),
        ['move_agent', 'turn_agent'],
        SIX,
    ),
    'gv_keydoor.5x5': (
        dict(name='keydoor', shape=(5, 5)),
        ['move_agent', 'turn_agent', 'actuate_door', 'pickndrop'],
        EIGHT,
    ),
    'gv_keydoor.7x7': (
        dict(name='keydoor', shape=(7, 7)),
        ['move_agent', 'turn_agent', 'actuate_door', 'pickndrop'],
        EIGHT,
    ),
    'gv_keydoor.9x9': (
        dict(name='keydoor', shape=(9, 9)),
        ['move_agent', 'turn_agent', 'actuate_door', 'pickndrop'],
        EIGHT,
    ),
    'gv_memory.5x5': (
        dict(name='memory', shape=(5, 5), colors=RGBY),
        ['move_agent', 'turn_agent'],
        SIX,
    ),
    'gv_memory.9x9': (
        dict(name='memory', shape=(9, 9), colors=RGBY),
        ['move_agent', 'turn_agent'],
        SIX,
    ),
    'gv_memory_four_rooms.7x7': (
        dict(
            name='memory_rooms',
            shape=(7, 7),
            layout=(2, 2),
            colors=RGBY,
            num_beacons=1,
            num_exits=2,
        ),
        ['move_agent', 'turn_agent'],
        SIX,
    ),
    'gv_memory_four_rooms.9x9': (
        dict(
            name='memory_rooms',
            shape=(9, 9),
            layout=(2, 2),
            colors=RGBY,
            num_beacons=1,
            num_exits=2,
        ),
        ['move_agent', 'turn_agent'],
        SIX,
    ),
    'gv_memory_nine_rooms.10x10': (
        dict(
            name='memory_rooms',
            shape=(10, 10),
            layout=(3, 3),
            colors=RGBY,
            num_beacons=1,
            num_exits=2,
        ),
        ['move_agent', 'turn_agent'],
        SIX,
    ),
    'gv_memory_nine_rooms.13x13': (
        dict(
            name='memory_rooms',
            shape=(13, 13),
            layout=(3, 3),
            colors=RGBY,
            num_beacons=1,
            num_exits=2,
        ),
        ['move_agent', 'turn_agent'],
        SIX,
    ),
    'gv_nine_rooms.10x10': (
        dict(name='rooms', shape=(10, 10), layout=(3, 3)),
        ['move_agent', 'turn_agent'],
        SIX,
    ),
    'gv_nine_rooms.13x13': (
        dict(name='rooms', shape=(13, 13), layout=(3, 3)),
        ['move_agent', 'turn_agent'],
        SIX,
    ),
    'gv_teleport.5x5': (
        dict(name='teleport', shape=(5, 5), random_agent=True),
        ['move_agent', 'turn_agent', 'teleport'],
        SIX,
    ),
    'gv_teleport.7x7': (
        dict(name='teleport', shape=(7, 7), random_agent=True),
        ['move_agent', 'turn_agent', 'teleport'],
        SIX,
    ),
}
assert len(CONFIGURATIONS) == 21


def make_reset_function(data):
    data = dict(data)
    name = data.pop('name')
    data['shape'] = Shape(*data['shape'])
    if 'object_type' in data:
        data['object_type'] = {'Wall': Wall}[data['object_type']]
    if 'colors' in data:
        data['colors'] = [Color[c] for c in data['colors']]
    return reset_fs.factory(name, **data)


def make_transition_function(names):
    return transition_fs.factory(
        'chain',
        transition_functions=[transition_fs.factory(name) for name in names],
    )


def state_signature(state):
    return (
        state.agent.position.yx,
        state.agent.orientation.name,
        repr(state.agent.grid_object),
        repr(state.grid.objects),
    )


def check_rollouts(num_seeds=12, num_steps=150):
    digest = hashlib.sha256()
    for name, (reset_data, transition_names, action_names) in sorted(
        CONFIGURATIONS.items()
    ):
        reset_function = make_reset_function(reset_data)
        transition_function = make_transition_function(transition_names)
        actions = [Action[n] for n in action_names]
        has_teleport = 'teleport' in transition_names
        consumes_rng_elsewhere = 'move_obstacles' in transition_names

        for seed in range(num_seeds):
            rng = rnd.default_rng(seed)
            action_rng = rnd.default_rng(10_000 + seed)
            state = reset_function(rng=rng)
            _check_invariant(name, state)
            digest.update(repr((name, seed, state_signature(state))).encode())

            for t in range(num_steps):
                if t % 50 == 49:
                    state = reset_function(rng=rng)
                    _check_invariant(name, state)
                action = actions[int(action_rng.integers(len(actions)))]
                yx = state.agent.position.yx
                heading = heading_of(state.agent.orientation)
                objects = state.grid.objects
                expected_yx, expected_heading = ref_step_pose(
                    objects, yx, heading, action.name
                )
                if has_teleport:
                    assert not consumes_rng_elsewhere
                    reference_rng = clone_rng(rng)
                    expected_yx = ref_teleport(
                        objects, expected_yx, reference_rng
                    )
                signature_before = state_signature(state)

                next_state = transition_fs.transition_with_copy(
                    transition_function, state, action, rng=rng
                )

                # the input state is left alone
                assert state_signature(state) == signature_before
                assert next_state is not state
                assert next_state.agent is not state.agent
                assert next_state.agent.position.yx == expected_yx, (
                    name,
                    seed,
                    t,
                    action,
                    yx,
                    heading,
                    next_state.agent.position,
                )
                assert next_state.agent.orientation is orientation_of(
                    expected_heading
                )
                if has_teleport:
                    assert rng_state(rng) == rng_state(reference_rng)
                elif not consumes_rng_elsewhere:
                    pass
                _check_invariant(name, next_state)
                if action.name not in MOVE_TURNS and not has_teleport:
                    assert next_state.agent.position.yx == yx
                if action.name not in TURN_TURNS:
                    assert next_state.agent.orientation is state.agent.orientation
                state = next_state
                digest.update(
                    repr((action.name, state_signature(state))).encode()
                )
                count('rollout steps')
                count('rollout displaced', int(expected_yx != yx))
            digest.update(rng_state(rng).encode())
    return digest.hexdigest()


def _check_invariant(name, state):
    position = state.agent.position
    height, width = state.grid.shape.height, state.grid.shape.width
    assert 0 <= position.y < height and 0 <= position.x < width, (name, position)
    assert state.grid.area.contains(position)
    obj = state.grid[position]
    assert not ref_blocks(obj), (name, position, obj)
    assert not obj.blocks_movement
    assert state.agent.orientation in ALL_ORIENTATIONS


# digest of the rollout traces, recorded on the unmodified library
EXPECTED_DIGEST = (
    'b76854b7ab3ce65c3962acadff2fa079b9ef53c3597b0bfbcbd42028b0b6a57b'
)


def main():
    check_geometry()
    check_get_next_position()
    check_move_agent()
    check_turn_agent()
    check_other_functions_keep_pose()
    check_teleport()
    digest = check_rollouts()
    for key in sorted(COUNTS):
        print(f'{key:>24}: {COUNTS[key]}')
    print('rollout digest:', digest)
    assert COUNTS['move_agent displaced'] > 0
    assert COUNTS['teleport displaced'] > 0
    assert COUNTS['rollout displaced'] > 0
    if EXPECTED_DIGEST is not None:
        assert digest == EXPECTED_DIGEST, 'rollout traces changed'
    print('OK')


if __name__ == '__main__':
    main()
