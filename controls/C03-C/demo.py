"""Demo / check program for refactoring C (gym_gridverse/envs/reward_functions.py).

Run as:  cd /tmp/wt3-C03 && /venv/bin/python -W ignore _seed/C/demo.py

The distance-based reward functions (`proportional_to_distance`,
`getting_closer`, `getting_closer_shortest_path` and its memoised `dijkstra`
helper), and the `actuate_door` / `pickndrop` reward functions are compared
with an independent re-implementation working on plain data, both

* through `GridWorld.functional_step` (reward of a composed environment), and
* directly, on arbitrary (state, action, next_state) triplets, including those
  which no transition produces (doors closing, objects (dis)appearing, zero or
  many target objects, unreachable targets, custom distance functions).

For every call the C03-relevant facts are asserted:  the states are not
modified (values and identities), the returned state shares nothing mutable
with the input, answers are the same whatever was asked before (the `dijkstra`
memo holds 10 entries:  it is overflowed, cleared, and kept warm), and copies
equal / hash like their originals.
"""
import os
import sys

sys.path.insert(0, os.getcwd())

import copy
import itertools as itt
import math
import random
from collections import deque

import numpy as np

from gym_gridverse.action import Action
from gym_gridverse.agent import Agent
from gym_gridverse.envs import (
    observation_functions,
    reward_functions,
    terminating_functions,
    transition_functions,
)
from gym_gridverse.envs.gridworld import GridWorld
from gym_gridverse.geometry import Orientation, Position, Shape
from gym_gridverse.grid import Grid
from gym_gridverse.grid_object import (
    Beacon,
    Box,
    Color,
    Door,
    Exit,
    Floor,
    Key,
    MovingObstacle,
    NoneGridObject,
    Telepod,
    Wall,
)
from gym_gridverse.spaces import ActionSpace, ObservationSpace, StateSpace
from gym_gridverse.state import State
from gym_gridverse.utils.fast_copy import fast_copy

ORIENTATIONS = [Orientation.F, Orientation.R, Orientation.B, Orientation.L]
FORWARD_DELTA = {
    Orientation.F: (-1, 0),
    Orientation.R: (0, 1),
    Orientation.B: (1, 0),
    Orientation.L: (0, -1),
}
OBJECT_TYPES = [
    Floor,
    Wall,
    Exit,
    Door,
    Key,
    MovingObstacle,
    Box,
    Telepod,
    Beacon,
]
ALL_ACTIONS = list(Action)

# everything but Exit
FILLERS = [
    Floor,
    Floor,
    Floor,
    Floor,
    Wall,
    Wall,
    MovingObstacle,
    lambda: Door(Door.Status.OPEN, Color.RED),
    lambda: Door(Door.Status.CLOSED, Color.RED),
    lambda: Door(Door.Status.LOCKED, Color.RED),
    lambda: Key(Color.RED),
    lambda: Key(Color.BLUE),
    lambda: Telepod(Color.GREEN),
    lambda: Beacon(Color.YELLOW),
    lambda: Box(Floor()),
    lambda: Box(Box(Key(Color.RED))),
]
HELD = [NoneGridObject, NoneGridObject, lambda: Key(Color.RED), lambda: Key(Color.BLUE)]


# --------------------------------------------------------------------------
# plain-data views of the states
# --------------------------------------------------------------------------


def describe(obj):
    name = type(obj).__name__
    if isinstance(obj, Box):
        return (name, describe(obj.content))
    if isinstance(obj, Door):
        return (name, obj.state.name, obj.color.name)
    return (name, obj.color.name)


def describe_state(state):
    return (
        tuple(tuple(describe(obj) for obj in row) for row in state.grid.objects),
        (state.agent.position.y, state.agent.position.x),
        state.agent.orientation.name,
        describe(state.agent.grid_object),
    )


def mutable_ids(state):
    ids = []

    def visit(obj):
        ids.append(id(obj))
        if isinstance(obj, Box):
            visit(obj.content)

    ids.extend(
        [
            id(state.grid),
            id(state.grid.objects),
            id(state.agent),
            id(state.agent.transform),
        ]
    )
    for row in state.grid.objects:
        ids.append(id(row))
        for obj in row:
            visit(obj)
    visit(state.agent.grid_object)
    return ids


def snapshot(state):
    return describe_state(state), mutable_ids(state)


def walkable(description):
    kind = description[0]
    if kind in ('Wall', 'Box'):
        return False
    if kind == 'Door':
        return description[1] == 'OPEN'
    return True


# --------------------------------------------------------------------------
# model rewards
# --------------------------------------------------------------------------


class Invalid(Exception):
    """not exactly one target object"""


def model_target(rows, kind):
    targets = [
        (y, x)
        for y, row in enumerate(rows)
        for x, cell in enumerate(row)
        if cell[0] == kind
    ]
    if len(targets) != 1:
        raise Invalid
    return targets[0]


def manhattan(p, q):
    return abs(p[0] - q[0]) + abs(p[1] - q[1])


def euclidean(p, q):
    return math.sqrt((p[0] - q[0]) ** 2 + (p[1] - q[1]) ** 2)


def chebyshev(p, q):
    return max(abs(p[0] - q[0]), abs(p[1] - q[1]))


def model_bfs(rows, source):
    """breadth-first distances over walkable cells, starting at source

    NOTE: the source itself is always at distance 0, walkable or not.
    """
    height, width = len(rows), len(rows[0])
    distances = {source: 0.0}
    frontier = deque([source])
    while frontier:
        y, x = frontier.popleft()
        for ny, nx in ((y + 1, x), (y - 1, x), (y, x + 1), (y, x - 1)):
            if (
                0 <= ny < height
                and 0 <= nx < width
                and (ny, nx) not in distances
                and walkable(rows[ny][nx])
            ):
                distances[ny, nx] = distances[y, x] + 1.0
                frontier.append((ny, nx))
    return distances


def model_shortest(rows, agent, kind):
    target = model_target(rows, kind)
    return model_bfs(rows, target).get(agent, math.inf)


def sign_reward(before, after, closer, further):
    if after < before:
        return closer
    if after > before:
        return further
    return 0.0


def model_proportional(d, d_next, kind, distance, unit):
    rows, agent, _, _ = d_next
    return unit * distance(agent, model_target(rows, kind))


def model_getting_closer(d, d_next, kind, distance, closer, further):
    before = distance(d[1], model_target(d[0], kind))
    after = distance(d_next[1], model_target(d_next[0], kind))
    return sign_reward(before, after, closer, further)


def model_getting_closer_shortest(d, d_next, kind, closer, further):
    before = model_shortest(d[0], d[1], kind)
    after = model_shortest(d_next[0], d_next[1], kind)
    return sign_reward(before, after, closer, further)


def model_actuate_door(d, action, d_next, orientation, reward_open, reward_close):
    if action is not Action.ACTUATE:
        return 0.0
    rows, (y, x), _, _ = d
    dy, dx = FORWARD_DELTA[orientation]
    fy, fx = y + dy, x + dx
    if not (0 <= fy < len(rows) and 0 <= fx < len(rows[0])):
        return 0.0
    door, door_next = rows[fy][fx], d_next[0][fy][fx]
    if door[0] != 'Door' or door_next[0] != 'Door':
        return 0.0
    was_open, is_open = door[1] == 'OPEN', door_next[1] == 'OPEN'
    if is_open and not was_open:
        return reward_open
    if was_open and not is_open:
        return reward_close
    return 0.0


def model_pickndrop(d, d_next, kind, reward_pick, reward_drop):
    had, has = d[3][0] == kind, d_next[3][0] == kind
    if has and not had:
        return reward_pick
    if had and not has:
        return reward_drop
    return 0.0


# --------------------------------------------------------------------------
# reward function specifications:  (library function, model)
# --------------------------------------------------------------------------

LIB_MANHATTAN = Position.manhattan_distance
LIB_EUCLIDEAN = Position.euclidean_distance


def lib_chebyshev(p, q):
    return max(abs(p.y - q.y), abs(p.x - q.x))


def lib_nan(p, q):
    return float('nan')


def model_nan(p, q):
    return float('nan')


F = reward_functions.factory

SPECS = [
    (
        'proportional manhattan',
        F(
            'proportional_to_distance',
            distance_function=LIB_MANHATTAN,
            object_type=Exit,
            reward_per_unit_distance=-0.125,
        ),
        lambda d, a, n, o: model_proportional(d, n, 'Exit', manhattan, -0.125),
    ),
    (
        'proportional default',
        F('proportional_to_distance', object_type=Exit),
        lambda d, a, n, o: model_proportional(d, n, 'Exit', manhattan, -1.0),
    ),
    (
        'proportional euclidean',
        F(
            'proportional_to_distance',
            distance_function=LIB_EUCLIDEAN,
            object_type=Exit,
            reward_per_unit_distance=0.5,
        ),
        lambda d, a, n, o: model_proportional(d, n, 'Exit', euclidean, 0.5),
    ),
    (
        'closer manhattan',
        F(
            'getting_closer',
            distance_function=LIB_MANHATTAN,
            object_type=Exit,
            reward_closer=0.25,
            reward_further=-0.375,
        ),
        lambda d, a, n, o: model_getting_closer(
            d, n, 'Exit', manhattan, 0.25, -0.375
        ),
    ),
    (
        'closer default',
        F('getting_closer', object_type=Exit),
        lambda d, a, n, o: model_getting_closer(
            d, n, 'Exit', manhattan, 1.0, -1.0
        ),
    ),
    (
        'closer euclidean',
        F(
            'getting_closer',
            distance_function=LIB_EUCLIDEAN,
            object_type=Exit,
            reward_closer=2.0,
            reward_further=-4.0,
        ),
        lambda d, a, n, o: model_getting_closer(
            d, n, 'Exit', euclidean, 2.0, -4.0
        ),
    ),
    (
        'closer chebyshev (custom)',
        F(
            'getting_closer',
            distance_function=lib_chebyshev,
            object_type=Exit,
            reward_closer=8.0,
            reward_further=-16.0,
        ),
        lambda d, a, n, o: model_getting_closer(
            d, n, 'Exit', chebyshev, 8.0, -16.0
        ),
    ),
    (
        'closer nan (custom)',
        F(
            'getting_closer',
            distance_function=lib_nan,
            object_type=Exit,
            reward_closer=8.0,
            reward_further=-16.0,
        ),
        lambda d, a, n, o: model_getting_closer(
            d, n, 'Exit', model_nan, 8.0, -16.0
        ),
    ),
    (
        'closer shortest path',
        F(
            'getting_closer_shortest_path',
            object_type=Exit,
            reward_closer=32.0,
            reward_further=-64.0,
        ),
        lambda d, a, n, o: model_getting_closer_shortest(
            d, n, 'Exit', 32.0, -64.0
        ),
    ),
    (
        'closer shortest path default',
        F('getting_closer_shortest_path', object_type=Exit),
        lambda d, a, n, o: model_getting_closer_shortest(
            d, n, 'Exit', 1.0, -1.0
        ),
    ),
    (
        'closer shortest path to beacon',
        F(
            'getting_closer_shortest_path',
            object_type=Beacon,
            reward_closer=128.0,
            reward_further=-256.0,
        ),
        lambda d, a, n, o: model_getting_closer_shortest(
            d, n, 'Beacon', 128.0, -256.0
        ),
    ),
    (
        'actuate door',
        F('actuate_door', reward_open=512.0, reward_close=-1024.0),
        lambda d, a, n, o: model_actuate_door(d, a, n, o, 512.0, -1024.0),
    ),
    (
        'actuate door default',
        F('actuate_door'),
        lambda d, a, n, o: model_actuate_door(d, a, n, o, 1.0, -1.0),
    ),
    (
        'pickndrop key',
        F('pickndrop', object_type=Key, reward_pick=2048.0, reward_drop=-4096.0),
        lambda d, a, n, o: model_pickndrop(d, n, 'Key', 2048.0, -4096.0),
    ),
    (
        'pickndrop key default',
        F('pickndrop', object_type=Key),
        lambda d, a, n, o: model_pickndrop(d, n, 'Key', 1.0, -1.0),
    ),
]

# the composed reward function does not contain the default-valued / nan ones
COMPOSED = [
    'proportional manhattan',
    'proportional euclidean',
    'closer manhattan',
    'closer euclidean',
    'closer chebyshev (custom)',
    'closer shortest path',
    'actuate door',
    'pickndrop key',
]
SPECS_BY_NAME = {name: (function, model) for name, function, model in SPECS}


def make_env(shape) -> GridWorld:
    shape = Shape(*shape)
    transition_function = transition_functions.factory(
        'chain',
        transition_functions=[
            transition_functions.factory(name)
            for name in [
                'move_agent',
                'turn_agent',
                'actuate_door',
                'actuate_box',
                'pickndrop',
            ]
        ],
    )
    reward_function = reward_functions.factory(
        'reduce_sum',
        reward_functions=[SPECS_BY_NAME[name][0] for name in COMPOSED],
    )
    termination_function = terminating_functions.factory('reach_exit')
    observation_space = ObservationSpace(Shape(3, 3), OBJECT_TYPES, list(Color))
    observation_function = observation_functions.factory(
        'partially_occluded', area=observation_space.area
    )

    def reset_function(*, rng=None):
        raise AssertionError('not used')

    return GridWorld(
        StateSpace(shape, OBJECT_TYPES, list(Color)),
        ActionSpace(ALL_ACTIONS),
        observation_space,
        reset_function,
        transition_function,
        observation_function,
        reward_function,
        termination_function,
    )


ENVS = {}


def get_env(shape) -> GridWorld:
    if shape not in ENVS:
        ENVS[shape] = make_env(shape)
    return ENVS[shape]


# --------------------------------------------------------------------------
# state generation
# --------------------------------------------------------------------------


def random_state(rnd, shape, *, exits=1, beacons=1, density=0.5) -> State:
    height, width = shape
    rows = [
        [
            rnd.choice(FILLERS)() if rnd.random() < density else Floor()
            for _ in range(width)
        ]
        for _ in range(height)
    ]
    # no beacons among the fillers
    for y, x in itt.product(range(height), range(width)):
        if isinstance(rows[y][x], Beacon):
            rows[y][x] = Floor()

    cells = list(itt.product(range(height), range(width)))
    rnd.shuffle(cells)
    y, x = cells.pop()
    if rnd.random() < 0.9:
        rows[y][x] = rnd.choice(
            [Floor, Floor, lambda: Door(Door.Status.OPEN, Color.RED)]
        )()
    for _ in range(exits):
        if cells:
            ey, ex = cells.pop()
            rows[ey][ex] = Exit()
    for _ in range(beacons):
        if cells:
            by, bx = cells.pop()
            rows[by][bx] = Beacon(Color.YELLOW)

    return State(
        Grid(rows),
        Agent(Position(y, x), rnd.choice(ORIENTATIONS), rnd.choice(HELD)()),
    )


def perturbed(rnd, state) -> State:
    """an arbitrary `next state`, not necessarily reachable by any action"""
    other = fast_copy(state)
    height, width = other.grid.shape.height, other.grid.shape.width
    for _ in range(rnd.randrange(4)):
        y, x = rnd.randrange(height), rnd.randrange(width)
        obj = other.grid[y, x]
        if isinstance(obj, Door):
            obj.state = rnd.choice(list(Door.Status))
        elif not isinstance(obj, (Exit, Beacon)):
            filler = rnd.choice(FILLERS)()
            if not isinstance(filler, Beacon):
                other.grid[y, x] = filler
    # doors next to the agent are most interesting
    for dy, dx in FORWARD_DELTA.values():
        y, x = other.agent.position.y + dy, other.agent.position.x + dx
        if 0 <= y < height and 0 <= x < width:
            obj = other.grid[y, x]
            if isinstance(obj, Door) and rnd.random() < 0.7:
                obj.state = rnd.choice(list(Door.Status))
    if rnd.random() < 0.7:
        other.agent.position = Position(
            rnd.randrange(height), rnd.randrange(width)
        )
    if rnd.random() < 0.3:
        other.agent.orientation = rnd.choice(ORIENTATIONS)
    if rnd.random() < 0.5:
        other.agent.grid_object = rnd.choice(HELD)()
    return other


# --------------------------------------------------------------------------
# checks
# --------------------------------------------------------------------------

counts = {
    'calls': 0,
    'invalid': 0,
    'nonzero': 0,
    'steps': 0,
    'inf': 0,
    'evictions': 0,
}


def call_expected(model, d, action, d_next, orientation):
    try:
        return model(d, action, d_next, orientation)
    except Invalid:
        return Invalid


def call_library(function, state, action, next_state):
    try:
        return function(state, action, next_state)
    except ValueError:
        return Invalid


def same(actual, expected):
    if actual is Invalid or expected is Invalid:
        return actual is expected
    if isinstance(expected, float) and math.isnan(expected):
        return isinstance(actual, float) and math.isnan(actual)
    return actual == expected and not isinstance(actual, bool)


def check_dijkstra(state):
    """the memoised helper against the model, for every source"""
    d = describe_state(state)
    rows = d[0]
    height, width = len(rows), len(rows[0])
    layout = tuple(tuple(walkable(cell) for cell in row) for row in rows)
    for source in itt.product(range(height), range(width)):
        distances = reward_functions.dijkstra(layout, source)
        assert isinstance(distances, np.ndarray)
        assert distances.shape == (height, width)
        expected = model_bfs(rows, source)
        for y, x in itt.product(range(height), range(width)):
            assert distances[y, x] == expected.get((y, x), math.inf), (
                rows,
                source,
                (y, x),
            )
            counts['inf'] += (y, x) not in expected


def check_triplet(rnd, state, action, next_state, *, flush):
    d, d_next = describe_state(state), describe_state(next_state)
    orientation = state.agent.orientation
    before, before_next = snapshot(state), snapshot(next_state)
    hashes = hash(state), hash(next_state)

    results = {}
    for name, function, model in SPECS:
        context = (name, d, action, d_next)
        expected = call_expected(model, d, action, d_next, orientation)
        actual = call_library(function, state, action, next_state)
        counts['calls'] += 1
        counts['invalid'] += expected is Invalid
        counts['nonzero'] += expected is not Invalid and expected != 0.0
        assert same(actual, expected), (context, actual, expected)
        results[name] = actual

        # purity
        assert snapshot(state) == before, context
        assert snapshot(next_state) == before_next, context

    assert (hash(state), hash(next_state)) == hashes

    # history:  flush / clear / keep the memo, ask other questions, ask again
    if flush == 'overflow':
        function = SPECS_BY_NAME['closer shortest path'][0]
        for _ in range(12):
            other = random_state(rnd, (4, 4))
            call_library(function, other, action, perturbed(rnd, other))
        counts['evictions'] += 1
    elif flush == 'clear':
        reward_functions.dijkstra.cache_clear()

    # on equal copies, in reverse order
    state_copy, next_state_copy = fast_copy(state), copy.deepcopy(next_state)
    for name, function, model in reversed(SPECS):
        again = call_library(function, state_copy, action, next_state_copy)
        assert same(again, results[name]), (name, d, action, d_next)
        again = call_library(function, state, action, next_state)
        assert same(again, results[name]), (name, d, action, d_next)

    assert snapshot(state) == before
    assert snapshot(next_state) == before_next
    assert state_copy == state and hash(state_copy) == hash(state)
    assert next_state_copy == next_state
    assert hash(next_state_copy) == hash(next_state)


def check_step(rnd, state, action, *, flush):
    shape = (state.grid.shape.height, state.grid.shape.width)
    env = get_env(shape)
    d = describe_state(state)
    before = snapshot(state)

    try:
        next_state, reward, terminal = env.functional_step(state, action)
    except ValueError:
        # not exactly one exit / beacon:  the composed reward is undefined
        exits = sum(cell[0] == 'Exit' for row in d[0] for cell in row)
        assert exits != 1, d
        assert snapshot(state) == before
        return None

    counts['steps'] += 1
    d_next = describe_state(next_state)

    # expected reward, term by term, summed in the same order
    expected = sum(
        SPECS_BY_NAME[name][1](d, action, d_next, state.agent.orientation)
        for name in COMPOSED
    )
    assert reward == expected, (d, action, reward, expected)
    y, x = d_next[1]
    assert terminal is (d_next[0][y][x][0] == 'Exit')

    # purity, no aliasing
    assert snapshot(state) == before
    assert not (set(mutable_ids(state)) & set(mutable_ids(next_state)))

    # individual terms (and history independence)
    check_triplet(rnd, state, action, next_state, flush=flush)

    # the same question again
    again, reward_again, terminal_again = env.functional_step(state, action)
    assert again == next_state and hash(again) == hash(next_state)
    assert describe_state(again) == d_next
    assert (reward_again, terminal_again) == (reward, terminal)
    assert not (set(mutable_ids(again)) & set(mutable_ids(next_state)))
    assert not (set(mutable_ids(again)) & set(mutable_ids(state)))

    # a fresh environment agrees
    fresh = make_env(shape).functional_step(fast_copy(state), action)
    assert fresh[0] == next_state and fresh[1:] == (reward, terminal)

    # independence after the fact
    for position in next_state.grid.area.positions():
        obj = next_state.grid[position]
        if isinstance(obj, Door):
            obj.state = Door.Status.LOCKED
        else:
            next_state.grid[position] = Wall()
    next_state.agent.position = Position(0, 0)
    next_state.agent.grid_object = Beacon(Color.BLUE)
    assert snapshot(state) == before
    assert describe_state(again) == d_next

    return again


def check_passthrough():
    """the reward objects given as parameters are returned as they are"""
    closer, further, pick, drop, opened, closed = (
        object(),
        object(),
        object(),
        object(),
        object(),
        object(),
    )

    def make(agent_x, *, door=Door.Status.CLOSED, held=None):
        rows = [[Floor(), Floor(), Floor(), Exit()], [Floor(), Door(door, Color.RED), Floor(), Floor()]]
        return State(
            Grid(rows),
            Agent(Position(0, agent_x), Orientation.B, held),
        )

    near, far = make(2), make(0)
    for name, kwargs in [
        ('getting_closer', {}),
        ('getting_closer', {'distance_function': LIB_EUCLIDEAN}),
        ('getting_closer_shortest_path', {}),
    ]:
        function = reward_functions.factory(
            name,
            object_type=Exit,
            reward_closer=closer,
            reward_further=further,
            **kwargs,
        )
        assert function(far, Action.MOVE_LEFT, near) is closer
        assert function(near, Action.MOVE_RIGHT, far) is further
        zero = function(near, Action.ACTUATE, make(2))
        assert type(zero) is float and zero == 0.0

    function = reward_functions.factory(
        'pickndrop', object_type=Key, reward_pick=pick, reward_drop=drop
    )
    holding = make(1, held=Key(Color.RED))
    assert function(make(1), Action.PICK_N_DROP, holding) is pick
    assert function(holding, Action.PICK_N_DROP, make(1)) is drop
    for a, b in [(make(1), make(1)), (holding, make(1, held=Key(Color.BLUE)))]:
        zero = function(a, Action.PICK_N_DROP, b)
        assert type(zero) is float and zero == 0.0

    function = reward_functions.factory(
        'actuate_door', reward_open=opened, reward_close=closed
    )
    for status in (Door.Status.CLOSED, Door.Status.LOCKED):
        shut, ajar = make(1, door=status), make(1, door=Door.Status.OPEN)
        assert function(shut, Action.ACTUATE, ajar) is opened
        assert function(ajar, Action.ACTUATE, shut) is closed
        for a, b in [(shut, shut), (ajar, ajar), (shut, make(1, door=Door.Status.CLOSED))]:
            zero = function(a, Action.ACTUATE, b)
            assert type(zero) is float and zero == 0.0
        for action in ALL_ACTIONS:
            if action is not Action.ACTUATE:
                zero = function(shut, action, ajar)
                assert type(zero) is float and zero == 0.0
    # not facing the door, facing outside
    assert function(make(0), Action.ACTUATE, make(0, door=Door.Status.OPEN)) == 0.0
    outside = make(1)
    outside.agent.orientation = Orientation.F
    assert function(outside, Action.ACTUATE, make(1, door=Door.Status.OPEN)) == 0.0

    # the neighbour table of dijkstra, if any, is not damaged by its use
    layout = ((True, True, False), (False, True, True), (True, False, True))
    first = reward_functions.dijkstra(layout, (0, 0)).copy()
    reward_functions.dijkstra.cache_clear()
    second = reward_functions.dijkstra(layout, (0, 0))
    assert (first == second).all()
    expected = [[0.0, 1.0, math.inf], [math.inf, 2.0, 3.0], [math.inf, math.inf, 4.0]]
    assert second.tolist() == expected
    # memoised:  the very same array is returned while the entry is alive
    assert reward_functions.dijkstra(layout, (0, 0)) is second
    info = reward_functions.dijkstra.cache_info()
    assert info.maxsize == 10


def main():
    rnd = random.Random(424242)

    check_passthrough()

    shapes = [(1, 1), (1, 2), (2, 1), (1, 6), (2, 2), (3, 3), (3, 5), (5, 5), (7, 6)]

    # the memoised helper
    for shape in shapes:
        for density in (0.0, 0.4, 0.8):
            for _ in range(3):
                check_dijkstra(random_state(rnd, shape, density=density))

    # arbitrary triplets
    flushes = ['keep', 'keep', 'keep', 'overflow', 'clear']
    for shape in shapes:
        for i in range(60):
            exits = rnd.choice([1, 1, 1, 1, 1, 0, 2])
            beacons = rnd.choice([1, 1, 1, 1, 0, 2])
            state = random_state(
                rnd,
                shape,
                exits=exits,
                beacons=beacons,
                density=rnd.choice([0.0, 0.3, 0.6, 0.9]),
            )
            next_state = perturbed(rnd, state)
            if rnd.random() < 0.1:
                # the target disappears / multiplies in the next state only
                y = rnd.randrange(shape[0])
                x = rnd.randrange(shape[1])
                next_state.grid[y, x] = rnd.choice([Exit, Floor])()
            check_triplet(
                rnd,
                state,
                rnd.choice(ALL_ACTIONS + [Action.ACTUATE] * 4),
                next_state,
                flush=rnd.choice(flushes),
            )

    # through the environment:  every action from random states, and
    # trajectories
    for shape in shapes:
        for i in range(25):
            state = random_state(
                rnd,
                shape,
                exits=rnd.choice([1, 1, 1, 1, 1, 1, 0, 2]),
                density=rnd.choice([0.2, 0.5, 0.8]),
            )
            for action in ALL_ACTIONS:
                check_step(rnd, state, action, flush=rnd.choice(flushes))

        for i in range(6):
            state = random_state(rnd, shape, density=0.4)
            for t in range(20):
                state = check_step(
                    rnd, state, rnd.choice(ALL_ACTIONS), flush='keep'
                )
                if state is None:
                    # no room for an exit next to the agent
                    assert shape == (1, 1)
                    break

    assert counts['invalid'] > 100, counts
    assert counts['nonzero'] > 1000, counts
    assert counts['inf'] > 100, counts
    assert counts['evictions'] > 10, counts
    print(
        f"OK: {counts['calls']} reward calls "
        f"({counts['nonzero']} non-zero, {counts['invalid']} invalid), "
        f"{counts['steps']} functional steps"
    )


if __name__ == '__main__':
    main()
