"""Demo / check program for refactoring C (gym_gridverse.rng helpers + GridWorld).

Run as:  cd /tmp/wt3-C02 && /venv/bin/python -W ignore _seed/C/demo.py

The sampling helpers are compared with direct numpy calls made by this program;
seeded GridWorld environments are compared with `RefEnv`, an independent
re-implementation of the seeding/plumbing logic (one private
`numpy.random.default_rng(seed)` threaded through reset, transition and
observation functions, lazily generated observations).
"""
import copy
import hashlib
import os
import random
import subprocess
import sys

sys.path.insert(0, os.getcwd())

import numpy as np  # noqa: E402

from gym_gridverse import rng as gv_rng_module  # noqa: E402
from gym_gridverse.action import Action  # noqa: E402
from gym_gridverse.agent import Agent  # noqa: E402
from gym_gridverse.debugging import reset_gv_debug  # noqa: E402
from gym_gridverse.envs.gridworld import GridWorld  # noqa: E402
from gym_gridverse.envs.yaml import factory as yaml_factory  # noqa: E402
from gym_gridverse.geometry import Orientation, Position, Shape  # noqa: E402
from gym_gridverse.grid import Grid  # noqa: E402
from gym_gridverse.grid_object import Floor, Telepod, Color, Wall  # noqa: E402
from gym_gridverse.state import State  # noqa: E402


def rng_state(rng):
    return repr(rng.bit_generator.state)


def global_snapshot():
    lib = gv_rng_module.get_gv_rng()
    return (
        id(lib),
        repr(lib.bit_generator.state),
        repr(np.random.get_state()),
    )


# ===================================================================== rng module


def check_generators():
    # make_rng is numpy's default_rng
    for seed in (0, 1, 5, 2**40 + 3):
        a, b = gv_rng_module.make_rng(seed), np.random.default_rng(seed)
        assert type(a) is type(b)
        assert rng_state(a) == rng_state(b)
        assert a.integers(0, 10**9, size=20).tolist() == b.integers(0, 10**9, size=20).tolist()
    assert rng_state(gv_rng_module.make_rng()) != rng_state(gv_rng_module.make_rng())

    # library-level generator: created once, replaced only by reset_gv_rng
    first = gv_rng_module.get_gv_rng()
    for _ in range(5):
        assert gv_rng_module.get_gv_rng() is first
        assert gv_rng_module.get_gv_rng_if_none(None) is first
    state = rng_state(first)
    for seed in (None, 0, 7, 7):
        fresh = gv_rng_module.reset_gv_rng(seed)
        assert fresh is not first
        assert gv_rng_module.get_gv_rng() is fresh
        assert gv_rng_module.get_gv_rng_if_none(None) is fresh
        if seed is not None:
            assert rng_state(fresh) == rng_state(np.random.default_rng(seed))
        assert rng_state(first) == state  # the old one is not advanced
        first, state = fresh, rng_state(fresh)

    # a provided generator is returned as is, library-level one is left alone
    snap = global_snapshot()
    for seed in range(10):
        private = np.random.default_rng(seed)
        private_state = rng_state(private)
        assert gv_rng_module.get_gv_rng_if_none(private) is private
        assert rng_state(private) == private_state
    assert global_snapshot() == snap


class Token:
    """unhashable-by-value element, to check that elements are not copied"""

    def __init__(self, i):
        self.i = i


def check_sampling_helpers():
    r = random.Random(31337)
    n = 0
    for case in range(1500):
        size = r.randint(1, 12)
        kind = r.choice(['list', 'tuple', 'str', 'range', 'tokens'])
        if kind == 'list':
            data = [r.randrange(100) for _ in range(size)]
        elif kind == 'tuple':
            data = tuple((i, i * i) for i in range(size))
        elif kind == 'str':
            data = 'abcdefghijklmnop'[:size]
        elif kind == 'range':
            data = range(3, 3 + 2 * size, 2)
        else:
            data = [Token(i) for i in range(size)]
        seed = r.randrange(2**32)

        # choice
        lib, ref = np.random.default_rng(seed), np.random.default_rng(seed)
        for _ in range(3):
            got = gv_rng_module.choice(lib, data)
            want = data[int(ref.choice(len(data)))]
            assert got is want or got == want
            if kind == 'tokens':
                assert got is want
        assert rng_state(lib) == rng_state(ref)

        # choices, several keyword combinations
        k = r.randint(0, size)
        weights = np.array([r.random() + 0.01 for _ in range(size)])
        weights /= weights.sum()
        for kwargs in (
            {'size': k, 'replace': False},
            {'size': k},
            {'size': k + 5, 'replace': True},
            {'size': k, 'replace': False, 'shuffle': False},
            {'size': k + 2, 'p': weights},
            {'size': k, 'replace': False, 'p': weights},
        ):
            lib, ref = np.random.default_rng(seed), np.random.default_rng(seed)
            try:
                indices = ref.choice(len(data), **kwargs)
            except ValueError as error:
                try:
                    gv_rng_module.choices(lib, data, **kwargs)
                except ValueError as lib_error:
                    assert str(lib_error) == str(error)
                else:
                    raise AssertionError('expected ValueError')
            else:
                got = gv_rng_module.choices(lib, data, **kwargs)
                want = [data[int(i)] for i in indices]
                assert type(got) is list and len(got) == len(want)
                assert all(g is w or g == w for g, w in zip(got, want))
                if kind == 'tokens':
                    assert all(g is w for g, w in zip(got, want))
            assert rng_state(lib) == rng_state(ref), (case, kwargs)

        # shuffle
        lib, ref = np.random.default_rng(seed), np.random.default_rng(seed)
        original = list(data)
        got = gv_rng_module.shuffle(lib, data)
        indices = list(range(len(data)))
        ref.shuffle(indices)
        want = [data[i] for i in indices]
        assert type(got) is list and len(got) == len(want)
        assert all(g is w or g == w for g, w in zip(got, want))
        assert list(data) == original and got is not data  # input untouched
        assert rng_state(lib) == rng_state(ref)
        n += 1

    # degenerate inputs
    for helper in (gv_rng_module.choice,):
        lib = np.random.default_rng(0)
        before = rng_state(lib)
        try:
            helper(lib, [])
        except ValueError:
            pass
        else:
            raise AssertionError('choice from nothing must fail')
        assert rng_state(lib) == before
    lib = np.random.default_rng(0)
    assert gv_rng_module.shuffle(lib, []) == []
    assert gv_rng_module.choices(lib, [], size=0) == []
    try:
        gv_rng_module.choices(lib, [1, 2], 2)  # size is keyword-only
    except TypeError:
        pass
    else:
        raise AssertionError('size must stay keyword-only')
    return n


def check_lazy_library_generator():
    """in a fresh interpreter, seeded use never creates the library generator"""
    program = '''
import os, sys
sys.path.insert(0, os.getcwd())
import numpy as np
from gym_gridverse import rng as m
from gym_gridverse.envs import reset_functions, transition_functions
from gym_gridverse.action import Action
from gym_gridverse.geometry import Shape
assert m._gv_rng is None
private = np.random.default_rng(3)
assert m.get_gv_rng_if_none(private) is private
state = reset_functions.dynamic_obstacles(Shape(7, 7), 4, True, rng=private)
transition_functions.move_obstacles(state, Action.MOVE_FORWARD, rng=private)
reset_functions.rooms(Shape(9, 9), (2, 2), rng=private)
assert m._gv_rng is None, 'library-level generator created by seeded use'
a = m.get_gv_rng()
assert a is not None and m._gv_rng is a and m.get_gv_rng() is a
assert m.get_gv_rng_if_none(None) is a
print('lazy-ok')
'''
    out = subprocess.run(
        [sys.executable, '-W', 'ignore', '-c', program],
        cwd=os.getcwd(),
        stdout=subprocess.PIPE,
        stderr=subprocess.PIPE,
    )
    assert out.returncode == 0, out.stderr.decode()[-2000:]
    assert out.stdout.decode().strip().endswith('lazy-ok')


# ====================================================================== GridWorld

MOVES = [
    'MOVE_FORWARD',
    'MOVE_BACKWARD',
    'MOVE_LEFT',
    'MOVE_RIGHT',
    'TURN_LEFT',
    'TURN_RIGHT',
]
AREA = [[-6, 0], [-3, 3]]
GETTING_CLOSER = {
    'name': 'getting_closer',
    'distance_function': 'manhattan',
    'object_type': 'Exit',
    'reward_closer': 0.2,
    'reward_further': -0.2,
}
REACH_EXIT = {'name': 'reach_exit', 'reward_on': 5.0, 'reward_off': 0.0}
LIVING = {'name': 'living_reward', 'reward': -0.05}


def config(
    objects,
    colors,
    reset_function,
    transitions=('move_agent', 'turn_agent'),
    rewards=(REACH_EXIT, GETTING_CLOSER, LIVING),
    observation='partially_occluded',
    terminating=None,
    actions=MOVES,
):
    data = {
        'state_space': {'objects': list(objects), 'colors': list(colors)},
        'observation_space': {'objects': list(objects), 'colors': list(colors)},
        'reset_function': reset_function,
        'transition_functions': [{'name': name} for name in transitions],
        'reward_functions': [dict(reward) for reward in rewards],
        'observation_function': {'name': observation, 'area': AREA},
        'terminating_function': terminating or {'name': 'reach_exit'},
    }
    if actions is not None:
        data['action_space'] = list(actions)
    return data


ALL_COLORS = ['NONE', 'RED', 'GREEN', 'BLUE', 'YELLOW']
MEMORY_REWARDS = (
    {'name': 'reach_exit_memory', 'reward_good': 5.0, 'reward_bad': -5.0},
    LIVING,
)


def configs():
    basic = ['Wall', 'Floor', 'Exit']
    return {
        'empty_4': config(basic, ['NONE'], {'name': 'empty', 'shape': [4, 4]}),
        'empty_8_random': config(
            basic,
            ['NONE'],
            {'name': 'empty', 'shape': [8, 8], 'random_agent': True, 'random_exit': True},
            observation='stochastic_raytracing',
        ),
        'crossing_7': config(
            basic,
            ['NONE'],
            {'name': 'crossing', 'shape': [7, 7], 'num_rivers': 2, 'object_type': 'Wall'},
        ),
        'dynamic_obstacles_7': config(
            basic + ['MovingObstacle'],
            ['NONE'],
            {'name': 'dynamic_obstacles', 'shape': [7, 7], 'num_obstacles': 3, 'random_agent': True},
            transitions=('move_agent', 'turn_agent', 'move_obstacles'),
            rewards=(
                REACH_EXIT,
                {'name': 'bump_moving_obstacle', 'reward': -1.0},
                {'name': 'bump_into_wall', 'reward': -1.0},
                GETTING_CLOSER,
                LIVING,
            ),
            terminating={
                'name': 'reduce_any',
                'terminating_functions': [
                    {'name': 'reach_exit'},
                    {'name': 'bump_moving_obstacle'},
                    {'name': 'bump_into_wall'},
                ],
            },
        ),
        'four_rooms_9': config(
            basic,
            ['NONE'],
            {'name': 'rooms', 'shape': [9, 9], 'layout': [2, 2]},
            observation='raytracing',
        ),
        'keydoor_7': config(
            basic + ['Door', 'Key'],
            ['NONE', 'YELLOW'],
            {'name': 'keydoor', 'shape': [7, 7]},
            transitions=('move_agent', 'turn_agent', 'actuate_door', 'pickndrop'),
            rewards=(
                REACH_EXIT,
                {'name': 'pickndrop', 'object_type': 'Key', 'reward_pick': 1.0, 'reward_drop': -1.0},
                {'name': 'actuate_door', 'reward_open': 1.0, 'reward_close': -1.0},
                GETTING_CLOSER,
                LIVING,
            ),
            actions=None,  # all 8 actions
        ),
        'teleport_7': config(
            basic + ['Telepod'],
            ['NONE', 'RED'],
            {'name': 'teleport', 'shape': [7, 7]},
            transitions=('move_agent', 'turn_agent', 'teleport'),
            observation='stochastic_raytracing',
        ),
        'memory_9': config(
            basic + ['Beacon'],
            ALL_COLORS,
            {'name': 'memory', 'shape': [9, 9], 'colors': ALL_COLORS[1:]},
            rewards=MEMORY_REWARDS,
        ),
        'memory_four_rooms_9': config(
            basic + ['Beacon'],
            ALL_COLORS,
            {
                'name': 'memory_rooms',
                'shape': [9, 9],
                'layout': [2, 2],
                'colors': ALL_COLORS[1:],
                'num_beacons': 3,
                'num_exits': 3,
            },
            rewards=MEMORY_REWARDS,
            observation='stochastic_raytracing',
        ),
    }


class Components:
    """environment components built with the public factories"""

    def __init__(self, data):
        spaces_env = yaml_factory.factory_env_from_data(copy.deepcopy(data))
        self.state_space = spaces_env.state_space
        self.action_space = spaces_env.action_space
        self.observation_space = spaces_env.observation_space

        data = copy.deepcopy(data)
        self.reset = yaml_factory.factory_reset_function(data['reset_function'])
        self.transition = yaml_factory.factory_transition_function(
            {'name': 'chain', 'transition_functions': data['transition_functions']}
        )
        self.reward = yaml_factory.factory_reward_function(
            {'name': 'reduce_sum', 'reward_functions': data['reward_functions']}
        )
        self.observation = yaml_factory.factory_observation_function(
            data['observation_function']
        )
        self.terminating = yaml_factory.factory_terminating_function(
            data['terminating_function']
        )

    def gridworld(self):
        return GridWorld(
            self.state_space,
            self.action_space,
            self.observation_space,
            self.reset,
            self.transition,
            self.observation,
            self.reward,
            self.terminating,
        )


class RefEnv:
    """independent re-implementation of the seeded environment plumbing"""

    def __init__(self, components):
        self.c = components
        self.action_space = components.action_space
        self.generator = None
        self._state = None
        self._observation = None

    def set_seed(self, seed=None):
        self.generator = np.random.default_rng(seed)

    def reset(self):
        self._state = self.c.reset(rng=self.generator)
        self._observation = None

    def step(self, action):
        assert action in self.action_space.actions
        successor = copy.deepcopy(self._state)
        self.c.transition(successor, action, rng=self.generator)
        reward = self.c.reward(self._state, action, successor)
        terminal = self.c.terminating(self._state, action, successor)
        self._state, self._observation = successor, None
        return reward, terminal

    @property
    def state(self):
        return self._state

    @property
    def observation(self):
        if self._observation is None:  # at most one (random) draw per state
            self._observation = self.c.observation(self._state, rng=self.generator)
        return self._observation


def canon_object(obj):
    return (type(obj).__name__, obj.state_index, obj.color.name)


def canon(view):
    """canonical form of a State or an Observation"""
    grid = view.grid
    cells = tuple(
        tuple(canon_object(grid[y, x]) for x in range(grid.shape.width))
        for y in range(grid.shape.height)
    )
    agent = view.agent
    return (
        cells,
        (agent.position.y, agent.position.x, agent.orientation.name),
        canon_object(agent.grid_object),
    )


def actions_for(env, seed, n):
    r = random.Random(seed * 7919 + 1)
    return [r.choice(env.action_space.actions) for _ in range(n)]


class Runner:
    """steps one environment, recording a trace; resets at episode end"""

    def __init__(self, env, seed, actions, observe_every=1):
        self.env, self.actions, self.t = env, actions, 0
        self.observe_every = observe_every
        env.set_seed(seed)
        env.reset()
        self.trace = [(canon(env.state), canon(env.observation))]

    def done(self):
        return self.t >= len(self.actions)

    def advance(self):
        reward, terminal = self.env.step(self.actions[self.t])
        self.t += 1
        record = [canon(self.env.state), reward, terminal]
        if self.t % self.observe_every == 0:
            # observations are generated lazily, and memoized
            first = self.env.observation
            assert self.env.observation is first
            record.append(canon(first))
        self.trace.append(tuple(record))
        if terminal:
            self.env.reset()
            self.trace.append((canon(self.env.state), canon(self.env.observation)))

    def run(self):
        while not self.done():
            self.advance()
        return self.trace


LIGHT_KEYS = [(0, 1), (42, 1)]  # (seed, observe_every) used across processes


def check_environments(light=False):
    all_traces = {}
    n = 70
    for name, data in configs().items():
        components = Components(data)
        for seed in (0, 1, 42):
            for observe_every in (1, 3):
                if light and (seed, observe_every) not in LIGHT_KEYS:
                    continue
                reset_gv_debug(True)
                env = components.gridworld()
                reference = Runner(
                    RefEnv(components), seed, actions_for(env, seed, n), observe_every
                ).run()

                snap = global_snapshot()
                trace = Runner(env, seed, actions_for(env, seed, n), observe_every).run()
                assert trace == reference, (name, seed, 'differs from reference')
                if light:
                    all_traces[f'{name}/{seed}/{observe_every}'] = trace
                    continue

                reset_gv_debug(False)
                env = components.gridworld()
                trace = Runner(env, seed, actions_for(env, seed, n), observe_every).run()
                assert trace == reference, (name, seed, 'debug off differs')
                reset_gv_debug(True)

                # re-seeding the same object restarts the same sequence
                trace = Runner(env, seed, actions_for(env, seed, n), observe_every).run()
                assert trace == reference, (name, seed, 're-seeded differs')

                # twins interleaved with strangers (factory-made and hand-made)
                envs = [
                    components.gridworld(),
                    yaml_factory.factory_env_from_data(copy.deepcopy(data)),
                    yaml_factory.factory_env_from_data(copy.deepcopy(data)),
                    components.gridworld(),
                ]
                snap = global_snapshot()
                runners = [
                    Runner(envs[0], seed, actions_for(env, seed, n), observe_every),
                    Runner(envs[1], seed + 1000, actions_for(env, seed + 5, n)),
                    Runner(envs[2], seed, actions_for(env, seed, n), observe_every),
                    Runner(envs[3], seed + 2000, actions_for(env, seed + 9, n), 2),
                ]
                scheduler = random.Random(seed)
                while not all(runner.done() for runner in runners):
                    live = [runner for runner in runners if not runner.done()]
                    runner = live[scheduler.randrange(len(live))]
                    python_state = random.getstate()
                    runner.advance()
                    assert random.getstate() == python_state
                assert runners[0].trace == reference, (name, seed, 'interleaved 0')
                assert runners[2].trace == reference, (name, seed, 'interleaved 2')
                assert global_snapshot() == snap, (name, seed, 'global rng perturbed')
                all_traces[f'{name}/{seed}/{observe_every}'] = reference
    return all_traces


def expect_value_error(function, message):
    try:
        function()
    except ValueError as error:
        assert str(error) == message, (str(error), message)
    else:
        raise AssertionError(f'expected ValueError({message!r})')


def check_validation():
    """debug-only space checks and the unconditional action check"""
    data = config(
        ['Wall', 'Floor', 'Exit'],
        ['NONE'],
        {'name': 'empty', 'shape': [6, 6], 'random_agent': True},
    )
    components = Components(data)
    env = components.gridworld()
    env.set_seed(11)

    good = components.reset(rng=np.random.default_rng(0))
    # wrong shape and an object type/colour outside of the state space
    bad_shape = components_state(Shape(5, 7))
    bad_object = copy.deepcopy(good)
    bad_object.grid[2, 2] = Telepod(Color.RED)

    # an observation function producing out-of-space observations, and a
    # reset / transition producing out-of-space states
    def bad_reset(*, rng=None):
        return copy.deepcopy(bad_object)

    def bad_transition(state, action, *, rng=None):
        state.grid[3, 3] = Telepod(Color.RED)

    def bad_observation(state, *, rng=None):
        observation = components.observation(state, rng=rng)
        observation.grid[observation.agent.position] = Telepod(Color.RED)
        return observation

    def world(**overrides):
        parts = {
            'reset': components.reset,
            'transition': components.transition,
            'observation': components.observation,
        }
        parts.update(overrides)
        w = GridWorld(
            components.state_space,
            components.action_space,
            components.observation_space,
            parts['reset'],
            parts['transition'],
            parts['observation'],
            components.reward,
            components.terminating,
        )
        w.set_seed(5)
        return w

    for debug in (True, False):
        reset_gv_debug(debug)

        # result shape of functional_step, no mutation of the input state
        before = canon(good)
        result = env.functional_step(good, Action.MOVE_FORWARD)
        assert type(result) is tuple and len(result) == 3
        next_state, reward, terminal = result
        assert isinstance(next_state, State) and next_state is not good
        assert next_state.grid is not good.grid and next_state.agent is not good.agent
        assert canon(good) == before
        assert isinstance(terminal, bool) and isinstance(reward, float)

        # the action check does not depend on the debug flag
        for action in (Action.ACTUATE, Action.PICK_N_DROP):
            expect_value_error(
                lambda: env.functional_step(good, action),
                'action {action} does not satisfy action-space',
            )

        for bad in (bad_shape, bad_object):
            if debug:
                expect_value_error(
                    lambda: env.functional_step(bad, Action.MOVE_FORWARD),
                    'state does not satisfy state_space',
                )
                # the state check comes before the action check
                expect_value_error(
                    lambda: env.functional_step(bad, Action.ACTUATE),
                    'state does not satisfy state_space',
                )
            else:
                expect_value_error(
                    lambda: env.functional_step(bad, Action.ACTUATE),
                    'action {action} does not satisfy action-space',
                )
        if not debug:
            # without debugging, out-of-space states are processed normally
            next_state, _, _ = env.functional_step(bad_object, Action.TURN_LEFT)
            assert isinstance(next_state.grid[2, 2], Telepod)

        if debug:
            expect_value_error(
                world(reset=bad_reset).functional_reset,
                'state does not satisfy state_space',
            )
            expect_value_error(
                lambda: world(transition=bad_transition).functional_step(
                    good, Action.TURN_LEFT
                ),
                'next_state does not satisfy state_space',
            )
            expect_value_error(
                lambda: world(observation=bad_observation).functional_observation(
                    good
                ),
                'observation does not satisfy observation_space',
            )
        else:
            assert canon(world(reset=bad_reset).functional_reset()) == canon(bad_object)
            next_state, _, _ = world(transition=bad_transition).functional_step(
                good, Action.TURN_LEFT
            )
            assert isinstance(next_state.grid[3, 3], Telepod)
            observation = world(observation=bad_observation).functional_observation(good)
            assert isinstance(observation.grid[observation.agent.position], Telepod)

        # functional interface uses the environment generator, in call order
        w = world()
        shadow = np.random.default_rng(5)
        for _ in range(3):
            assert canon(w.functional_reset()) == canon(components.reset(rng=shadow))
    reset_gv_debug(True)

    # an environment which was never reset has no state
    fresh = components.gridworld()
    fresh.set_seed(0)
    for access in (lambda: fresh.state, lambda: fresh.observation):
        try:
            access()
        except RuntimeError:
            pass
        else:
            raise AssertionError('expected RuntimeError')


def components_state(shape):
    grid = Grid.from_shape((shape.height, shape.width))
    for y in range(shape.height):
        for x in range(shape.width):
            if y in (0, shape.height - 1) or x in (0, shape.width - 1):
                grid[y, x] = Wall()
    return State(grid, Agent(Position(1, 1), Orientation.F))


def digest(traces):
    light = {
        key: trace
        for key, trace in traces.items()
        if tuple(int(part) for part in key.split('/')[1:]) in LIGHT_KEYS
    }
    assert len(light) == len(configs()) * len(LIGHT_KEYS)
    return hashlib.sha256(repr(sorted(light.items())).encode()).hexdigest()


def check_across_processes(own_digest):
    for hashseed in ('0', '1', 'random'):
        env = dict(os.environ, PYTHONHASHSEED=hashseed)
        out = subprocess.run(
            [sys.executable, '-W', 'ignore', os.path.abspath(__file__), '--digest'],
            env=env,
            cwd=os.getcwd(),
            stdout=subprocess.PIPE,
            stderr=subprocess.DEVNULL,
            check=True,
        ).stdout.decode().strip().splitlines()[-1]
        assert out == own_digest, f'PYTHONHASHSEED={hashseed}: trace differs'


def main():
    if '--digest' in sys.argv:
        print(digest(check_environments(light=True)))
        return

    check_lazy_library_generator()
    check_generators()
    print('generator management: ok')
    print('sampling helper cases:', check_sampling_helpers())
    check_validation()
    print('GridWorld validation: ok')
    traces = check_environments()
    print('environment traces:', len(traces))
    check_across_processes(digest(traces))
    print('C: all checks passed')


if __name__ == '__main__':
    main()
