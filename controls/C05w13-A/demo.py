"""Demo for change A (from_visibility builds the observation grid in one pass).

Run from the worktree root:  /venv/bin/python _seed/A/demo.py

Exits 0 on the pristine tree and with the patch applied.  Checks property C05
(observations are sound) and equality with a reference implementation that is
embedded below and that uses none of Grid.subgrid / Grid.__mul__ /
Orientation.__mul__ / Transform.__mul__ / from_visibility.
"""
import itertools as itt
import os
import sys

sys.path.insert(0, os.getcwd())  # the worktree root

import numpy as np
import numpy.random as rnd

from gym_gridverse.agent import Agent
from gym_gridverse.envs import observation_functions as ofs
from gym_gridverse.envs.visibility_functions import visibility_function_registry
from gym_gridverse.geometry import Area, Orientation, Position
from gym_gridverse.grid import Grid
from gym_gridverse.grid_object import (
    Beacon,
    Box,
    Color,
    Door,
    Exit,
    Floor,
    Hidden,
    Key,
    MovingObstacle,
    NoneGridObject,
    Telepod,
    Wall,
)
from gym_gridverse.observation import Observation
from gym_gridverse.state import State

CHECKS = 0


def check(condition, message):
    global CHECKS
    CHECKS += 1
    if not condition:
        print('FAIL:', message)
        sys.exit(1)


# ---------------------------------------------------------------- reference

# view-relative (dy, dx) -> world (dy, dx), written out independently of the
# library (forward is "up", i.e. -y)
REFERENCE_ROTATION = {
    Orientation.F: lambda dy, dx: (dy, dx),
    Orientation.B: lambda dy, dx: (-dy, -dx),
    Orientation.R: lambda dy, dx: (dx, -dy),
    Orientation.L: lambda dy, dx: (-dx, dy),
}


def world_cell(state, area, i, j):
    """world (y, x) of the cell at row i, column j of the view"""
    dy, dx = area.ymin + i, area.xmin + j
    wy, wx = REFERENCE_ROTATION[state.agent.orientation](dy, dx)
    return state.agent.position.y + wy, state.agent.position.x + wx


def world_object(state, y, x):
    """object at world cell, or None when outside of the grid"""
    rows = state.grid.objects
    if 0 <= y < len(rows) and 0 <= x < len(rows[0]):
        return rows[y][x]
    return None


def reference_view(state, area):
    """unoccluded view, as rows of objects (Hidden outside of the grid)"""
    view = []
    for i in range(area.height):
        row = []
        for j in range(area.width):
            obj = world_object(state, *world_cell(state, area, i, j))
            row.append(Hidden() if obj is None else obj)
        view.append(row)
    return view


def reference_observation(state, area, visibility_function, rng):
    view = reference_view(state, area)
    anchor = Position(-area.ymin, -area.xmin)
    visibility = visibility_function(Grid(view), anchor, rng=rng)
    if visibility.shape != (area.height, area.width):
        raise ValueError('incorrect visibility shape')
    rows = [
        [
            view[i][j] if visibility[i, j] else Hidden()
            for j in range(area.width)
        ]
        for i in range(area.height)
    ]
    return rows, anchor


# ---------------------------------------------------------------- property


def check_sound(state, area, observation, label, *, transparent=False):
    check(isinstance(observation, Observation), f'{label}: type')
    grid = observation.grid
    check(
        grid.shape.as_tuple == (area.height, area.width),
        f'{label}: shape {grid.shape} for {area}',
    )
    check(
        len(grid.objects) == area.height
        and all(len(row) == area.width for row in grid.objects),
        f'{label}: rows',
    )
    check(
        grid.area == Area((0, area.height - 1), (0, area.width - 1)),
        f'{label}: grid area',
    )
    for i in range(area.height):
        for j in range(area.width):
            shown = grid.objects[i][j]
            there = world_object(state, *world_cell(state, area, i, j))
            if there is None:
                check(
                    type(shown) is Hidden, f'{label}: outside cell {i},{j}'
                )
            elif transparent:
                check(shown is there, f'{label}: transparent cell {i},{j}')
            else:
                check(
                    type(shown) is Hidden or shown is there,
                    f'{label}: cell {i},{j} shows {shown!r}, world {there!r}',
                )
    agent = observation.agent
    check(
        agent.position == Position(-area.ymin, -area.xmin),
        f'{label}: agent position',
    )
    check(agent.orientation is Orientation.F, f'{label}: agent orientation')
    check(
        agent.grid_object is state.agent.grid_object,
        f'{label}: held item unchanged',
    )


def same_rows(rows_a, rows_b):
    """same layout;  identical objects except for Hidden (fresh instances)"""
    if len(rows_a) != len(rows_b):
        return False
    for row_a, row_b in zip(rows_a, rows_b):
        if len(row_a) != len(row_b):
            return False
        for a, b in zip(row_a, row_b):
            if type(a) is Hidden or type(b) is Hidden:
                if type(a) is not type(b):
                    return False
            elif a is not b:
                return False
    return True


def snapshot(state):
    return (
        [list(row) for row in state.grid.objects],
        state.agent.position,
        state.agent.orientation,
        state.agent.grid_object,
    )


def unchanged(state, snap):
    rows, position, orientation, held = snap
    return (
        len(rows) == len(state.grid.objects)
        and all(
            len(r) == len(s) and all(a is b for a, b in zip(r, s))
            for r, s in zip(rows, state.grid.objects)
        )
        and state.agent.position == position
        and state.agent.orientation is orientation
        and state.agent.grid_object is held
    )


# ---------------------------------------------------------------- scenarios

PALETTE = [
    Floor,
    Floor,
    Floor,
    Wall,
    Wall,
    Exit,
    lambda: Exit(Color.NONE),
    lambda: Door(Door.Status.LOCKED, Color.RED),
    lambda: Door(Door.Status.OPEN, Color.NONE),
    lambda: Door(Door.Status.CLOSED, Color.BLUE),
    lambda: Key(Color.YELLOW),
    lambda: Key(Color.NONE),
    MovingObstacle,
    lambda: Box(Key(Color.GREEN)),
    lambda: Box(Floor()),
    lambda: Telepod(Color.NONE),
    lambda: Beacon(Color.GREEN),
    Hidden,  # a world may legitimately contain Hidden cells
]


def random_grid(rng, height, width):
    return Grid(
        [
            [PALETTE[rng.integers(len(PALETTE))]() for _ in range(width)]
            for _ in range(height)
        ]
    )


SHAPES = [(1, 1), (1, 4), (5, 1), (2, 3), (4, 4), (3, 6)]

AREAS = [
    Area((0, 0), (0, 0)),  # the agent cell alone
    Area((-2, 0), (-1, 1)),  # symmetric, agent on the bottom row
    Area((-3, 0), (-2, 1)),  # asymmetric, agent on the bottom row
    Area((-1, 0), (0, 3)),  # asymmetric, agent in bottom-left corner
    Area((-6, 0), (-3, 3)),  # the default 7x7 view
    Area((-1, 1), (-1, 1)),  # agent in the centre
    Area((-1, 2), (-3, 0)),  # agent off-centre, looks behind as well
    Area((0, 2), (0, 1)),  # agent in the top-left corner of the view
    Area((0, 0), (-2, 2)),  # a single row
    Area((-3, 1), (0, 0)),  # a single column
    Area((-3, -1), (-1, 1)),  # does not contain the agent cell
    Area((1, 2), (2, 4)),  # does not contain the agent cell
    Area((-9, 0), (-8, 8)),  # far larger than any of the grids
]

HELD = [None, Key(Color.RED), Key(Color.NONE), Box(Key(Color.BLUE))]

BUILTIN = [
    'fully_transparent',
    'partially_occluded',
    'raytracing',
    'stochastic_raytracing',
]


def positions_of_interest(height, width):
    ys = sorted({0, height // 2, height - 1})
    xs = sorted({0, width // 2, width - 1})
    return [Position(y, x) for y in ys for x in xs]


def run(function, *args, **kwargs):
    """result or the type of the exception"""
    try:
        return function(*args, **kwargs), None
    except Exception as error:  # pylint: disable=broad-except
        return None, type(error)


def builtin_scenarios():
    rng = rnd.default_rng(20240513)
    n_obs = 0
    n_raise = 0
    for (height, width), area in itt.product(SHAPES, AREAS):
        grid = random_grid(rng, height, width)
        for position, orientation in itt.product(
            positions_of_interest(height, width), Orientation
        ):
            held = HELD[rng.integers(len(HELD))]
            state = State(grid, Agent(position, orientation, held))
            snap = snapshot(state)

            for name in BUILTIN:
                label = (
                    f'{name} grid={height}x{width} {position} '
                    f'{orientation.name} {area}'
                )
                seed = int(rng.integers(2**32))
                visibility_function = visibility_function_registry[name]

                expected, expected_error = run(
                    reference_observation,
                    state,
                    area,
                    visibility_function,
                    rnd.default_rng(seed),
                )
                observation, error = run(
                    ofs.observation_function_registry[name],
                    state,
                    area=area,
                    rng=rnd.default_rng(seed),
                )
                check(
                    error is expected_error,
                    f'{label}: raised {error}, reference {expected_error}',
                )
                check(unchanged(state, snap), f'{label}: state was modified')
                if error is not None:
                    n_raise += 1
                    continue

                n_obs += 1
                rows, _ = expected
                check_sound(
                    state,
                    area,
                    observation,
                    label,
                    transparent=name == 'fully_transparent',
                )
                check(
                    same_rows(observation.grid.objects, rows),
                    f'{label}: differs from the reference',
                )

                # no Hidden instance is shared between cells, nor with the state
                hidden = [
                    obj
                    for row in observation.grid.objects
                    for obj in row
                    if type(obj) is Hidden
                ]
                world_hidden = {
                    id(obj) for row in state.grid.objects for obj in row
                }
                fresh = [obj for obj in hidden if id(obj) not in world_hidden]
                check(
                    len({id(obj) for obj in fresh}) == len(fresh),
                    f'{label}: shared Hidden instance',
                )

                # the observation's rows are not the state's rows
                check(
                    all(
                        row is not world_row
                        for row in observation.grid.objects
                        for world_row in state.grid.objects
                    ),
                    f'{label}: observation aliases the rows of the state',
                )

                # repeated call with the same seed: same observation
                again = ofs.observation_function_registry[name](
                    state, area=area, rng=rnd.default_rng(seed)
                )
                check(
                    same_rows(again.grid.objects, observation.grid.objects)
                    and again.grid == observation.grid
                    and again.agent == observation.agent,
                    f'{label}: repeated call differs',
                )
    return n_obs, n_raise


def default_rng_scenarios():
    """rng=None (library generator) and the factory path"""
    rng = rnd.default_rng(7)
    grid = random_grid(rng, 4, 5)
    for name in BUILTIN:
        function = ofs.factory(name, area=Area((-2, 0), (-1, 1)))
        for position, orientation in itt.product(
            positions_of_interest(4, 5), Orientation
        ):
            state = State(grid, Agent(position, orientation, Key(Color.NONE)))
            observation = function(state)
            check_sound(
                state,
                Area((-2, 0), (-1, 1)),
                observation,
                f'factory {name} {position} {orientation.name}',
                transparent=name == 'fully_transparent',
            )


# custom visibility functions: from_visibility is public and accepts any
# VisibilityFunction


def custom_visibility_scenarios():
    rng = rnd.default_rng(99)

    def checkerboard(grid, position, *, rng=None):
        ys, xs = np.indices(grid.shape.as_tuple)
        return (ys + xs) % 2 == 0

    def nothing(grid, position, *, rng=None):
        return np.zeros(grid.shape.as_tuple, dtype=bool)

    def integers(grid, position, *, rng=None):
        ys, xs = np.indices(grid.shape.as_tuple)
        return (ys * 3 + xs) % 3  # int dtype, truthiness decides

    def floats(grid, position, *, rng=None):
        ys, xs = np.indices(grid.shape.as_tuple)
        values = ((ys + 2 * xs) % 3) * 0.5
        values[0, 0] = np.nan  # truthy
        return values

    def objects(grid, position, *, rng=None):
        values = np.empty(grid.shape.as_tuple, dtype=object)
        ys, xs = np.indices(grid.shape.as_tuple)
        for y, x in zip(ys.flat, xs.flat):
            values[y, x] = [None, '', 'x', 0, 2.5, (), (0,)][(y + 2 * x) % 7]
        return values

    def random_mask(grid, position, *, rng=None):
        return rng.random(grid.shape.as_tuple) < 0.5

    def only_agent(grid, position, *, rng=None):
        mask = np.zeros(grid.shape.as_tuple, dtype=bool)
        mask[position.y, position.x] = True
        return mask

    customs = [
        checkerboard,
        nothing,
        integers,
        floats,
        objects,
        random_mask,
        only_agent,
    ]
    areas = [
        Area((-2, 0), (-1, 1)),
        Area((-3, 0), (-2, 1)),
        Area((-1, 2), (-3, 0)),
        Area((0, 0), (0, 0)),
        Area((0, 0), (-2, 2)),
        Area((-3, 1), (0, 0)),
    ]
    for (height, width), area, custom in itt.product(
        [(1, 1), (2, 5), (5, 2), (3, 3)], areas, customs
    ):
        grid = random_grid(rng, height, width)
        for position, orientation in itt.product(
            positions_of_interest(height, width), Orientation
        ):
            state = State(grid, Agent(position, orientation, HELD[1]))
            snap = snapshot(state)
            seed = int(rng.integers(2**32))
            label = (
                f'custom {custom.__name__} grid={height}x{width} '
                f'{position} {orientation.name} {area}'
            )
            expected, expected_error = run(
                reference_observation,
                state,
                area,
                custom,
                rnd.default_rng(seed),
            )
            observation, error = run(
                ofs.from_visibility,
                state,
                area=area,
                visibility_function=custom,
                rng=rnd.default_rng(seed),
            )
            check(error is expected_error is None, f'{label}: raised {error}')
            check(unchanged(state, snap), f'{label}: state was modified')
            check_sound(state, area, observation, label)
            check(
                same_rows(observation.grid.objects, expected[0]),
                f'{label}: differs from the reference',
            )

    # the visibility function receives the unoccluded view and the anchor
    seen = {}

    def recorder(grid, position, *, rng=None):
        seen['rows'] = [list(row) for row in grid.objects]
        seen['position'] = position
        seen['rng'] = rng
        return np.ones(grid.shape.as_tuple, dtype=bool)

    grid = random_grid(rng, 3, 4)
    area = Area((-2, 1), (-1, 2))
    token = rnd.default_rng(0)
    for position, orientation in itt.product(
        positions_of_interest(3, 4), Orientation
    ):
        state = State(grid, Agent(position, orientation))
        ofs.from_visibility(
            state, area=area, visibility_function=recorder, rng=token
        )
        check(
            same_rows(seen['rows'], reference_view(state, area)),
            'recorder: view handed to the visibility function',
        )
        check(seen['position'] == Position(2, 1), 'recorder: anchor')
        check(seen['rng'] is token, 'recorder: rng passed through')

    # wrong shapes are rejected with ValueError, as documented
    def transposed(grid, position, *, rng=None):
        return np.ones((grid.shape.width, grid.shape.height), dtype=bool)

    def too_small(grid, position, *, rng=None):
        return np.ones((grid.shape.height - 1, grid.shape.width), dtype=bool)

    def flat(grid, position, *, rng=None):
        return np.ones(grid.shape.height * grid.shape.width, dtype=bool)

    def three_dimensional(grid, position, *, rng=None):
        return np.ones(grid.shape.as_tuple + (1,), dtype=bool)

    state = State(
        random_grid(rng, 3, 3), Agent(Position(1, 1), Orientation.R)
    )
    snap = snapshot(state)
    for bad in [transposed, too_small, flat, three_dimensional]:
        _, error = run(
            ofs.from_visibility,
            state,
            area=Area((-2, 0), (-1, 2)),
            visibility_function=bad,
        )
        check(error is ValueError, f'{bad.__name__}: raised {error}')
        check(unchanged(state, snap), f'{bad.__name__}: state was modified')

    # square view: the transposed mask has the right shape, and is accepted
    observation = ofs.from_visibility(
        state, area=Area((-1, 1), (-1, 1)), visibility_function=transposed
    )
    check_sound(
        state, Area((-1, 1), (-1, 1)), observation, 'transposed square', transparent=True
    )


# ---------------------------------------------------------------- hard-coded


def hard_coded():
    # world (3 rows x 4 columns), letters name the objects
    #   a b c d
    #   e f g h
    #   i j k l
    names = 'abcdefghijkl'
    objs = {
        'a': Wall(),
        'b': Floor(),
        'c': Key(Color.RED),
        'd': Wall(),
        'e': Floor(),
        'f': Floor(),
        'g': Door(Door.Status.CLOSED, Color.NONE),
        'h': Exit(),
        'i': Box(Floor()),
        'j': Floor(),
        'k': Beacon(Color.BLUE),
        'l': Telepod(Color.NONE),
    }
    grid = Grid([[objs[n] for n in names[r * 4 : r * 4 + 4]] for r in range(3)])
    area = Area((-2, 0), (-1, 2))  # 3 rows, 4 columns, agent at (2, 1)

    expectations = {
        # agent on g = (1, 2)
        #   rows are y = -1, 0, 1 ; columns are x = 1, 2, 3, 4
        (1, 2, Orientation.F): ['....', 'bcd.', 'fgh.'],
        #   rows are y = 3, 2, 1 ; columns are x = 3, 2, 1, 0
        (1, 2, Orientation.B): ['....', 'lkji', 'hgfe'],
        # facing right from g: forward is +x, view-right is +y
        #   rows are x = 4, 3, 2 ; columns are y = 0, 1, 2, 3
        (1, 2, Orientation.R): ['....', 'dhl.', 'cgk.'],
        # facing left from g: forward is -x, view-right is -y
        #   rows are x = 0, 1, 2 ; columns are y = 2, 1, 0, -1
        (1, 2, Orientation.L): ['iea.', 'jfb.', 'kgc.'],
        # agent in the corner a = (0, 0)
        (0, 0, Orientation.F): ['....', '....', '.abc'],
        (0, 0, Orientation.B): ['ji..', 'fe..', 'ba..'],
        #   rows are x = 2, 1, 0 ; columns are y = -1, 0, 1, 2
        (0, 0, Orientation.R): ['.cgk', '.bfj', '.aei'],
        #   rows are x = -2, -1, 0 ; columns are y = 1, 0, -1, -2
        (0, 0, Orientation.L): ['....', '....', 'ea..'],
    }

    for (y, x, orientation), layout in expectations.items():
        state = State(grid, Agent(Position(y, x), orientation, objs['c']))
        observation = ofs.fully_transparent(state, area=area)
        label = f'hard-coded {y},{x} {orientation.name}'
        check(observation.grid.shape.as_tuple == (3, 4), f'{label}: shape')
        for i, line in enumerate(layout):
            for j, name in enumerate(line):
                shown = observation.grid.objects[i][j]
                if name == '.':
                    check(type(shown) is Hidden, f'{label}: cell {i},{j}')
                else:
                    check(shown is objs[name], f'{label}: cell {i},{j}')
        check(observation.agent.position == Position(2, 1), f'{label}: anchor')
        check(observation.agent.orientation is Orientation.F, f'{label}: F')
        check(observation.agent.grid_object is objs['c'], f'{label}: held')

    # an explicit mask, agent on g facing forward
    def mask(grid, position, *, rng=None):
        return np.array(
            [
                [1, 1, 1, 1],
                [0, 1, 0, 1],
                [1, 0, 1, 0],
            ],
            dtype=bool,
        )

    state = State(grid, Agent(Position(1, 2), Orientation.F))
    observation = ofs.from_visibility(
        state, area=area, visibility_function=mask
    )
    for i, line in enumerate(['....', '.c..', 'f.h.']):
        for j, name in enumerate(line):
            shown = observation.grid.objects[i][j]
            if name == '.':
                check(type(shown) is Hidden, f'mask: cell {i},{j}')
            else:
                check(shown is objs[name], f'mask: cell {i},{j}')
    check(
        type(observation.agent.grid_object) is NoneGridObject,
        'mask: no held item',
    )


def main():
    hard_coded()
    n_obs, n_raise = builtin_scenarios()
    check(n_obs > 3000, f'too few observations exercised ({n_obs})')
    default_rng_scenarios()
    custom_visibility_scenarios()
    print(
        f'OK: {CHECKS} checks, {n_obs} built-in observations, '
        f'{n_raise} documented refusals'
    )


if __name__ == '__main__':
    main()
