"""Demo for change B: `envs.utils.object_at` used by the transition, reward and
terminating functions which look at the cell in front of / next to the agent.

Runs (and exits 0) on the pristine tree and with the patch applied.  It embeds
reference implementations of every switched-over function, spelled exactly like
the pristine code, and compares them exhaustively on small grids (every agent
position, heading, action, neighbouring object type and held item), with
hard-coded expectations for the off-grid cases (no wrap-around indexing).
"""
import itertools as itt
import sys
from functools import partial

import numpy as np
import numpy.random as rnd

sys.path.insert(0, '.')

from gym_gridverse import rng as gv_rng  # noqa: E402
from gym_gridverse.action import Action  # noqa: E402
from gym_gridverse.agent import Agent  # noqa: E402
from gym_gridverse.envs import observation_functions as ofs  # noqa: E402
from gym_gridverse.envs import reward_functions as rfs  # noqa: E402
from gym_gridverse.envs import terminating_functions as tfs  # noqa: E402
from gym_gridverse.envs import transition_functions as trs  # noqa: E402
from gym_gridverse.envs import visibility_functions as vfs  # noqa: E402
from gym_gridverse.envs.utils import get_next_position  # noqa: E402
from gym_gridverse.envs.gridworld import GridWorld  # noqa: E402
from gym_gridverse.geometry import (  # noqa: E402
    Area,
    Orientation,
    Position,
    Shape,
    get_manhattan_boundary,
)
from gym_gridverse.grid import Grid  # noqa: E402
from gym_gridverse.grid_object import (  # noqa: E402
    Box,
    Color,
    Door,
    Beacon,
    Exit,
    Floor,
    Key,
    MovingObstacle,
    NoneGridObject,
    Telepod,
    Wall,
)
from gym_gridverse.spaces import (  # noqa: E402
    ActionSpace,
    ObservationSpace,
    StateSpace,
)
from gym_gridverse.state import State  # noqa: E402
from gym_gridverse.utils.fast_copy import fast_copy  # noqa: E402

ACTIONS = list(Action)
ORIENTATIONS = [Orientation.F, Orientation.R, Orientation.B, Orientation.L]
checks = 0


def check(condition, message):
    global checks
    checks += 1
    if not condition:
        print('FAIL:', message)
        sys.exit(1)


# -- reference implementations (pristine spelling) ---------------------------


def ref_move_agent(state, action, *, rng=None):
    if not action.is_move():
        return
    next_position = get_next_position(
        state.agent.position, state.agent.orientation, action
    )
    if not state.grid.area.contains(next_position):
        return
    obj = state.grid[next_position]
    if not obj.blocks_movement:
        state.agent.position = next_position


def ref_pickndrop(state, action, *, rng=None):
    if action is not Action.PICK_N_DROP:
        return
    position_front = state.agent.front()
    if not state.grid.area.contains(position_front):
        return
    obj_front = state.grid[position_front]
    can_be_dropped = isinstance(obj_front, Floor) or obj_front.holdable
    if not can_be_dropped:
        return
    state.grid[position_front] = (
        state.agent.grid_object
        if not isinstance(state.agent.grid_object, NoneGridObject)
        and can_be_dropped
        else Floor()
    )
    state.agent.grid_object = (
        obj_front if obj_front.holdable else NoneGridObject()
    )


def ref_actuate_door(state, action, *, rng=None):
    if action is not Action.ACTUATE:
        return
    position = state.agent.front()
    if not state.grid.area.contains(position):
        return
    door = state.grid[position]
    if not isinstance(door, Door):
        return
    if door.is_open:
        pass
    elif not door.is_locked:
        door.state = Door.Status.OPEN
    else:
        if (
            isinstance(state.agent.grid_object, Key)
            and state.agent.grid_object.color == door.color
        ):
            door.state = Door.Status.OPEN


def ref_actuate_box(state, action, *, rng=None):
    if action is not Action.ACTUATE:
        return
    position = state.agent.front()
    if not state.grid.area.contains(position):
        return
    box = state.grid[position]
    if isinstance(box, Box):
        state.grid[position] = box.content


def ref_reward_bump_into_wall(state, action, next_state, *, reward=-1.0, rng=None):
    next_position = get_next_position(
        state.agent.position, state.agent.orientation, action
    )
    return (
        reward
        if state.grid.area.contains(next_position)
        and isinstance(state.grid[next_position], Wall)
        else 0.0
    )


def ref_reward_actuate_door(
    state, action, next_state, *, reward_open=1.0, reward_close=-1.0, rng=None
):
    if action is not Action.ACTUATE:
        return 0.0
    position = state.agent.front()
    if not state.grid.area.contains(position):
        return 0.0
    door = state.grid[position]
    if not isinstance(door, Door):
        return 0.0
    next_door = next_state.grid[position]
    if not isinstance(next_door, Door):
        return 0.0
    return (
        reward_open
        if not door.is_open and next_door.is_open
        else reward_close
        if door.is_open and not next_door.is_open
        else 0.0
    )


def ref_terminating_bump_into_wall(state, action, next_state, *, rng=None):
    next_position = get_next_position(
        state.agent.position, state.agent.orientation, action
    )
    return state.grid.area.contains(next_position) and isinstance(
        state.grid[next_position], Wall
    )


# -- helpers ------------------------------------------------------------------


def rng_state(rng):
    return repr(rng.bit_generator.state)


def mutable_ids(state):
    """ids of every mutable component reachable from a state"""
    ids = {id(state.grid), id(state.grid.objects), id(state.agent)}
    ids.add(id(state.agent.transform))

    def add_object(obj):
        ids.add(id(obj))
        if isinstance(obj, Box):
            add_object(obj.content)

    for row in state.grid.objects:
        ids.add(id(row))
        for obj in row:
            add_object(obj)
    add_object(state.agent.grid_object)
    return ids


def snapshot(state):
    return fast_copy(state), hash(state), repr(state)


def check_unchanged(state, snap, message):
    copy, h, r = snap
    check(state == copy, f'{message}: state was modified')
    check(hash(state) == h, f'{message}: hash changed')
    check(repr(state) == r, f'{message}: repr changed')


def make_state(height, width, cells, agent_yx, orientation, held=None):
    grid = Grid.from_shape((height, width))
    for (y, x), factory in cells.items():
        grid[y, x] = factory()
    return State(grid, Agent(Position(*agent_yx), orientation, held))


def random_state(gen, height, width):
    """random grid densely filled with obstacles, walls, telepods, ..."""
    factories = [
        Floor,
        Floor,
        Floor,
        MovingObstacle,
        MovingObstacle,
        Wall,
        partial(Telepod, Color.RED),
        partial(Telepod, Color.BLUE),
        partial(Telepod, Color.NONE),
        partial(Key, Color.GREEN),
        partial(Door, Door.Status.LOCKED, Color.GREEN),
        lambda: Box(Box(Key(Color.YELLOW))),
        Exit,
    ]
    grid = Grid.from_shape((height, width))
    for position in grid.area.positions():
        grid[position] = factories[gen.integers(len(factories))]()
    agent_position = Position(gen.integers(height), gen.integers(width))
    # the agent frequently stands on a telepod
    if gen.random() < 0.5:
        grid[agent_position] = Telepod(
            [Color.RED, Color.BLUE, Color.NONE][gen.integers(3)]
        )
    held = [None, Key(Color.RED), Box(Floor())][gen.integers(3)]
    orientation = ORIENTATIONS[gen.integers(4)]
    return State(grid, Agent(agent_position, orientation, held))


def handcrafted_states():
    O, W = MovingObstacle, Wall
    red, blue, none = (
        partial(Telepod, Color.RED),
        partial(Telepod, Color.BLUE),
        partial(Telepod, Color.NONE),
    )
    yield 'obstacles in all corners, 3x5', make_state(
        3, 5, {(0, 0): O, (0, 4): O, (2, 0): O, (2, 4): O}, (1, 2), Orientation.F
    )
    yield 'boxed-in obstacle (no draw)', make_state(
        3, 3, {(0, 1): W, (1, 0): W, (1, 2): W, (2, 1): W, (1, 1): O}, (0, 0), Orientation.R
    )
    yield 'grid full of obstacles (no draw at all)', make_state(
        2, 3, {(y, x): O for y in range(2) for x in range(3)}, (0, 0), Orientation.B
    )
    yield '1x1 obstacle', make_state(1, 1, {(0, 0): O}, (0, 0), Orientation.L)
    yield '1x4 corridor', make_state(1, 4, {(0, 0): O, (0, 2): O}, (0, 3), Orientation.L)
    yield '5x1 corridor', make_state(5, 1, {(4, 0): O, (1, 0): O}, (0, 0), Orientation.B)
    yield 'adjacent obstacles, 4x2', make_state(
        4, 2, {(0, 0): O, (0, 1): O, (1, 0): O}, (3, 1), Orientation.F
    )
    yield 'single telepod (no draw)', make_state(
        3, 4, {(0, 0): red}, (0, 0), Orientation.F
    )
    yield 'telepod pair in opposite corners', make_state(
        3, 4, {(0, 0): red, (2, 3): red}, (2, 3), Orientation.R
    )
    yield 'telepod, other colours only (no draw)', make_state(
        3, 4, {(0, 0): red, (2, 3): blue, (1, 1): none}, (0, 0), Orientation.R
    )
    yield 'colour NONE telepods, three candidates', make_state(
        2, 5, {(0, 0): none, (0, 4): none, (1, 0): none, (1, 4): none, (1, 2): red},
        (1, 4), Orientation.B, Key(Color.NONE),
    )
    yield 'agent not on telepod', make_state(
        3, 3, {(0, 0): red, (2, 2): red}, (1, 1), Orientation.L
    )
    yield 'telepods and obstacles together', make_state(
        4, 6, {(0, 0): blue, (3, 5): blue, (0, 5): blue, (1, 1): O, (3, 0): O, (2, 4): O},
        (0, 5), Orientation.F, Box(Key(Color.BLUE)),
    )


def all_states():
    yield from handcrafted_states()
    gen = rnd.default_rng(20210327)
    shapes = [(1, 1), (1, 5), (6, 1), (2, 2), (3, 7), (7, 3), (5, 5), (4, 9)]
    for height, width in shapes:
        for k in range(12):
            yield f'random {height}x{width} #{k}', random_state(gen, height, width)


# -- 1. exhaustive comparison with the reference -----------------------------

OBJECT_FACTORIES = [
    Floor,
    Wall,
    Exit,
    MovingObstacle,
    partial(Door, Door.Status.OPEN, Color.RED),
    partial(Door, Door.Status.CLOSED, Color.RED),
    partial(Door, Door.Status.LOCKED, Color.RED),
    partial(Door, Door.Status.LOCKED, Color.NONE),
    partial(Key, Color.RED),
    partial(Key, Color.NONE),
    lambda: Box(Floor()),
    lambda: Box(Box(Key(Color.RED))),
    lambda: Box(Wall()),
    partial(Telepod, Color.BLUE),
    partial(Beacon, Color.GREEN),
]
HELD_FACTORIES = [
    lambda: None,
    partial(Key, Color.RED),
    partial(Key, Color.NONE),
    lambda: Box(Key(Color.RED)),
]
SMALL_SHAPES = [(1, 1), (1, 4), (3, 1), (2, 3), (4, 3)]

def pairs():
    transitions = [
        ('move_agent', trs.move_agent, ref_move_agent),
        ('pickndrop', trs.pickndrop, ref_pickndrop),
        ('actuate_door', trs.actuate_door, ref_actuate_door),
        ('actuate_box', trs.actuate_box, ref_actuate_box),
    ]
    rewards = [
        ('r.bump_into_wall', rfs.bump_into_wall, ref_reward_bump_into_wall),
        (
            'r.bump_into_wall(2.5)',
            partial(rfs.bump_into_wall, reward=2.5),
            partial(ref_reward_bump_into_wall, reward=2.5),
        ),
        ('r.actuate_door', rfs.actuate_door, ref_reward_actuate_door),
        (
            'r.actuate_door(3,-7)',
            partial(rfs.actuate_door, reward_open=3.0, reward_close=-7.0),
            partial(ref_reward_actuate_door, reward_open=3.0, reward_close=-7.0),
        ),
    ]
    terminatings = [
        ('t.bump_into_wall', tfs.bump_into_wall, ref_terminating_bump_into_wall),
    ]
    return transitions, rewards, terminatings


def compare_with_reference(name, state, next_states=()):
    transitions, rewards, terminatings = pairs()
    snap = snapshot(state)
    for action in ACTIONS:
        results = []
        for fname, function, reference in transitions:
            message = f'{fname} / {name} / {action}'
            s, r = fast_copy(state), fast_copy(state)
            check(function(s, action) is None, f'{message}: returns None')
            reference(r, action)
            check(s == r and hash(s) == hash(r), f'{message}: differs from reference')
            check(repr(s) == repr(r), f'{message}: repr differs from reference')
            check(
                s.grid.shape == state.grid.shape, f'{message}: grid shape changed'
            )
            results.append(s)
            # applying it twice
            function(s, action)
            reference(r, action)
            check(s == r, f'{message}: second application differs')

        candidates = []
        for next_state in itt.chain([fast_copy(state)], results, next_states):
            if next_state.grid.shape == state.grid.shape and not any(
                next_state == candidate for candidate in candidates
            ):
                candidates.append(next_state)

        for next_state in candidates:
            next_snap = snapshot(next_state)
            for fname, function, reference in rewards + terminatings:
                message = f'{fname} / {name} / {action}'
                value = function(state, action, next_state)
                expected = reference(state, action, next_state)
                check(value == expected, f'{message}: {value} != {expected}')
                check(type(value) is type(expected), f'{message}: type differs')
            message = f'rewards and terminations / {name} / {action}'
            check_unchanged(state, snap, message)
            check_unchanged(next_state, next_snap, f'{message} (next state)')


def exhaustive_states():
    for height, width in SMALL_SHAPES:
        for y, x in itt.product(range(height), range(width)):
            for orientation in ORIENTATIONS:
                for fi, factory in enumerate(OBJECT_FACTORIES):
                    held = HELD_FACTORIES[(fi + y + x) % len(HELD_FACTORIES)]()
                    cells = {
                        (yy, xx): factory
                        for yy, xx in itt.product(range(height), range(width))
                        if (yy, xx) != (y, x)
                    }
                    yield (
                        f'{height}x{width} agent ({y},{x}) {orientation.name} '
                        f'object #{fi} held {held!r}',
                        make_state(height, width, cells, (y, x), orientation, held),
                    )


def hardcoded_expectations():
    """off-grid answers: nothing happens, no wrap-around to the far border"""
    corners = {
        (0, 0): (Orientation.F, Orientation.L),
        (0, 3): (Orientation.F, Orientation.R),
        (2, 0): (Orientation.B, Orientation.L),
        (2, 3): (Orientation.B, Orientation.R),
    }
    walls = {(y, x): Wall for y in range(3) for x in range(4)}
    doors = {
        (y, x): partial(Door, Door.Status.CLOSED, Color.RED)
        for y in range(3)
        for x in range(4)
    }
    boxes = {(y, x): (lambda: Box(Key(Color.RED))) for y in range(3) for x in range(4)}
    keys = {(y, x): partial(Key, Color.RED) for y in range(3) for x in range(4)}
    for (y, x), orientations in corners.items():
        for orientation in orientations:
            message = f'corner ({y},{x}) facing {orientation.name}'
            # the far border (where python's negative indices would land) is
            # full of walls / doors / boxes / keys; the agent faces off-grid
            state = make_state(3, 4, walls, (y, x), orientation, Key(Color.RED))
            check(
                tfs.bump_into_wall(state, Action.MOVE_FORWARD, state) is False,
                f'{message}: terminates bumping off-grid',
            )
            check(
                rfs.bump_into_wall(state, Action.MOVE_FORWARD, state) == 0.0,
                f'{message}: reward bumping off-grid',
            )
            check(
                tfs.bump_into_wall(state, Action.MOVE_BACKWARD, state) is True,
                f'{message}: does not terminate bumping into wall behind',
            )
            check(
                rfs.bump_into_wall(state, Action.MOVE_BACKWARD, state, reward=-3.0)
                == -3.0,
                f'{message}: no reward bumping into wall behind',
            )
            for cells, function, action in [
                (walls, trs.move_agent, Action.MOVE_FORWARD),
                (doors, trs.actuate_door, Action.ACTUATE),
                (boxes, trs.actuate_box, Action.ACTUATE),
                (keys, trs.pickndrop, Action.PICK_N_DROP),
            ]:
                state = make_state(3, 4, cells, (y, x), orientation, Key(Color.RED))
                expected = fast_copy(state)
                function(state, action)
                check(state == expected, f'{message}: {function.__name__} off-grid acted')
            state = make_state(3, 4, doors, (y, x), orientation)
            opened = make_state(
                3, 4,
                {k: partial(Door, Door.Status.OPEN, Color.RED) for k in doors},
                (y, x), orientation,
            )
            check(
                rfs.actuate_door(state, Action.ACTUATE, opened) == 0.0,
                f'{message}: actuate_door reward off-grid',
            )
            # ... whereas facing into the grid everything acts
            inward = orientation * Orientation.B
            state = make_state(3, 4, doors, (y, x), inward)
            opened_inward = State(opened.grid, state.agent)
            check(
                rfs.actuate_door(state, Action.ACTUATE, opened) == 1.0
                and rfs.actuate_door(opened_inward, Action.ACTUATE, state) == -1.0,
                f'{message}: actuate_door reward inward',
            )
            trs.actuate_door(state, Action.ACTUATE)
            check(
                state.grid[state.agent.front()].is_open,
                f'{message}: door inward not opened',
            )
            state = make_state(3, 4, {}, (y, x), inward)
            front = state.agent.front()
            trs.move_agent(state, Action.MOVE_FORWARD)
            check(state.agent.position == front, f'{message}: no move inward')
            state = make_state(3, 4, keys, (y, x), inward, Key(Color.BLUE))
            trs.pickndrop(state, Action.PICK_N_DROP)
            check(
                state.agent.grid_object == Key(Color.RED)
                and state.grid[front] == Key(Color.BLUE),
                f'{message}: no swap inward',
            )
            state = make_state(3, 4, boxes, (y, x), inward)
            trs.actuate_box(state, Action.ACTUATE)
            check(state.grid[front] == Key(Color.RED), f'{message}: box inward')


# -- 2. property through the functional interface ----------------------------


def make_env(shape, observation_shape, visibility):
    object_types = [
        Floor, Wall, Exit, Door, Key, MovingObstacle, Box, Telepod,
    ]
    colors = list(Color)
    state_space = StateSpace(shape, object_types, colors)
    action_space = ActionSpace(ACTIONS)
    observation_space = ObservationSpace(observation_shape, object_types, colors)

    transition = partial(
        trs.chain,
        transition_functions=[
            trs.turn_agent,
            trs.move_agent,
            trs.teleport,
            trs.actuate_door,
            trs.actuate_box,
            trs.pickndrop,
            trs.move_obstacles,
        ],
    )
    observation = partial(
        ofs.from_visibility,
        area=observation_space.area,
        visibility_function=visibility,
    )
    reward = partial(
        rfs.reduce_sum,
        reward_functions=[
            partial(rfs.living_reward, reward=-0.25),
            rfs.reach_exit,
            rfs.bump_moving_obstacle,
            rfs.bump_into_wall,
            rfs.actuate_door,
            partial(rfs.pickndrop, object_type=Key),
        ],
    )
    termination = partial(
        tfs.reduce_any,
        terminating_functions=[
            tfs.reach_exit,
            tfs.bump_moving_obstacle,
            tfs.bump_into_wall,
        ],
    )

    def reset(*, rng=None):
        return make_state(shape.height, shape.width, {}, (0, 0), Orientation.F)

    return GridWorld(
        state_space,
        action_space,
        observation_space,
        reset,
        transition,
        observation,
        reward,
        termination,
    )


def check_functional_interface(name, state, other_states):
    shape = state.grid.shape
    env = make_env(shape, Shape(3, 5), vfs.partially_occluded)
    env_twin = make_env(shape, Shape(3, 5), vfs.partially_occluded)
    env_other = make_env(Shape(4, 6), Shape(5, 3), vfs.fully_transparent)

    # a copy equals and hashes like the original
    copy = fast_copy(state)
    check(copy == state and hash(copy) == hash(state), f'{name}: copy equals/hashes')
    check(not (mutable_ids(copy) & mutable_ids(state)), f'{name}: copy aliases')

    for action in ACTIONS:
        message = f'{name} / {action}'
        snap = snapshot(state)

        env.set_seed(11)
        next_state, reward, terminal = env.functional_step(state, action)
        check_unchanged(state, snap, f'{message}: functional_step')
        check(
            not (mutable_ids(state) & mutable_ids(next_state)),
            f'{message}: next state aliases its input',
        )
        check(isinstance(reward, float), f'{message}: reward type')
        check(isinstance(terminal, (bool, np.bool_)), f'{message}: terminal type')

        # same answer from a reference transition with the same stream
        expected = fast_copy(state)
        rng = rnd.default_rng(11)
        for function in (
            trs.turn_agent,
            ref_move_agent,
            trs.teleport,
            ref_actuate_door,
            ref_actuate_box,
            ref_pickndrop,
            trs.move_obstacles,
        ):
            function(expected, action, rng=rng)
        check(next_state == expected, f'{message}: differs from reference chain')
        check(hash(next_state) == hash(expected), f'{message}: hash differs')
        expected_reward = -0.25 + sum(
            function(state, action, expected)
            for function in (
                rfs.reach_exit,
                rfs.bump_moving_obstacle,
                ref_reward_bump_into_wall,
                ref_reward_actuate_door,
                partial(rfs.pickndrop, object_type=Key),
            )
        )
        expected_terminal = any(
            function(state, action, expected)
            for function in (
                tfs.reach_exit,
                tfs.bump_moving_obstacle,
                ref_terminating_bump_into_wall,
            )
        )
        check(reward == expected_reward, f'{message}: reward differs from reference')
        check(terminal == expected_terminal, f'{message}: terminal differs')
        check(
            rng_state(env._rng) == rng_state(rng),
            f'{message}: env generator advanced differently',
        )

        observation = env.functional_observation(state)
        check_unchanged(state, snap, f'{message}: functional_observation')

        # mutating the next state afterwards leaves the input alone (and v.v.)
        next_state.grid[0, 0] = Wall()
        next_state.agent.orientation = next_state.agent.orientation * Orientation.R
        next_state.agent.grid_object = Key(Color.YELLOW)
        check_unchanged(state, snap, f'{message}: mutation of next state')

        # intervening calls on this and other environments (cache histories)
        env_other.set_seed(3)
        for other, other_action in zip(other_states, itt.cycle(ACTIONS)):
            other_env = make_env(other.grid.shape, Shape(3, 5), vfs.raytracing)
            other_env.set_seed(5)
            other_env.functional_step(other, other_action)
            other_env.functional_observation(other)
        s = env_other.functional_reset()
        for other_action in ACTIONS:
            s, _, _ = env_other.functional_step(s, other_action)
            env_other.functional_observation(s)
        env.functional_step(state, ACTIONS[(ACTIONS.index(action) + 1) % len(ACTIONS)])
        gv_rng.reset_gv_rng(99)

        # asking again, after re-seeding, gives an equal answer
        env.set_seed(11)
        again = env.functional_step(state, action)
        check(again[0] == expected, f'{message}: repeated step differs')
        check(again[1] == reward and again[2] == terminal, f'{message}: repeated r/t')
        check(hash(again[0]) == hash(expected), f'{message}: repeated hash differs')
        check(
            env.functional_observation(state) == observation,
            f'{message}: repeated observation differs',
        )
        env_twin.set_seed(11)
        twin = env_twin.functional_step(fast_copy(state), action)
        check(twin[0] == expected and twin[1:] == again[1:], f'{message}: twin env differs')
        check_unchanged(state, snap, f'{message}: after everything')


def main():
    hardcoded_expectations()

    count = 0
    for name, state in exhaustive_states():
        compare_with_reference(name, state)
        count += 1

    states = list(all_states())
    for name, state in states:
        others = [
            other for _, other in states if other.grid.shape == state.grid.shape
        ][:3]
        compare_with_reference(name, state, others)

    others = [state for _, state in states[:4]]
    for name, state in states[:13] + states[13::5]:
        check_functional_interface(name, state, others)

    print(f'demo B: OK ({checks} checks, {count + len(states)} states)')


if __name__ == '__main__':
    main()
