"""C16 demo (change B): numeric representations are faithful.

Run from the worktree root:  /venv/bin/python _seed/B/demo.py

Checks, against a reference implementation embedded below (written from the
documentation of the three encodings, not from the library code):

* per-object encodings of the `default`, `no-overlap` and `compact`
  representations, exhaustively over all objects of many spaces
  (type subsets x colour subsets), for states and for observations;
* the bounds of the advertised spaces;
* channel separation (no-overlap, compact) and gap-freeness (compact);
* positional faithfulness of the `grid`, `agent_id_grid`, `item` and `agent`
  entries on many states/observations (non-square grids, agent in corners
  and on borders, all headings, colour NONE, held items);
* equal representation <=> equal state/observation, equal ones hash alike;
* repeated calls, fresh arrays, several representations alive at once;
* the two factories `make_state_representation` and
  `make_observation_representation`: which classes each name selects, the
  fields and their order, independence of the returned objects, and the
  errors raised for unknown names (including names which are not strings or
  not hashable) and for state spaces which cannot be represented.

Exits 0 when everything holds.
"""
import copy
import itertools as itt
import os
import sys

import numpy as np

# the script lives in _seed/B: import the package of the worktree (the cwd)
sys.path.insert(0, os.getcwd())

from gym_gridverse.agent import Agent
from gym_gridverse.envs import observation_functions as obs_fs
from gym_gridverse.envs import reset_functions as reset_fs
from gym_gridverse.geometry import Orientation, Position, Shape
from gym_gridverse.grid import Grid
from gym_gridverse.grid_object import (
    Beacon,
    Box,
    Color,
    Door,
    Exit,
    Floor,
    GridObject,
    Hidden,
    Key,
    MovingObstacle,
    NoneGridObject,
    Telepod,
    Wall,
)
from gym_gridverse.observation import Observation
from gym_gridverse.representations import observation_representations as obs_reps
from gym_gridverse.representations import state_representations as state_reps
from gym_gridverse.representations.observation_representations import (
    make_observation_representation,
)
from gym_gridverse.representations.spaces import SpaceType
from gym_gridverse.representations.state_representations import (
    make_state_representation,
)
from gym_gridverse.rng import make_rng
from gym_gridverse.spaces import ObservationSpace, StateSpace
from gym_gridverse.state import State

NAMES = ('default', 'no-overlap', 'compact')
CHECKS = 0


def check(condition, *context):
    global CHECKS
    CHECKS += 1
    if not condition:
        print('FAILED:', *context)
        sys.exit(1)


# hard-coded facts about the library's built-in objects

TYPE_INDEX = {
    NoneGridObject: 0,
    Hidden: 1,
    Floor: 2,
    Wall: 3,
    Exit: 4,
    Door: 5,
    Key: 6,
    MovingObstacle: 7,
    Box: 8,
    Telepod: 9,
    Beacon: 10,
}
NUM_STATES = {t: 1 for t in TYPE_INDEX}
NUM_STATES[Door] = 3
COLOR_VALUE = {
    Color.NONE: 0,
    Color.RED: 1,
    Color.GREEN: 2,
    Color.BLUE: 3,
    Color.YELLOW: 4,
}

for t, i in TYPE_INDEX.items():
    check(t.type_index() == i, 'type index', t)
    check(t.num_states() == NUM_STATES[t], 'num states', t)
for c, v in COLOR_VALUE.items():
    check(c.value == v, 'colour value', c)


def objects_of_type(object_type, colors):
    """every object of the type, with the given colours"""
    if object_type in (NoneGridObject, Hidden, Floor, Wall, MovingObstacle):
        return [object_type()]
    if object_type is Box:
        return [Box(Floor())]
    if object_type is Door:
        return [
            Door(status, color)
            for status in Door.Status
            for color in sorted(colors, key=lambda c: c.value)
        ]
    return [object_type(color) for color in sorted(colors, key=lambda c: c.value)]


def triple(obj):
    t = type(obj)
    status = obj.state.value if t is Door else 0
    return TYPE_INDEX[t], status, COLOR_VALUE[obj.color]


# reference encodings; `types` includes the implicit NoneGridObject / Hidden


def ref_default(types, colors):
    upper = (
        max(TYPE_INDEX[t] for t in types),
        max(NUM_STATES[t] for t in types),
        max(COLOR_VALUE[c] for c in colors),
    )
    return upper, (lambda obj: triple(obj))


def ref_no_overlap(types, colors):
    mt = max(TYPE_INDEX[t] for t in types)
    ms = max(NUM_STATES[t] for t in types)
    mc = max(COLOR_VALUE[c] for c in colors)
    upper = (mt, mt + ms + 1, mt + ms + mc + 2)

    def convert(obj):
        i, j, k = triple(obj)
        return i, mt + 1 + j, mt + ms + 2 + k

    return upper, convert


def ref_compact(types, colors):
    ordered_types = sorted(types, key=TYPE_INDEX.get)
    ordered_colors = sorted(colors, key=COLOR_VALUE.get)
    counter = itt.count()
    type_code = {t: next(counter) for t in ordered_types}
    status_code = {
        (t, j): next(counter)
        for t in ordered_types
        for j in range(NUM_STATES[t])
    }
    color_code = {c: next(counter) for c in ordered_colors}
    upper = (
        max(type_code.values()),
        max(status_code.values()),
        max(color_code.values()),
    )

    def convert(obj):
        _, j, _ = triple(obj)
        return type_code[type(obj)], status_code[type(obj), j], color_code[obj.color]

    return upper, convert


REFERENCES = {
    'default': ref_default,
    'no-overlap': ref_no_overlap,
    'compact': ref_compact,
}


def check_space(space, upper, context):
    check(space.space_type is SpaceType.CATEGORICAL, 'space type', context)
    check(space.lower_bound.tolist() == [0, 0, 0], 'lower', context)
    check(space.upper_bound.tolist() == list(upper), 'upper', context, space.upper_bound, upper)
    check(np.issubdtype(space.upper_bound.dtype, np.integer), 'dtype', context)


def check_channels(name, codes, context):
    """separation / compactness of the channel value sets"""
    channels = [set(code[i] for code in codes) for i in range(3)]
    if name in ('no-overlap', 'compact'):
        for a, b in itt.combinations(channels, 2):
            check(not (a & b), 'channels overlap', name, context)
        check(
            max(channels[0]) < min(channels[1])
            and max(channels[1]) < min(channels[2]),
            'channel ranges not ordered',
            name,
            context,
        )
    if name == 'compact':
        used = sorted(set().union(*channels))
        check(used == list(range(len(used))), 'gaps', context, used)


def as_key(representation):
    return tuple(
        (key, array.shape, str(array.dtype), array.tobytes())
        for key, array in sorted(representation.items())
    )


class Faithfulness:
    """equal representation <=> equal state, equal ones hash alike"""

    def __init__(self):
        self.by_key = {}
        self.by_item = {}

    def add(self, item, representation, context):
        key = as_key(representation)
        if key in self.by_key:
            other = self.by_key[key]
            check(other == item, 'equal representation, different items', context)
            check(hash(other) == hash(item), 'hash', context)
        else:
            self.by_key[key] = item
        if item in self.by_item:
            check(self.by_item[item] == key, 'equal items, different representations', context)
        else:
            self.by_item[item] = key


STATE_TYPE_SUBSETS = [
    [Floor],
    [Beacon],
    [Door],
    [Floor, Wall],
    [Wall, Floor, Exit],
    [Floor, Wall, Exit, Door, Key],
    [Key, Telepod, Floor],
    [MovingObstacle, Floor, Wall, Exit],
    [Floor, Wall, Exit, Door, Key, MovingObstacle, Telepod, Beacon],
]
OBSERVATION_TYPE_SUBSETS = STATE_TYPE_SUBSETS + [
    [Box],
    [Floor, Box, Wall],
    [Floor, Wall, Exit, Door, Key, MovingObstacle, Box, Telepod, Beacon],
]
COLOR_SUBSETS = [
    [],
    [Color.NONE],
    [Color.RED],
    [Color.YELLOW],
    [Color.BLUE, Color.GREEN],
    [Color.NONE, Color.RED, Color.GREEN, Color.BLUE, Color.YELLOW],
]
STATE_SHAPES = [Shape(2, 2), Shape(2, 5), Shape(4, 3), Shape(3, 3)]
OBSERVATION_SHAPES = [Shape(1, 1), Shape(1, 3), Shape(3, 1), Shape(2, 5), Shape(4, 3)]


def random_grid(rng, shape, cell_objects):
    return Grid(
        [
            [
                copy.deepcopy(cell_objects[rng.integers(len(cell_objects))])
                for _ in range(shape.width)
            ]
            for _ in range(shape.height)
        ]
    )


def border_positions(shape):
    """corners, border cells and the centre"""
    h, w = shape.height, shape.width
    ys = sorted({0, h // 2, h - 1})
    xs = sorted({0, w // 2, w - 1})
    return [Position(y, x) for y in ys for x in xs]


def check_dict_representation(kind, representation, space, item, refs, context):
    """positional faithfulness of one converted state / observation"""
    upper, convert = refs
    converted = representation.convert(item)
    again = representation.convert(item)
    expected_keys = (
        ['grid', 'agent_id_grid', 'agent', 'item']
        if kind == 'state'
        else ['grid', 'agent_id_grid', 'item']
    )
    check(list(converted) == expected_keys, 'keys', context)
    check(as_key(converted) == as_key(again), 'repeated call', context)
    spaces = representation.space
    check(list(spaces) == expected_keys, 'space keys', context)
    for key in expected_keys:
        check(spaces[key].contains(converted[key]), 'contains', key, context)
        check(converted[key] is not again[key], 'fresh arrays', key, context)

    h, w = item.grid.shape.height, item.grid.shape.width
    grid = converted['grid']
    check(grid.shape == (h, w, 3), 'grid shape', context)
    check(np.issubdtype(grid.dtype, np.integer), 'grid dtype', context)
    expected = [
        [list(convert(item.grid[y, x])) for x in range(w)] for y in range(h)
    ]
    check(grid.tolist() == expected, 'grid entries', context)
    check(spaces['grid'].upper_bound.shape == (h, w, 3), 'grid space', context)
    check(
        spaces['grid'].upper_bound.reshape(-1, 3).tolist() == [list(upper)] * (h * w),
        'grid space bounds',
        context,
    )
    check(not spaces['grid'].lower_bound.any(), 'grid space lower', context)

    marker = converted['agent_id_grid']
    check(marker.shape == (h, w), 'marker shape', context)
    expected_marker = [
        [int((y, x) == item.agent.position.yx) for x in range(w)]
        for y in range(h)
    ]
    check(marker.tolist() == expected_marker, 'marker', context)

    check(
        converted['item'].tolist() == list(convert(item.agent.grid_object)),
        'item',
        context,
    )
    check_space(spaces['item'], upper, context)

    if kind == 'state':
        y = (2 * item.agent.position.y - h + 1) / (h - 1)
        x = (2 * item.agent.position.x - w + 1) / (w - 1)
        one_hot = [0.0] * 4
        one_hot[item.agent.orientation.value] = 1.0
        check(converted['agent'].tolist() == [y, x] + one_hot, 'agent', context)
    return converted


def run_spaces(kind):
    rng = make_rng(20240916 if kind == 'state' else 20240917)
    type_subsets = STATE_TYPE_SUBSETS if kind == 'state' else OBSERVATION_TYPE_SUBSETS
    shapes = STATE_SHAPES if kind == 'state' else OBSERVATION_SHAPES
    implicit = [NoneGridObject] if kind == 'state' else [NoneGridObject, Hidden]

    # every representation is built first and kept alive, then used
    # interleaved: several environments in one process must not interfere
    jobs = []
    for n, (types, colors) in enumerate(itt.product(type_subsets, COLOR_SUBSETS)):
        shape = shapes[n % len(shapes)]
        space = (
            StateSpace(shape, types, colors)
            if kind == 'state'
            else ObservationSpace(shape, types, colors)
        )
        make = (
            make_state_representation
            if kind == 'state'
            else make_observation_representation
        )
        representations = {name: make(name, space) for name in NAMES}
        jobs.append((types, colors, shape, space, representations))

    for types, colors, shape, space, representations in jobs:
        all_colors = set(colors) | {Color.NONE}
        all_types = list(types) + implicit
        context = (kind, [t.__name__ for t in types], [c.name for c in colors], shape)

        cell_types = list(types) + ([Hidden] if kind == 'observation' else [])
        cell_objects = [
            obj for t in cell_types for obj in objects_of_type(t, all_colors)
        ]
        held_objects = [
            obj
            for t in list(types) + [NoneGridObject]
            for obj in objects_of_type(t, all_colors)
        ]
        all_objects = [
            obj for t in all_types for obj in objects_of_type(t, all_colors)
        ]

        refs = {
            name: REFERENCES[name](all_types, all_colors) for name in NAMES
        }

        # exhaustive per-object check, through the grid-object representation
        for name in NAMES:
            upper, convert = refs[name]
            gor = representations[name].representations['grid'].grid_object_representation
            check(
                gor is representations[name].representations['item'].grid_object_representation,
                'shared grid-object representation',
                context,
            )
            check_space(gor.space, upper, (name, context))
            codes = []
            for obj in all_objects:
                code = gor.convert(obj)
                check(code.shape == (3,), 'code shape', name, context)
                check(np.issubdtype(code.dtype, np.integer), 'code dtype', name, context)
                check(code.tolist() == list(convert(obj)), 'code', name, obj, context)
                check(gor.space.contains(code), 'code in space', name, obj, context)
                codes.append(tuple(code.tolist()))
            # lossless on objects
            for (a, ca), (b, cb) in itt.combinations(zip(all_objects, codes), 2):
                check((a == b) == (ca == cb), 'object iff', name, a, b, context)
            check_channels(name, codes, context)

        # states / observations of the space
        items = []
        orientations = list(Orientation) if kind == 'state' else [Orientation.F]
        for position in border_positions(shape):
            for orientation in orientations:
                grid = random_grid(rng, shape, cell_objects)
                held = copy.deepcopy(held_objects[rng.integers(len(held_objects))])
                agent = Agent(position, orientation, held)
                items.append((grid, agent))
        # near misses: same grid, one thing changed
        base_grid = random_grid(rng, shape, cell_objects)
        base_agent = Agent(Position(0, 0), orientations[0], NoneGridObject())
        items.append((base_grid, base_agent))
        items.append((copy.deepcopy(base_grid), copy.deepcopy(base_agent)))
        for position in base_grid.area.positions():
            items.append(
                (copy.deepcopy(base_grid), Agent(position, orientations[0], NoneGridObject()))
            )
            for obj in cell_objects:
                grid = copy.deepcopy(base_grid)
                grid[position] = copy.deepcopy(obj)
                items.append((grid, copy.deepcopy(base_agent)))
        for orientation in orientations:
            items.append(
                (copy.deepcopy(base_grid), Agent(Position(0, 0), orientation, NoneGridObject()))
            )
        for obj in held_objects:
            items.append(
                (copy.deepcopy(base_grid), Agent(Position(0, 0), orientations[0], copy.deepcopy(obj)))
            )

        faithfulness = {name: Faithfulness() for name in NAMES}
        for grid, agent in items:
            item = State(grid, agent) if kind == 'state' else Observation(grid, agent)
            check(space.contains(item), 'item not in space', context)
            for name in NAMES:
                converted = check_dict_representation(
                    kind, representations[name], space, item, refs[name], (name, context)
                )
                faithfulness[name].add(item, converted, (name, context))


def run_environment_states():
    """states and observations produced by the library itself"""
    colors = [Color.YELLOW]
    types = [Floor, Wall, Exit, Door, Key]
    for shape, obs_shape in [
        (Shape(5, 9), Shape(7, 7)),
        (Shape(9, 6), Shape(2, 9)),
        (Shape(4, 6), Shape(5, 3)),
    ]:
        state_space = StateSpace(shape, types, colors)
        observation_space = ObservationSpace(obs_shape, types, colors)
        state_reps = {n: make_state_representation(n, state_space) for n in NAMES}
        obs_reps = {
            n: make_observation_representation(n, observation_space) for n in NAMES
        }
        all_colors = {Color.NONE, Color.YELLOW}
        state_refs = {
            n: REFERENCES[n](types + [NoneGridObject], all_colors) for n in NAMES
        }
        obs_refs = {
            n: REFERENCES[n](types + [NoneGridObject, Hidden], all_colors)
            for n in NAMES
        }
        state_faith = {n: Faithfulness() for n in NAMES}
        obs_faith = {n: Faithfulness() for n in NAMES}
        # re-seeding: the same seed twice, then others
        for seed in [0, 0, 1, 2, 3, 4, 5]:
            rng = make_rng(seed)
            state = reset_fs.keydoor(shape, rng=rng)
            for orientation in Orientation:
                state.agent.orientation = orientation
                for held in [NoneGridObject(), Key(Color.YELLOW)]:
                    state.agent.grid_object = held
                    for observe in (
                        obs_fs.fully_transparent,
                        obs_fs.partially_occluded,
                        obs_fs.raytracing,
                    ):
                        observation = observe(
                            state, area=observation_space.area, rng=rng
                        )
                        check(observation_space.contains(observation), 'env obs')
                        for n in NAMES:
                            converted = check_dict_representation(
                                'observation', obs_reps[n], observation_space,
                                observation, obs_refs[n], ('env', n, shape),
                            )
                            obs_faith[n].add(observation, converted, ('env', n))
                    check(state_space.contains(state), 'env state')
                    frozen = copy.deepcopy(state)
                    for n in NAMES:
                        converted = check_dict_representation(
                            'state', state_reps[n], state_space, state,
                            state_refs[n], ('env', n, shape),
                        )
                        state_faith[n].add(frozen, converted, ('env', n))


GRID_OBJECT_CLASS_PREFIX = {
    'default': 'DefaultGridObject',
    'no-overlap': 'NoOverlapGridObject',
    'compact': 'CompactGridObject',
}

INVALID_NAMES = [
    '',
    ' ',
    'Default',
    'DEFAULT',
    'default ',
    ' default',
    'no_overlap',
    'nooverlap',
    'no-overlap\n',
    'compact-',
    'compac',
    'grid',
    'item',
    b'default',
    None,
    0,
    1.5,
    True,
    ('default',),
    frozenset(['default']),
    # not hashable
    ['default'],
    {'default'},
    {'default': 'default'},
]


def expect_value_error(function, message, context):
    try:
        function()
    except ValueError as error:
        check(str(error) == message, 'error message', context, str(error))
    except Exception as error:  # pylint: disable=broad-except
        check(False, 'wrong exception', context, repr(error))
    else:
        check(False, 'no exception', context)


def run_factories():
    state_space = StateSpace(Shape(3, 4), [Floor, Wall, Door, Key], [Color.RED])
    observation_space = ObservationSpace(
        Shape(3, 5), [Floor, Wall, Door, Key, Box], [Color.RED]
    )
    box_state_space = StateSpace(Shape(3, 4), [Floor, Box], [])

    for name in NAMES:
        # every spelling of the name which compares equal to it
        for spelling in (name, str(name.encode().decode()), np.str_(name), ''.join(list(name))):
            rep = make_state_representation(spelling, state_space)
            check(type(rep).__name__ == 'DictStateRepresentation', 'dict class', name)
            check(rep.state_space is state_space, 'space stored', name)
            fields = rep.representations
            check(
                list(fields) == ['grid', 'agent_id_grid', 'agent', 'item'],
                'fields',
                name,
            )
            check(
                [type(f).__name__ for f in fields.values()]
                == [
                    'GridStateRepresentation',
                    'AgentIDGridStateRepresentation',
                    'AgentStateRepresentation',
                    'ItemStateRepresentation',
                ],
                'field classes',
                name,
            )
            gor = fields['grid'].grid_object_representation
            check(
                type(gor).__name__
                == GRID_OBJECT_CLASS_PREFIX[name] + 'StateRepresentation',
                'grid-object class',
                name,
                type(gor).__name__,
            )
            check(type(gor) is getattr(state_reps, type(gor).__name__), 'class identity', name)
            check(fields['item'].grid_object_representation is gor, 'shared', name)
            check(gor.state_space is state_space, 'gor space', name)
            for field in fields.values():
                check(field.state_space is state_space, 'field space', name)

            rep = make_observation_representation(spelling, observation_space)
            check(
                type(rep).__name__ == 'DictObservationRepresentation',
                'dict class',
                name,
            )
            check(rep.observation_space is observation_space, 'space stored', name)
            fields = rep.representations
            check(list(fields) == ['grid', 'agent_id_grid', 'item'], 'fields', name)
            check(
                [type(f).__name__ for f in fields.values()]
                == [
                    'GridObservationRepresentation',
                    'AgentIDGridObservationRepresentation',
                    'ItemObservationRepresentation',
                ],
                'field classes',
                name,
            )
            gor = fields['grid'].grid_object_representation
            check(
                type(gor).__name__
                == GRID_OBJECT_CLASS_PREFIX[name] + 'ObservationRepresentation',
                'grid-object class',
                name,
                type(gor).__name__,
            )
            check(type(gor) is getattr(obs_reps, type(gor).__name__), 'class identity', name)
            check(fields['item'].grid_object_representation is gor, 'shared', name)
            check(gor.observation_space is observation_space, 'gor space', name)
            for field in fields.values():
                check(field.observation_space is observation_space, 'field space', name)

        # keyword arguments, and independence of the returned objects
        one = make_state_representation(name=name, state_space=state_space)
        two = make_state_representation(name=name, state_space=state_space)
        check(one is not two, 'independent', name)
        check(one.representations is not two.representations, 'independent', name)
        for key in one.representations:
            check(
                one.representations[key] is not two.representations[key],
                'independent fields',
                name,
                key,
            )
        one.representations.pop('agent')
        check(
            list(make_state_representation(name, state_space).representations)
            == ['grid', 'agent_id_grid', 'agent', 'item'],
            'fields after a caller edited an earlier result',
            name,
        )
        one = make_observation_representation(
            name=name, observation_space=observation_space
        )
        two = make_observation_representation(
            name=name, observation_space=observation_space
        )
        check(one.representations is not two.representations, 'independent', name)
        check(
            one.representations['grid'].grid_object_representation
            is not two.representations['grid'].grid_object_representation,
            'independent grid-object representations',
            name,
        )

        # a state space with objects which have hidden contents
        expect_value_error(
            lambda: make_state_representation(name, box_state_space),
            'state space contains objects which cannot be represented in state',
            ('box', name),
        )

    # hard-coded codes: the three names really select three encodings
    door = Door(Door.Status.CLOSED, Color.RED)
    state = State(
        Grid([[Floor(), Wall(), door, Key(Color.RED)]] * 3),
        Agent(Position(1, 3), Orientation.B, Key(Color.RED)),
    )
    expected_door = {
        'default': [5, 1, 1],
        'no-overlap': [5, 8, 12],
        'compact': [3, 9, 13],
    }
    expected_item = {
        'default': [6, 0, 1],
        'no-overlap': [6, 7, 12],
        'compact': [4, 11, 13],
    }
    for name in NAMES:
        converted = make_state_representation(name, state_space).convert(state)
        check(converted['grid'][2, 2].tolist() == expected_door[name], 'door', name, converted['grid'][2, 2])
        check(converted['item'].tolist() == expected_item[name], 'item', name, converted['item'])
        check(converted['agent'].tolist() == [0.0, 1.0, 0.0, 1.0, 0.0, 0.0], 'agent', name)
        check(converted['agent_id_grid'].tolist() == [[0, 0, 0, 0], [0, 0, 0, 1], [0, 0, 0, 0]], 'marker', name)

    for name in INVALID_NAMES:
        message = f'invalid name {name}'
        expect_value_error(
            lambda: make_state_representation(name, state_space), message, ('state', name)
        )
        expect_value_error(
            lambda: make_observation_representation(name, observation_space),
            message,
            ('observation', name),
        )
        # the name is looked at first
        expect_value_error(
            lambda: make_state_representation(name, box_state_space), message, ('box', name)
        )

    # the failed calls left nothing behind
    for name in NAMES:
        rep = make_state_representation(name, state_space)
        check(list(rep.representations) == ['grid', 'agent_id_grid', 'agent', 'item'], 'after errors', name)


if __name__ == '__main__':
    run_factories()
    run_spaces('state')
    run_spaces('observation')
    run_environment_states()
    run_factories()
    print(f'OK ({CHECKS} checks)')
