"""C15 at the gym layer: advertised gym spaces vs. numeric representations.

Run from the worktree root: /venv/bin/python _seed/A/demo.py

Independent of the patch: only the public surface of gym_gridverse.gym
(outer_space_to_gym_space, GymEnvironment, GymStateWrapper, env ids) is used,
and compared with a reference implementation embedded below.
"""
import itertools as itt
import os
import re
import sys
import warnings

warnings.filterwarnings('ignore')
sys.path.insert(0, os.getcwd())

import gym  # noqa: E402
import numpy as np  # noqa: E402

import gym_gridverse  # noqa: E402

assert os.path.dirname(os.path.abspath(gym_gridverse.__file__)) == os.path.join(
    os.getcwd(), 'gym_gridverse'
), gym_gridverse.__file__

from gym_gridverse import gym as gv_gym  # noqa: E402
from gym_gridverse.action import Action  # noqa: E402
from gym_gridverse.agent import Agent  # noqa: E402
from gym_gridverse.envs.gridworld import GridWorld  # noqa: E402
from gym_gridverse.envs.yaml.factory import factory_env_from_data  # noqa: E402
from gym_gridverse.geometry import Orientation, Position, Shape  # noqa: E402
from gym_gridverse.grid import Grid  # noqa: E402
from gym_gridverse.grid_object import (  # noqa: E402
    Beacon,
    Color,
    Door,
    Exit,
    Floor,
    Hidden,
    Key,
    MovingObstacle,
    NoneGridObject,
    Telepod,
    Wall,
)
from gym_gridverse.observation import Observation  # noqa: E402
from gym_gridverse.outer_env import OuterEnv  # noqa: E402
from gym_gridverse.representations.observation_representations import (  # noqa: E402
    make_observation_representation,
)
from gym_gridverse.representations.spaces import Space, SpaceType  # noqa: E402
from gym_gridverse.representations.state_representations import (  # noqa: E402
    make_state_representation,
)
from gym_gridverse.spaces import (  # noqa: E402
    ActionSpace,
    ObservationSpace,
    StateSpace,
)
from gym_gridverse.state import State  # noqa: E402

REPRESENTATIONS = ['default', 'no-overlap', 'compact']
N_CHECKS = 0


def check(condition, *what):
    global N_CHECKS
    N_CHECKS += 1
    if not condition:
        print('FAILED:', *what)
        sys.exit(1)


# ---------------------------------------------------------------- mini YAML


def _scalar(token):
    token = token.strip()
    if token in ('true', 'True'):
        return True
    if token in ('false', 'False'):
        return False
    for convert in (int, float):
        try:
            return convert(token)
        except ValueError:
            pass
    return token


def _flow(text):
    tokens = re.findall(r'\[|\]|,|[^\[\],\s][^\[\],]*', text)
    position = 0

    def parse():
        nonlocal position
        token = tokens[position]
        position += 1
        if token != '[':
            return _scalar(token)
        items = []
        while tokens[position] != ']':
            if tokens[position] == ',':
                position += 1
                continue
            items.append(parse())
        position += 1
        return items

    value = parse()
    assert position == len(tokens), text
    return value


def _value(text):
    return _flow(text) if text.startswith('[') else _scalar(text)


def _block(lines, i, indent):
    """parses the block starting at lines[i], which has the given indent"""
    if lines[i][1].startswith('- '):
        items = []
        while i < len(lines) and lines[i][0] == indent:
            assert lines[i][1].startswith('- ')
            rest = lines[i][1][2:].strip()
            if re.match(r'^[A-Za-z_]+:( |$)', rest):
                lines[i] = (indent + 2, rest)
                item, i = _block(lines, i, indent + 2)
            else:
                item, i = _value(rest), i + 1
            items.append(item)
        return items, i

    mapping = {}
    while i < len(lines) and lines[i][0] == indent:
        key, _, rest = lines[i][1].partition(':')
        rest = rest.strip()
        if rest:
            mapping[key.strip()] = _value(rest)
            i += 1
        else:
            assert lines[i + 1][0] > indent, lines[i]
            mapping[key.strip()], i = _block(lines, i + 1, lines[i + 1][0])
    assert i == len(lines) or lines[i][0] < indent, lines[i]
    return mapping, i


def load_yaml(path):
    lines = []
    with open(path) as f:
        for line in f:
            line = line.split('#')[0].rstrip()
            if line.strip():
                lines.append((len(line) - len(line.lstrip()), line.strip()))
    data, i = _block(lines, 0, 0)
    assert i == len(lines)
    return data


# ------------------------------------------------- reference implementation


def reference_gym_space(space):
    """what the gym layer must advertise for a Dict[str, Space]"""
    expected = {}
    for key, subspace in space.items():
        assert isinstance(subspace, Space)
        dtype = np.dtype(
            float if subspace.space_type is SpaceType.CONTINUOUS else int
        )
        expected[key] = (subspace.lower_bound, subspace.upper_bound, dtype)
    return expected


def check_gym_space(gym_space, space, what):
    expected = reference_gym_space(space)
    check(type(gym_space) is gym.spaces.Dict, what, type(gym_space))
    check(set(gym_space.spaces.keys()) == set(expected.keys()), what, 'keys')
    check(
        list(gym_space.spaces.keys()) == sorted(expected.keys()), what, 'order'
    )
    for key, (low, high, dtype) in expected.items():
        box = gym_space.spaces[key]
        check(type(box) is gym.spaces.Box, what, key, type(box))
        check(box.dtype == dtype, what, key, box.dtype, dtype)
        check(box.shape == low.shape == space[key].shape, what, key, 'shape')
        check(box.low.dtype == dtype and box.high.dtype == dtype, what, key)
        check(np.array_equal(box.low, low), what, key, 'low')
        check(np.array_equal(box.high, high), what, key, 'high')
        check(
            (space[key].space_type is SpaceType.CONTINUOUS)
            == (dtype == np.float64),
            what,
            key,
        )


def check_member(arrays, space, gym_space, what):
    """key by key: shape, dtype and bounds, in both kinds of spaces"""
    check(set(arrays.keys()) == set(space.keys()), what, 'keys')
    for key, array in arrays.items():
        subspace = space[key]
        box = gym_space.spaces[key]
        check(array.shape == subspace.shape, what, key, 'shape', array.shape)
        check(array.shape == box.shape, what, key, 'gym shape')
        if subspace.space_type is SpaceType.CONTINUOUS:
            check(np.issubdtype(array.dtype, np.floating), what, key, 'dtype')
        else:
            check(np.issubdtype(array.dtype, np.integer), what, key, 'dtype')
        check(np.can_cast(array.dtype, box.dtype), what, key, 'gym dtype')
        check(np.all(subspace.lower_bound <= array), what, key, 'lower')
        check(np.all(array <= subspace.upper_bound), what, key, 'upper')
        check(subspace.contains(array), what, key, 'Space.contains')
        check(box.contains(array), what, key, 'Box.contains')
    check(gym_space.contains(arrays), what, 'Dict.contains')


# ------------------------------------------------------- 1. env ids / table

EXPECTED_IDS = [
    'GV-Crossing-5x5-v0',
    'GV-Crossing-7x7-v0',
    'GV-DynamicObstacles-5x5-v0',
    'GV-DynamicObstacles-7x7-v0',
    'GV-Empty-4x4-v0',
    'GV-Empty-8x8-v0',
    'GV-FourRooms-7x7-v0',
    'GV-FourRooms-9x9-v0',
    'GV-Keydoor-5x5-v0',
    'GV-Keydoor-7x7-v0',
    'GV-Keydoor-9x9-v0',
    'GV-Memory-5x5-v0',
    'GV-Memory-9x9-v0',
    'GV-MemoryFourRooms-7x7-v0',
    'GV-MemoryFourRooms-9x9-v0',
    'GV-MemoryNineRooms-10x10-v0',
    'GV-MemoryNineRooms-13x13-v0',
    'GV-NineRooms-10x10-v0',
    'GV-NineRooms-13x13-v0',
    'GV-Teleport-5x5-v0',
    'GV-Teleport-7x7-v0',
]

check(gv_gym.env_ids == EXPECTED_IDS, 'env ids')
check(list(gv_gym.STRING_TO_YAML_FILE) == EXPECTED_IDS, 'yaml table')
for env_id in EXPECTED_IDS:
    spec = gym.spec(env_id)
    check(spec.entry_point == 'gym_gridverse.gym:from_factory', env_id)
    factory = spec.kwargs['factory']
    check(factory.func is gv_gym.outer_env_factory, env_id, 'factory')
    check(
        factory.args[0].endswith(
            os.path.join(
                'registered_envs', gv_gym.STRING_TO_YAML_FILE[env_id]
            )
        ),
        env_id,
    )
    check(os.path.isfile(factory.args[0]), env_id, factory.args[0])


# ------------------------------------ 2. outer_space_to_gym_space, directly

hand_made = {
    'cat': Space.make_categorical_space(np.array([[3, 0], [1, 7], [2, 2]])),
    'disc': Space.make_discrete_space(
        np.array([-5, 0, 2]), np.array([-5, 0, 9])
    ),
    'cont': Space.make_continuous_space(
        np.array([[-1.0, 0.0]]), np.array([[1.0, 0.0]])
    ),
    'a_scalar_like': Space.make_categorical_space(np.array([0])),
}
check_gym_space(
    gv_gym.outer_space_to_gym_space(hand_made), hand_made, 'hand-made'
)
check_gym_space(gv_gym.outer_space_to_gym_space({}), {}, 'empty dict')
for key in hand_made:
    single = {key: hand_made[key]}
    check_gym_space(gv_gym.outer_space_to_gym_space(single), single, key)
# the input is only read
check(list(hand_made) == ['cat', 'disc', 'cont', 'a_scalar_like'], 'input')


# --------------------------------- 3. shipped configurations, trajectories


def make_inner_env(yaml_filename):
    path = os.path.join('gym_gridverse', 'registered_envs', yaml_filename)
    return factory_env_from_data(load_yaml(path))


def run_gym_env(env, what, seed, n_steps):
    # NOTE GymEnvironment.seed needs a gym older than the installed one
    outer = env.outer_env
    outer.inner_env.set_seed(seed)
    arrays = env.reset()
    for t in range(n_steps + 1):
        here = (what, 't', t)
        if outer.observation_representation is not None:
            space = outer.observation_representation.space
            check_gym_space(env.observation_space, space, here)
            check_member(arrays, space, env.observation_space, here)
            check_member(env.observation, space, env.observation_space, here)
        if outer.state_representation is not None:
            space = outer.state_representation.space
            check_gym_space(env.state_space, space, here)
            check_member(env.state, space, env.state_space, here)
        action = (seed + 7 * t + t * t) % env.action_space.n
        arrays, reward, done, info = env.step(action)
        check(isinstance(reward, float) and isinstance(done, bool), here)
        check(info == {}, here, 'info')
        if done:
            arrays = env.reset()


n_steps = 25
for index, (env_id, yaml_filename) in enumerate(
    gv_gym.STRING_TO_YAML_FILE.items()
):
    inner = make_inner_env(yaml_filename)
    check(isinstance(inner, GridWorld), env_id)

    # the registered construction: default observations, no states
    outer = OuterEnv(
        inner,
        observation_representation=make_observation_representation(
            'default', inner.observation_space
        ),
    )
    env = gv_gym.GymEnvironment(outer)
    check(env.state_space is None, env_id, 'no state space')
    check(type(env.action_space) is gym.spaces.Discrete, env_id)
    check(env.action_space.n == inner.action_space.num_actions, env_id)
    check(
        set(env.observation_space.spaces) == {'grid', 'agent_id_grid', 'item'},
        env_id,
    )
    check(env.observation_space['grid'].shape == (7, 7, 3), env_id)
    check(env.observation_space['agent_id_grid'].shape == (7, 7), env_id)
    check(env.observation_space['item'].shape == (3,), env_id)
    run_gym_env(env, (env_id, 'registered'), seed=index, n_steps=n_steps)

    # every pair of representations, through the constructor
    for state_name, observation_name in itt.product(REPRESENTATIONS, repeat=2):
        outer = OuterEnv(
            inner,
            state_representation=make_state_representation(
                state_name, inner.state_space
            ),
            observation_representation=make_observation_representation(
                observation_name, inner.observation_space
            ),
        )
        env = gv_gym.GymEnvironment(outer)
        what = (env_id, state_name, observation_name)
        check(
            set(env.state_space.spaces)
            == {'grid', 'agent_id_grid', 'agent', 'item'},
            what,
        )
        height, width = inner.state_space.grid_shape.as_tuple
        check(env.state_space['grid'].shape == (height, width, 3), what)
        check(env.state_space['agent'].shape == (6,), what)
        check(env.state_space['agent'].dtype == np.float64, what)
        check(env.state_space['grid'].dtype == np.int64, what)
        run_gym_env(env, what, seed=100 + index, n_steps=6)

        # the state wrapper advertises the state space
        wrapped = gv_gym.GymStateWrapper(env)
        check(wrapped.observation_space is env.state_space, what, 'wrapper')
        arrays = wrapped.reset()
        check_member(
            arrays, outer.state_representation.space, env.state_space, what
        )
        arrays, _, _, info = wrapped.step(0)
        check_member(
            arrays, outer.state_representation.space, env.state_space, what
        )
        check_member(
            info['observation'],
            outer.observation_representation.space,
            env.observation_space,
            what,
        )

    # only states; and neither
    outer = OuterEnv(
        inner,
        state_representation=make_state_representation(
            'compact', inner.state_space
        ),
    )
    env = gv_gym.GymEnvironment(outer)
    check(env.observation_space is None, env_id, 'no observation space')
    check_gym_space(
        env.state_space, outer.state_representation.space, (env_id, 'states')
    )
    env = gv_gym.GymEnvironment(OuterEnv(inner))
    check(env.state_space is None and env.observation_space is None, env_id)

    # representations switched after construction, repeatedly, in all orders
    for name in REPRESENTATIONS + REPRESENTATIONS[::-1]:
        env.set_observation_representation(name)
        what = (env_id, 'switched to', name)
        check_gym_space(
            env.observation_space,
            make_observation_representation(
                name, inner.observation_space
            ).space,
            what,
        )
        check_gym_space(
            env.observation_space,
            env.outer_env.observation_representation.space,
            what,
        )
        env.set_state_representation(name)
        check_gym_space(
            env.state_space,
            make_state_representation(name, inner.state_space).space,
            what,
        )
        check_gym_space(
            env.state_space, env.outer_env.state_representation.space, what
        )
        run_gym_env(env, what, seed=7, n_steps=4)
    for name in ['', 'Default', 'no_overlap', 'nope']:
        for setter in (
            env.set_state_representation,
            env.set_observation_representation,
        ):
            try:
                setter(name)
            except ValueError:
                pass
            else:
                check(False, env_id, 'invalid representation name', name)
        # a failed switch leaves everything as it was
        check_gym_space(
            env.state_space, env.outer_env.state_representation.space, env_id
        )
        check_gym_space(
            env.observation_space,
            env.outer_env.observation_representation.space,
            env_id,
        )

    # re-seeding reproduces the arrays
    env.outer_env.inner_env.set_seed(1234)
    first = [env.reset()] + [env.step(a % env.action_space.n)[0] for a in range(8)]
    env.outer_env.inner_env.set_seed(1234)
    second = [env.reset()] + [env.step(a % env.action_space.n)[0] for a in range(8)]
    for one, two in zip(first, second):
        check(one.keys() == two.keys(), env_id, 'reseed')
        for key in one:
            check(np.array_equal(one[key], two[key]), env_id, 'reseed', key)


# ------------- 4. synthetic spaces: object / colour subsets, odd view shapes

ALL_TYPES = [Floor, Wall, Exit, Door, Key, MovingObstacle, Telepod, Beacon]
ALL_COLORS = list(Color)


def instances(object_type, colors):
    if object_type in (Floor, Wall, MovingObstacle):
        return [object_type()]
    if object_type is Door:
        return [
            Door(status, color) for status in Door.Status for color in colors
        ]
    return [object_type(color) for color in colors]


def null_function(*args, **kwargs):
    raise AssertionError('not used')


served = {}


def serve_state(*, rng=None):
    return served['state']


def serve_observation(state, *, rng=None):
    assert state is served['state']
    return served['observation']


def make_grid(shape, objects, k):
    """grid whose cells cycle through the objects, starting from the k-th"""
    return Grid(
        [
            [
                objects[(k + y * shape.width + x) % len(objects)]
                for x in range(shape.width)
            ]
            for y in range(shape.height)
        ]
    )


type_subsets = [
    [Floor],
    [Wall, Floor],
    [Door],
    [Key, Floor, Door],
    [Beacon, Telepod],
    [Exit, MovingObstacle, Wall],
    ALL_TYPES,
    ALL_TYPES[::-1],
]
color_subsets = [
    [],
    [Color.NONE],
    [Color.YELLOW],
    [Color.RED, Color.BLUE],
    ALL_COLORS,
]
grid_shapes = [Shape(2, 2), Shape(2, 5), Shape(6, 3), Shape(4, 4)]
view_shapes = [Shape(2, 3), Shape(1, 1), Shape(4, 7), Shape(5, 1), Shape(3, 5)]

for (i, object_types), (j, colors) in itt.product(
    enumerate(type_subsets), enumerate(color_subsets)
):
    grid_shape = grid_shapes[(i + j) % len(grid_shapes)]
    view_shape = view_shapes[(i + 2 * j) % len(view_shapes)]
    state_space = StateSpace(grid_shape, object_types, colors)
    observation_space = ObservationSpace(view_shape, object_types, colors)
    inner = GridWorld(
        state_space,
        ActionSpace(list(Action)),
        observation_space,
        serve_state,
        null_function,
        serve_observation,
        null_function,
        null_function,
    )
    space_colors = sorted(state_space.colors, key=lambda color: color.value)
    members = [
        obj
        for object_type in object_types
        for obj in instances(object_type, space_colors)
    ]
    held_items = members + [NoneGridObject()]
    view_members = members + [Hidden()]

    env = gv_gym.GymEnvironment(OuterEnv(inner))
    for name in REPRESENTATIONS:
        what = (
            [t.__name__ for t in object_types],
            [c.name for c in colors],
            grid_shape,
            view_shape,
            name,
        )
        env.set_state_representation(name)
        env.set_observation_representation(name)
        s_repr = env.outer_env.state_representation
        o_repr = env.outer_env.observation_representation
        check_gym_space(env.state_space, s_repr.space, what)
        check_gym_space(env.observation_space, o_repr.space, what)

        # the same, through the constructor
        other = gv_gym.GymEnvironment(
            OuterEnv(
                inner,
                state_representation=make_state_representation(
                    name, state_space
                ),
                observation_representation=make_observation_representation(
                    name, observation_space
                ),
            )
        )
        check_gym_space(other.state_space, s_repr.space, what)
        check_gym_space(other.observation_space, o_repr.space, what)
        for key in env.state_space.spaces:
            check(env.state_space[key] == other.state_space[key], what, key)
        for key in env.observation_space.spaces:
            check(
                env.observation_space[key] == other.observation_space[key],
                what,
                key,
            )

        # member states and observations: every object (type, status,
        # colour) in the cells, every agent pose, every held item; served
        # to the gym layer through the reset / observation functions
        positions = list(Grid.from_shape(grid_shape.as_tuple).area.positions())
        poses = list(itt.product(positions, Orientation))
        n = max(len(view_members), len(poses), len(held_items))
        for k in range(n):
            served['state'] = State(
                make_grid(grid_shape, members, k),
                Agent(*poses[k % len(poses)], held_items[k % len(held_items)]),
            )
            served['observation'] = Observation(
                make_grid(view_shape, view_members, k),
                Agent(
                    observation_space.agent_position,
                    Orientation.F,
                    held_items[(k + 1) % len(held_items)],
                ),
            )
            check(state_space.contains(served['state']), what, 'state')
            check(
                observation_space.contains(served['observation']), what, 'obs'
            )
            arrays = env.reset()
            check(inner.state is served['state'], what)
            check(inner.observation is served['observation'], what)
            check_member(arrays, o_repr.space, env.observation_space, what)
            check_member(
                env.observation, o_repr.space, env.observation_space, what
            )
            check_member(env.state, s_repr.space, env.state_space, what)
            arrays = gv_gym.GymStateWrapper(other).reset()
            check_member(arrays, s_repr.space, other.state_space, what)

print(f'demo A: {N_CHECKS} checks passed')
