"""Check program for property C15 (numeric representations lie inside their
declared spaces).

Run as:  cd /tmp/wt3-C15 && /venv/bin/python -W ignore _seed/<X>/demo.py

Everything the library produces (declared spaces, converted arrays, gym
spaces) is compared against an INDEPENDENT re-implementation that lives in this
file (``Ref*`` functions, which only rely on hard-coded tables of the
registered grid-object types), and additionally it is checked that every
converted array lies inside the declared space / gym space.  A digest of all
the library outputs is compared with the value recorded on the pristine tree.
"""
import os
import sys

sys.path.insert(0, os.getcwd())

import ast
import glob
import hashlib
import itertools
import random
import re

import numpy as np

import gym  # noqa: E402

from gym_gridverse.agent import Agent
from gym_gridverse.debugging import reset_gv_debug
from gym_gridverse.envs.yaml.factory import factory_env_from_data
from gym_gridverse.geometry import Orientation, Position, Shape
from gym_gridverse.grid import Grid
from gym_gridverse.grid_object import (
    Beacon,
    Box,
    Color,
    Door,
    Exit,
    Floor,
    Hidden,
    Key,
    MovingObstacle,
    NoneGridObject,
    Telepod,
    Wall,
    grid_object_registry,
)
from gym_gridverse.gym import GymEnvironment, outer_space_to_gym_space
from gym_gridverse.observation import Observation
from gym_gridverse.outer_env import OuterEnv
from gym_gridverse.representations import (
    observation_representations as obs_reps,
    representation as rep_mod,
    state_representations as state_reps,
)
from gym_gridverse.representations.observation_representations import (
    make_observation_representation,
)
from gym_gridverse.representations.spaces import (
    Space,
    SpaceType,
    is_dtype_compatible,
)
from gym_gridverse.representations.state_representations import (
    make_state_representation,
)
from gym_gridverse.spaces import ObservationSpace, StateSpace
from gym_gridverse.state import State

FOCUS = 'B'  # which refactoring this copy of the check program accompanies

reset_gv_debug(True)

REP_NAMES = ('default', 'no-overlap', 'compact')

# ---------------------------------------------------------------------------
# hard-coded facts about the registered grid-objects (independent of library)
# ---------------------------------------------------------------------------

TYPE_TABLE = [
    # (class, type index, number of states, has colour, representable in state)
    (NoneGridObject, 0, 1, False, True),
    (Hidden, 1, 1, False, False),
    (Floor, 2, 1, False, True),
    (Wall, 3, 1, False, True),
    (Exit, 4, 1, True, True),
    (Door, 5, 3, True, True),
    (Key, 6, 1, True, True),
    (MovingObstacle, 7, 1, False, True),
    (Box, 8, 1, False, False),
    (Telepod, 9, 1, True, True),
    (Beacon, 10, 1, True, True),
]
ALL_TYPES = [row[0] for row in TYPE_TABLE]
TYPE_INDEX = {row[0]: row[1] for row in TYPE_TABLE}
NUM_STATES = {row[0]: row[2] for row in TYPE_TABLE}
HAS_COLOR = {row[0]: row[3] for row in TYPE_TABLE}
REPRESENTABLE = {row[0]: row[4] for row in TYPE_TABLE}
COLOR_INDEX = {
    Color.NONE: 0,
    Color.RED: 1,
    Color.GREEN: 2,
    Color.BLUE: 3,
    Color.YELLOW: 4,
}
ALL_COLORS = list(COLOR_INDEX)
DOOR_STATUS_INDEX = {
    Door.Status.OPEN: 0,
    Door.Status.CLOSED: 1,
    Door.Status.LOCKED: 2,
}
ORIENTATION_INDEX = {
    Orientation.F: 0,
    Orientation.B: 1,
    Orientation.L: 2,
    Orientation.R: 3,
}


def check_tables():
    assert list(grid_object_registry) == ALL_TYPES, list(grid_object_registry)
    for cls, index, num_states, _, representable in TYPE_TABLE:
        assert cls.type_index() == index
        assert cls.num_states() == num_states
        assert cls.can_be_represented_in_state() == representable
    for color, index in COLOR_INDEX.items():
        assert color.value == index
    assert list(Color) == ALL_COLORS
    for orientation, index in ORIENTATION_INDEX.items():
        assert orientation.value == index


# ---------------------------------------------------------------------------
# digest of library outputs
# ---------------------------------------------------------------------------

_digest = hashlib.sha256()
_counts = {}


def count(what, n=1):
    _counts[what] = _counts.get(what, 0) + n


def feed(*items):
    for item in items:
        if isinstance(item, np.ndarray):
            _digest.update(str(item.dtype).encode())
            _digest.update(str(item.shape).encode())
            _digest.update(np.ascontiguousarray(item).tobytes())
        else:
            _digest.update(repr(item).encode())
        _digest.update(b'|')


# ---------------------------------------------------------------------------
# reference model
# ---------------------------------------------------------------------------


def obj_triple(obj):
    """(type index, state index, colour index) of an object, from the tables"""
    cls = type(obj)
    status = DOOR_STATUS_INDEX[obj.state] if cls is Door else 0
    color = COLOR_INDEX[obj.color] if HAS_COLOR[cls] else 0
    return TYPE_INDEX[cls], status, color


class RefObjectRep:
    """independent model of the three grid-object representations

    ``types`` is the full set of types the representation knows about
    (including the implicit NoneGridObject / Hidden), ``colors`` the full set
    of colours (including the implicit NONE).
    """

    def __init__(self, name, types, colors):
        self.name = name
        self.types = sorted(set(types), key=TYPE_INDEX.__getitem__)
        self.colors = sorted(set(colors), key=COLOR_INDEX.__getitem__)
        self.mt = max(TYPE_INDEX[t] for t in self.types)
        # NOTE the library uses the number of states as the `max state index`
        self.ms = max(NUM_STATES[t] for t in self.types)
        self.mc = max(COLOR_INDEX[c] for c in self.colors)

        n_types = len(self.types)
        n_states = sum(NUM_STATES[t] for t in self.types)
        n_colors = len(self.colors)
        self.compact_type = {}
        self.compact_state = {}
        self.compact_color = {}
        running = 0
        for t in self.types:
            self.compact_type[TYPE_INDEX[t]] = running
            running += 1
        assert running == n_types
        for t in self.types:
            for j in range(NUM_STATES[t]):
                self.compact_state[TYPE_INDEX[t], j] = running
                running += 1
        assert running == n_types + n_states
        for c in self.colors:
            self.compact_color[COLOR_INDEX[c]] = running
            running += 1
        assert running == n_types + n_states + n_colors
        self.n_types, self.n_states, self.n_colors = n_types, n_states, n_colors

    def upper(self):
        if self.name == 'default':
            return [self.mt, self.ms, self.mc]
        if self.name == 'no-overlap':
            return [
                self.mt,
                self.mt + self.ms + 1,
                self.mt + self.ms + self.mc + 2,
            ]
        if self.name == 'compact':
            return [
                self.n_types - 1,
                self.n_types + self.n_states - 1,
                self.n_types + self.n_states + self.n_colors - 1,
            ]
        raise AssertionError(self.name)

    def convert(self, obj):
        i, j, k = obj_triple(obj)
        if self.name == 'default':
            return [i, j, k]
        if self.name == 'no-overlap':
            return [i, self.mt + 1 + j, self.mt + self.ms + 2 + k]
        if self.name == 'compact':
            return [
                self.compact_type[i],
                self.compact_state[i, j],
                self.compact_color[k],
            ]
        raise AssertionError(self.name)


def ref_contains(kind, lower, upper, x):
    """independent membership test (shape, dtype kind, bounds)"""
    lower = np.asarray(lower)
    upper = np.asarray(upper)
    if tuple(x.shape) != tuple(lower.shape):
        return False
    if kind == 'f':
        if x.dtype.kind != 'f':
            return False
    else:
        if x.dtype.kind not in 'iu':
            return False
    return bool((lower <= x).all() and (x <= upper).all())


def check_space(space, space_type, lower, upper, dtype_kind, what):
    """declared space equals the reference one, exactly"""
    assert isinstance(space, Space), what
    assert space.space_type is space_type, (what, space.space_type)
    lower = np.asarray(lower)
    upper = np.asarray(upper)
    assert space.lower_bound.shape == lower.shape, what
    assert space.upper_bound.shape == upper.shape, what
    assert space.shape == lower.shape, what
    assert space.lower_bound.dtype.kind == dtype_kind, what
    assert space.upper_bound.dtype.kind == dtype_kind, what
    assert space.lower_bound.dtype.itemsize == 8, what
    assert space.upper_bound.dtype.itemsize == 8, what
    assert np.array_equal(space.lower_bound, lower), what
    assert np.array_equal(space.upper_bound, upper), what
    feed(space.space_type.name, space.lower_bound, space.upper_bound)


def check_array(x, expected, dtype, space, what):
    """converted array equals the reference one and is inside the space"""
    expected = np.asarray(expected, dtype=dtype)
    assert isinstance(x, np.ndarray), what
    assert x.dtype == expected.dtype, (what, x.dtype)
    assert x.shape == expected.shape, (what, x.shape, expected.shape)
    assert np.array_equal(x, expected), (what, x, expected)
    kind = 'f' if space.space_type is SpaceType.CONTINUOUS else 'i'
    assert ref_contains(kind, space.lower_bound, space.upper_bound, x), what
    inside = space.contains(x)
    assert inside, what
    assert bool(inside) is True
    feed(x)


# ---------------------------------------------------------------------------
# enumeration of member objects
# ---------------------------------------------------------------------------


def instances(cls, colors):
    """all instances of a grid-object type with colours in ``colors``"""
    colors = sorted(set(colors), key=COLOR_INDEX.__getitem__)
    if cls is NoneGridObject:
        return [NoneGridObject()]
    if cls is Hidden:
        return [Hidden()]
    if cls is Floor:
        return [Floor()]
    if cls is Wall:
        return [Wall()]
    if cls is MovingObstacle:
        return [MovingObstacle()]
    if cls is Box:
        return [Box(Floor()), Box(Key(Color.RED))]
    if cls is Exit:
        return [Exit(c) for c in colors]
    if cls is Key:
        return [Key(c) for c in colors]
    if cls is Telepod:
        return [Telepod(c) for c in colors]
    if cls is Beacon:
        return [Beacon(c) for c in colors]
    if cls is Door:
        return [Door(s, c) for s in DOOR_STATUS_INDEX for c in colors]
    raise AssertionError(cls)


def all_instances(types, colors):
    return [
        obj
        for cls in sorted(set(types), key=TYPE_INDEX.__getitem__)
        for obj in instances(cls, colors)
    ]


def subsets(items):
    items = list(items)
    for r in range(len(items) + 1):
        yield from itertools.combinations(items, r)


# ---------------------------------------------------------------------------
# part 1: grid-object representations, all type subsets x colour subsets
# ---------------------------------------------------------------------------

STATE_OBJECT_REPS = {
    'default': state_reps.DefaultGridObjectStateRepresentation,
    'no-overlap': state_reps.NoOverlapGridObjectStateRepresentation,
    'compact': state_reps.CompactGridObjectStateRepresentation,
}
OBSERVATION_OBJECT_REPS = {
    'default': obs_reps.DefaultGridObjectObservationRepresentation,
    'no-overlap': obs_reps.NoOverlapGridObjectObservationRepresentation,
    'compact': obs_reps.CompactGridObjectObservationRepresentation,
}


def check_compact_maps(rep, ref, max_type, max_state, max_color):
    """the lookup tables of the compact representation, entry by entry"""
    type_map = rep._grid_object_type_map
    status_map = rep._grid_object_status_map
    color_map = rep._grid_object_color_map
    for m in (type_map, status_map, color_map):
        assert isinstance(m, np.ndarray) and m.dtype == np.dtype(int)
    assert type_map.shape == (max_type + 1,), type_map.shape
    assert status_map.shape == (max_type + 1, max_state + 1), status_map.shape
    assert color_map.shape == (max_color + 1,), color_map.shape
    exp_type = np.full((max_type + 1,), -1, dtype=np.int64)
    exp_status = np.full((max_type + 1, max_state + 1), -1, dtype=np.int64)
    exp_color = np.full((max_color + 1,), -1, dtype=np.int64)
    for i, v in ref.compact_type.items():
        exp_type[i] = v
    for (i, j), v in ref.compact_state.items():
        exp_status[i, j] = v
    for k, v in ref.compact_color.items():
        exp_color[k] = v
    assert np.array_equal(type_map, exp_type), (type_map, exp_type)
    assert np.array_equal(status_map, exp_status), (status_map, exp_status)
    assert np.array_equal(color_map, exp_color), (color_map, exp_color)
    # used entries are exactly 0 .. n-1 without gaps
    used = sorted(
        [v for v in type_map.ravel() if v >= 0]
        + [v for v in status_map.ravel() if v >= 0]
        + [v for v in color_map.ravel() if v >= 0]
    )
    assert used == list(range(len(used)))
    feed(type_map, status_map, color_map)


def check_object_reps(kind, types, colors, convert_objects):
    """one (object types, colours) configuration, at grid-object level

    kind is 'state' or 'observation'; returns False if the configuration
    cannot be built at all (reference says so as well).
    """
    types = list(types)
    colors = list(colors)
    if kind == 'state':
        space = StateSpace(Shape(2, 2), types, colors)
        implicit = [NoneGridObject]
        classes = STATE_OBJECT_REPS
        max_type = max(TYPE_INDEX[t] for t in types + [NoneGridObject])
        max_state = max(NUM_STATES[t] for t in types + [NoneGridObject])
    else:
        space = ObservationSpace(Shape(2, 3), types, colors)
        implicit = [NoneGridObject, Hidden]
        classes = OBSERVATION_OBJECT_REPS
        max_type = max(TYPE_INDEX[t] for t in types + implicit)
        max_state = max(NUM_STATES[t] for t in types + implicit)
    full_colors = set(colors) | {Color.NONE}
    max_color = max(COLOR_INDEX[c] for c in full_colors)
    assert space.colors == full_colors
    assert space.object_types == types

    objects = (
        all_instances(types + implicit, full_colors) if convert_objects else []
    )

    for name in REP_NAMES:
        what = (kind, name, [t.__name__ for t in types], sorted(COLOR_INDEX[c] for c in colors))
        if kind == 'state' and name == 'compact' and not types:
            # the state space has no maximum over an empty list of types
            try:
                classes[name](space)
            except ValueError:
                count('object-rep unbuildable')
                feed('unbuildable', what)
                continue
            raise AssertionError(('expected ValueError', what))

        rep = classes[name](space)
        ref = RefObjectRep(name, types + implicit, full_colors)
        upper = ref.upper()
        check_space(
            rep.space, SpaceType.CATEGORICAL, [0, 0, 0], upper, 'i', what
        )
        # space is recomputed consistently
        assert rep.space == rep.space
        count('object-rep spaces')
        if name == 'compact':
            check_compact_maps(rep, ref, max_type, max_state, max_color)

        rep_space = rep.space
        for obj in objects:
            check_array(
                rep.convert(obj), ref.convert(obj), np.int64, rep_space, (what, obj)
            )
        count('object-rep converts', len(objects))


def part1_object_reps():
    color_subsets = list(subsets(ALL_COLORS))
    assert len(color_subsets) == 32
    type_subsets = list(subsets(ALL_TYPES))
    assert len(type_subsets) == 2048
    rnd = random.Random(1501)

    # (a) every type subset x every colour subset: declared spaces (+ maps)
    # (NONE is implicitly part of every space; subsets with and without an
    # explicit NONE are alternated between the two kinds of space)
    for n, types in enumerate(type_subsets):
        for m, colors in enumerate(color_subsets):
            kind = 'state' if (n + m) % 2 == 0 else 'observation'
            if Color.NONE in colors:
                kind = 'observation' if kind == 'state' else 'state'
            check_object_reps(kind, types, colors, convert_objects=False)

    # (b) every type subset x some colour subsets: every member object
    some_colors = [
        (),
        (Color.YELLOW,),
        (Color.RED, Color.BLUE),
        (Color.NONE, Color.GREEN),
        tuple(ALL_COLORS),
    ]
    for n, types in enumerate(type_subsets):
        colors = some_colors[n % len(some_colors)]
        check_object_reps('state', types, colors, convert_objects=True)
        colors = some_colors[(n + 2) % len(some_colors)]
        check_object_reps('observation', types, colors, convert_objects=True)

    # (c) every colour subset x some type subsets: every member object
    some_types = rnd.sample(type_subsets, 12) + [tuple(ALL_TYPES), (Door,)]
    for types in some_types:
        for colors in color_subsets:
            check_object_reps('state', types, colors, convert_objects=True)
            check_object_reps(
                'observation', types, colors, convert_objects=True
            )


# ---------------------------------------------------------------------------
# part 2: the module-level helper functions of representation.py
# ---------------------------------------------------------------------------


def part2_helper_functions():
    rnd = random.Random(1502)
    type_subsets = [s for s in subsets(ALL_TYPES) if s]
    color_subsets = [s for s in subsets(ALL_COLORS) if s]
    for types in type_subsets:
        for colors in rnd.sample(color_subsets, 4) + [tuple(ALL_COLORS)]:
            tset, cset = set(types), set(colors)
            objects = all_instances(types, colors)
            for name in ('default', 'no-overlap'):
                ref = RefObjectRep(name, types, colors)
                if name == 'default':
                    space = rep_mod.default_grid_object_representation_space(
                        tset, cset
                    )
                else:
                    space = rep_mod.no_overlap_grid_object_representation_space(
                        tset, cset
                    )
                check_space(
                    space,
                    SpaceType.CATEGORICAL,
                    [0, 0, 0],
                    ref.upper(),
                    'i',
                    (name, types, colors),
                )
                for obj in objects:
                    if name == 'default':
                        x = rep_mod.default_grid_object_representation_convert(
                            obj
                        )
                    else:
                        x = rep_mod.no_overlap_grid_object_representation_convert(
                            tset, cset, obj
                        )
                    check_array(
                        x, ref.convert(obj), np.int64, space, (name, obj)
                    )
                count('helper converts', len(objects))
            # inputs are not mutated
            assert tset == set(types) and cset == set(colors)

    # compact helpers with hand-made maps
    type_map = np.array([3, -1, 0, 1, -1, 2])
    state_map = np.array(
        [[4, -1, -1], [-1, -1, -1], [5, -1, -1], [6, -1, -1], [-1, -1, -1], [7, 8, 9]]
    )
    color_map = np.array([10, -1, 11, -1, 12])
    space = rep_mod.compact_grid_object_representation_space(
        type_map, state_map, color_map
    )
    check_space(space, SpaceType.CATEGORICAL, [0, 0, 0], [3, 9, 12], 'i', 'cm')
    for obj, expected in [
        (NoneGridObject(), [3, 4, 10]),
        (Floor(), [0, 5, 10]),
        (Wall(), [1, 6, 10]),
        (Door(Door.Status.OPEN, Color.GREEN), [2, 7, 11]),
        (Door(Door.Status.CLOSED, Color.YELLOW), [2, 8, 12]),
        (Door(Door.Status.LOCKED, Color.NONE), [2, 9, 10]),
    ]:
        x = rep_mod.compact_grid_object_representation_convert(
            type_map, state_map, color_map, obj
        )
        check_array(x, expected, np.int64, space, ('cm', obj))


# ---------------------------------------------------------------------------
# part 3: Space / dtype helpers (truth tables, return types)
# ---------------------------------------------------------------------------


def part3_space_class():
    int_arrays = [
        np.zeros(3, dtype=int),
        np.zeros(3, dtype=np.int8),
        np.zeros(3, dtype=np.uint16),
        np.zeros((2, 2), dtype=np.int32),
    ]
    float_arrays = [
        np.zeros(3),
        np.zeros(3, dtype=np.float32),
        np.zeros((2, 2), dtype=np.float16),
    ]
    other_arrays = [
        np.zeros(3, dtype=bool),
        np.zeros(3, dtype=complex),
        np.array(['a', 'b']),
        np.array([None, 1], dtype=object),
    ]
    for x in int_arrays + float_arrays + other_arrays:
        is_int = any(x is y for y in int_arrays)
        is_float = any(x is y for y in float_arrays)
        for space_type in SpaceType:
            expected = is_float if space_type is SpaceType.CONTINUOUS else is_int
            result = is_dtype_compatible(x, space_type)
            assert type(result) is bool, type(result)
            assert result is expected, (x.dtype, space_type)
            feed(result)
        for bad in (None, 0, 'CATEGORICAL', 1.5):
            try:
                is_dtype_compatible(x, bad)
            except ValueError as error:
                assert str(error) == f'invalid SpaceType {bad}', str(error)
            else:
                raise AssertionError('expected ValueError')
    assert [t.name for t in SpaceType] == ['CATEGORICAL', 'DISCRETE', 'CONTINUOUS']
    assert [t.value for t in SpaceType] == [0, 1, 2]

    # constructor validation
    def raises(f, message):
        try:
            f()
        except ValueError as error:
            assert str(error) == message, (str(error), message)
            feed(str(error))
        else:
            raise AssertionError(('expected ValueError', message))

    i3, f3 = np.zeros(3, dtype=int), np.zeros(3)
    raises(
        lambda: Space(SpaceType.CATEGORICAL, f3, i3),
        'incompatible lower bound dtype float64',
    )
    raises(
        lambda: Space(SpaceType.DISCRETE, i3, f3),
        'incompatible upper bound dtype float64',
    )
    raises(
        lambda: Space(SpaceType.CONTINUOUS, i3, f3),
        'incompatible lower bound dtype int64',
    )
    raises(
        lambda: Space(SpaceType.CONTINUOUS, f3, np.zeros(4)),
        'incompatible bound shapes (3,) (4,)',
    )
    raises(
        lambda: Space(SpaceType.DISCRETE, i3 + 1, i3),
        'incompatible bound values',
    )
    raises(
        lambda: Space.make_categorical_space(np.array([1, -1])),
        'incompatible bound values',
    )
    raises(
        lambda: Space.make_categorical_space(np.array([1.0, 2.0])),
        'incompatible lower bound dtype float64',
    )

    # contains: truth table, including the *type* of the returned value
    cat = Space.make_categorical_space(np.array([2, 5, 0]))
    assert cat.space_type is SpaceType.CATEGORICAL
    assert cat.lower_bound.dtype == np.int64 and not cat.lower_bound.any()
    dis = Space.make_discrete_space(np.array([-1, 0, 3]), np.array([2, 5, 3]))
    con = Space.make_continuous_space(
        np.array([-1.0, 0.0, 3.0]), np.array([2.0, 5.0, 3.0])
    )
    con2 = Space.make_continuous_space(np.zeros((2, 2)), np.ones((2, 2)))
    cases = []
    for space, lo, hi, kind in [
        (cat, [0, 0, 0], [2, 5, 0], 'i'),
        (dis, [-1, 0, 3], [2, 5, 3], 'i'),
        (con, [-1.0, 0.0, 3.0], [2.0, 5.0, 3.0], 'f'),
        (con2, np.zeros((2, 2)), np.ones((2, 2)), 'f'),
    ]:
        candidates = []
        for values in itertools.product([-2, -1, 0, 2, 3], [-1, 0, 5, 6], [-1, 0, 3, 4]):
            candidates.append(np.array(values))
            candidates.append(np.array(values, dtype=float))
        candidates.append(np.array([0, 0]))
        candidates.append(np.array([0.0, 0.0, 0.0, 0.0]))
        candidates.append(np.zeros((2, 2)))
        candidates.append(np.ones((2, 2)))
        candidates.append(np.full((2, 2), 0.5, dtype=np.float32))
        candidates.append(np.full((2, 2), 1.5))
        candidates.append(np.zeros((2, 2), dtype=int))
        candidates.append(np.zeros((3, 1), dtype=int))
        candidates.append(np.array([1, 1, 0], dtype=np.int8))
        candidates.append(np.array([1, 1, 3], dtype=np.uint8))
        candidates.append(np.array([True, True, False]))
        candidates.append(np.array([0.0, 0.0, np.nan]))
        candidates.append(np.array([0.0, np.inf, 3.0]))
        for x in candidates:
            expected = ref_contains(kind, lo, hi, x)
            result = space.contains(x)
            assert bool(result) is expected, (space.space_type, x, result)
            # exact type of the result: python bool for shape/dtype mismatch,
            # numpy bool when decided by the bounds
            structural = x.shape == np.shape(lo) and (
                x.dtype.kind == 'f' if kind == 'f' else x.dtype.kind in 'iu'
            )
            if structural:
                assert isinstance(result, np.bool_), type(result)
            else:
                assert result is False, result
            cases.append(bool(result))
            count('contains cases')
    feed(cases)

    # equality
    assert cat == Space.make_categorical_space(np.array([2, 5, 0]))
    assert not (cat == Space.make_categorical_space(np.array([2, 5, 1])))
    assert not (cat == Space.make_discrete_space(np.zeros(3, int), np.array([2, 5, 0])))
    assert cat.__eq__(3) is NotImplemented
    assert cat != 3
    assert cat.shape == (3,) and con2.shape == (2, 2)


# ---------------------------------------------------------------------------
# part 4: dictionary representations, grid shapes, poses, held items
# ---------------------------------------------------------------------------


def ref_state_dict(name, space_types, space_colors, state):
    ref = RefObjectRep(name, list(space_types) + [NoneGridObject], space_colors)
    h, w = state.grid.shape.height, state.grid.shape.width
    grid = [
        [ref.convert(state.grid[y, x]) for x in range(w)] for y in range(h)
    ]
    ids = [[0] * w for _ in range(h)]
    ids[state.agent.position.y][state.agent.position.x] = 1
    agent = [0.0] * 6
    agent[0] = (2 * state.agent.position.y - h + 1) / (h - 1)
    agent[1] = (2 * state.agent.position.x - w + 1) / (w - 1)
    agent[2 + ORIENTATION_INDEX[state.agent.orientation]] = 1.0
    return {
        'grid': (grid, np.int64),
        'agent_id_grid': (ids, np.int64),
        'agent': (agent, np.float64),
        'item': (ref.convert(state.agent.grid_object), np.int64),
    }


def ref_observation_dict(name, space_types, space_colors, observation):
    ref = RefObjectRep(
        name, list(space_types) + [NoneGridObject, Hidden], space_colors
    )
    h, w = observation.grid.shape.height, observation.grid.shape.width
    grid = [
        [ref.convert(observation.grid[y, x]) for x in range(w)]
        for y in range(h)
    ]
    ids = [[0] * w for _ in range(h)]
    ids[observation.agent.position.y][observation.agent.position.x] = 1
    return {
        'grid': (grid, np.int64),
        'agent_id_grid': (ids, np.int64),
        'item': (ref.convert(observation.agent.grid_object), np.int64),
    }


def ref_dict_space(kind, name, space_types, space_colors, shape):
    implicit = [NoneGridObject] if kind == 'state' else [NoneGridObject, Hidden]
    ref = RefObjectRep(name, list(space_types) + implicit, space_colors)
    h, w = shape
    upper = ref.upper()
    spaces = {
        'grid': (
            SpaceType.CATEGORICAL,
            np.zeros((h, w, 3), dtype=np.int64),
            np.broadcast_to(np.array(upper, dtype=np.int64), (h, w, 3)).copy(),
            'i',
        ),
        'agent_id_grid': (
            SpaceType.DISCRETE,
            np.zeros((h, w), dtype=np.int64),
            np.ones((h, w), dtype=np.int64),
            'i',
        ),
    }
    if kind == 'state':
        spaces['agent'] = (
            SpaceType.CONTINUOUS,
            np.array([-1.0, -1.0, 0.0, 0.0, 0.0, 0.0]),
            np.array([1.0, 1.0, 1.0, 1.0, 1.0, 1.0]),
            'f',
        )
    spaces['item'] = (
        SpaceType.CATEGORICAL,
        np.zeros(3, dtype=np.int64),
        np.array(upper, dtype=np.int64),
        'i',
    )
    return spaces


EXPECTED_COMPONENTS = {
    'state': {
        'grid': state_reps.GridStateRepresentation,
        'agent_id_grid': state_reps.AgentIDGridStateRepresentation,
        'agent': state_reps.AgentStateRepresentation,
        'item': state_reps.ItemStateRepresentation,
    },
    'observation': {
        'grid': obs_reps.GridObservationRepresentation,
        'agent_id_grid': obs_reps.AgentIDGridObservationRepresentation,
        'item': obs_reps.ItemObservationRepresentation,
    },
}


def check_factory_structure(kind, name, rep, space):
    """structure of what the factory functions build"""
    if kind == 'state':
        assert type(rep) is state_reps.DictStateRepresentation
        assert rep.state_space is space
        object_rep_class = STATE_OBJECT_REPS[name]
        attr = 'state_space'
    else:
        assert type(rep) is obs_reps.DictObservationRepresentation
        assert rep.observation_space is space
        object_rep_class = OBSERVATION_OBJECT_REPS[name]
        attr = 'observation_space'
    expected = EXPECTED_COMPONENTS[kind]
    assert type(rep.representations) is dict
    assert list(rep.representations) == list(expected), list(rep.representations)
    for key, cls in expected.items():
        component = rep.representations[key]
        assert type(component) is cls, (key, type(component))
        assert getattr(component, attr) is space
    grid_rep = rep.representations['grid']
    item_rep = rep.representations['item']
    assert type(grid_rep.grid_object_representation) is object_rep_class
    # grid and item share a single grid-object representation
    assert grid_rep.grid_object_representation is item_rep.grid_object_representation
    assert getattr(grid_rep.grid_object_representation, attr) is space
    assert list(rep.space) == list(expected)
    feed(kind, name, list(rep.representations), object_rep_class.__name__)


def check_gym_space(gym_space, declared, ref_spaces, what):
    """the space advertised at the gym layer"""
    assert type(gym_space) is gym.spaces.Dict, what
    assert sorted(gym_space.spaces) == sorted(ref_spaces), what
    # gym orders the keys alphabetically
    assert list(gym_space.spaces) == sorted(ref_spaces), what
    for key, (space_type, lower, upper, kind) in ref_spaces.items():
        box = gym_space.spaces[key]
        assert type(box) is gym.spaces.Box, what
        expected_dtype = np.float64 if kind == 'f' else np.int64
        assert box.dtype == expected_dtype, (what, key, box.dtype)
        assert box.shape == lower.shape, (what, key)
        assert box.low.dtype == expected_dtype and box.high.dtype == expected_dtype
        assert np.array_equal(box.low, lower), (what, key)
        assert np.array_equal(box.high, upper), (what, key)
        assert np.array_equal(box.low, declared[key].lower_bound)
        assert np.array_equal(box.high, declared[key].upper_bound)
        feed(key, str(box.dtype), box.low, box.high)


def check_dict_spaces(kind, name, rep, types, colors, shape):
    ref_spaces = ref_dict_space(kind, name, types, colors, shape)
    declared = rep.space
    assert type(declared) is dict
    assert list(declared) == list(ref_spaces), list(declared)
    what = (kind, name, shape)
    for key, (space_type, lower, upper, dkind) in ref_spaces.items():
        check_space(declared[key], space_type, lower, upper, dkind, (what, key))
        # the component declares the same
        assert rep.representations[key].space == declared[key]
    gym_space = outer_space_to_gym_space(declared)
    check_gym_space(gym_space, declared, ref_spaces, what)
    count('dict spaces')
    return declared, gym_space


def check_converted(kind, name, converted, expected, declared, gym_space, what):
    assert type(converted) is dict, what
    assert list(converted) == list(expected), (what, list(converted))
    for key, (values, dtype) in expected.items():
        check_array(converted[key], values, dtype, declared[key], (what, key))
        assert gym_space.spaces[key].contains(converted[key]), (what, key)
    assert gym_space.contains(converted), what
    count(f'{kind} conversions')


def random_grid(rnd, shape, objects):
    h, w = shape
    return Grid([[rnd.choice(objects) for _ in range(w)] for _ in range(h)])


CONFIGS = [
    # (object types, colours)
    ([Floor], []),
    ([Wall, Floor, Exit], [Color.NONE]),
    ([Wall, Floor, Exit, Door, Key], [Color.NONE, Color.YELLOW]),
    ([Door], [Color.RED, Color.BLUE]),
    ([Key, Telepod, Beacon], [Color.GREEN]),
    ([Wall, Floor, Exit, MovingObstacle], [Color.NONE]),
    ([Wall, Floor, Exit, Beacon], ALL_COLORS),
    ([Beacon, Floor], [Color.BLUE, Color.GREEN]),
    ([NoneGridObject, Floor, Key], [Color.RED]),
    (
        [Floor, Wall, Exit, Door, Key, MovingObstacle, Telepod, Beacon],
        ALL_COLORS,
    ),
]
OBSERVATION_ONLY_CONFIGS = [
    ([Floor, Wall, Box], [Color.RED]),
    ([Hidden, Floor, Door], [Color.YELLOW]),
    (list(ALL_TYPES), ALL_COLORS),
    ([], [Color.GREEN]),
]
GRID_SHAPES = [(2, 2), (2, 3), (3, 2), (3, 3), (4, 5), (6, 3), (7, 7)]
VIEW_SHAPES = [(2, 1), (1, 3), (2, 3), (3, 3), (3, 5), (4, 3), (7, 7), (2, 9)]


def part4_dict_representations():
    rnd = random.Random(1504)
    for types, colors in CONFIGS:
        full_colors = set(colors) | {Color.NONE}
        for shape in GRID_SHAPES:
            space = StateSpace(Shape(*shape), types, colors)
            grid_objects = all_instances(types, full_colors)
            held_objects = all_instances(
                set(types) | {NoneGridObject}, full_colors
            )
            exhaustive = shape[0] * shape[1] <= 9
            for name in REP_NAMES:
                rep = make_state_representation(name, space)
                check_factory_structure('state', name, rep, space)
                declared, gym_space = check_dict_spaces(
                    'state', name, rep, types, full_colors, shape
                )
                positions = [
                    (y, x) for y in range(shape[0]) for x in range(shape[1])
                ]
                poses = [
                    (p, o, held)
                    for p in positions
                    for o in ORIENTATION_INDEX
                    for held in held_objects
                ]
                if not exhaustive:
                    corners = [
                        pose
                        for pose in poses
                        if pose[0][0] in (0, shape[0] - 1)
                        and pose[0][1] in (0, shape[1] - 1)
                    ]
                    poses = corners + rnd.sample(poses, min(60, len(poses)))
                for (y, x), orientation, held in poses:
                    state = State(
                        random_grid(rnd, shape, grid_objects),
                        Agent(Position(y, x), orientation, held),
                    )
                    assert space.contains(state)
                    expected = ref_state_dict(name, types, full_colors, state)
                    check_converted(
                        'state',
                        name,
                        rep.convert(state),
                        expected,
                        declared,
                        gym_space,
                        (name, shape, (y, x), orientation, held),
                    )

    for types, colors in CONFIGS + OBSERVATION_ONLY_CONFIGS:
        full_colors = set(colors) | {Color.NONE}
        for shape in VIEW_SHAPES:
            space = ObservationSpace(Shape(*shape), types, colors)
            grid_objects = all_instances(set(types) | {Hidden}, full_colors)
            held_objects = all_instances(
                set(types) | {NoneGridObject}, full_colors
            )
            exhaustive = shape[0] * shape[1] <= 9
            for name in REP_NAMES:
                rep = make_observation_representation(name, space)
                check_factory_structure('observation', name, rep, space)
                declared, gym_space = check_dict_spaces(
                    'observation', name, rep, types, full_colors, shape
                )
                positions = [
                    (y, x) for y in range(shape[0]) for x in range(shape[1])
                ]
                poses = [
                    (p, o, held)
                    for p in positions
                    for o in (Orientation.F, Orientation.L)
                    for held in held_objects
                ]
                if not exhaustive:
                    default_pose = (
                        space.agent_position.y,
                        space.agent_position.x,
                    )
                    poses = [
                        pose for pose in poses if pose[0] == default_pose
                    ] + rnd.sample(poses, min(40, len(poses)))
                for (y, x), orientation, held in poses:
                    observation = Observation(
                        random_grid(rnd, shape, grid_objects),
                        Agent(Position(y, x), orientation, held),
                    )
                    assert space.contains(observation)
                    expected = ref_observation_dict(
                        name, types, full_colors, observation
                    )
                    check_converted(
                        'observation',
                        name,
                        rep.convert(observation),
                        expected,
                        declared,
                        gym_space,
                        (name, shape, (y, x), held),
                    )


def part4b_factory_errors():
    state_space = StateSpace(Shape(3, 3), [Floor, Wall], [Color.RED])
    observation_space = ObservationSpace(Shape(3, 3), [Floor, Wall], [Color.RED])
    for bad in ('', 'Default', 'nooverlap', 'no_overlap', 'COMPACT', 'default ', None, 0):
        for factory, space in (
            (make_state_representation, state_space),
            (make_observation_representation, observation_space),
        ):
            try:
                factory(bad, space)
            except ValueError as error:
                assert str(error) == f'invalid name {bad}', str(error)
                feed(str(error))
            else:
                raise AssertionError(('expected ValueError', bad))

    # even widths are refused for views
    for shape in [(2, 2), (3, 4), (1, 6)]:
        try:
            ObservationSpace(Shape(*shape), [Floor], [])
        except ValueError as error:
            assert str(error) == 'shape should have an odd width'
        else:
            raise AssertionError('expected ValueError')

    # state spaces with non-representable types
    for types in ([Box], [Hidden], [Floor, Box, Wall], [Hidden, Floor]):
        space = StateSpace(Shape(3, 3), types, [])
        assert not space.can_be_represented
        for name in REP_NAMES + ('bogus',):
            try:
                make_state_representation(name, space)
            except ValueError as error:
                expected = (
                    'invalid name bogus'
                    if name == 'bogus'
                    else 'state space contains objects which cannot be represented in state'
                )
                assert str(error) == expected, (name, str(error))
                feed(str(error))
            else:
                raise AssertionError(('expected ValueError', types, name))

    # state space without any object type
    space = StateSpace(Shape(2, 2), [], [Color.RED])
    for name in REP_NAMES:
        if name == 'compact':
            try:
                make_state_representation(name, space)
            except ValueError:
                feed('empty compact')
            else:
                raise AssertionError('expected ValueError')
        else:
            rep = make_state_representation(name, space)
            check_dict_spaces('state', name, rep, [], {Color.NONE, Color.RED}, (2, 2))

    # debug mode: states outside of the space are refused
    rep = make_state_representation('default', state_space)
    bad_state = State(
        Grid.from_shape((3, 3), factory=lambda: Key(Color.RED)),
        Agent(Position(0, 0), Orientation.F),
    )
    try:
        rep.convert(bad_state)
    except ValueError as error:
        assert str(error) == 'state-space does not contain state'
    else:
        raise AssertionError('expected ValueError')
    orep = make_observation_representation('compact', observation_space)
    bad_observation = Observation(
        Grid.from_shape((3, 3), factory=lambda: Key(Color.RED)),
        Agent(Position(2, 1), Orientation.F),
    )
    try:
        orep.convert(bad_observation)
    except ValueError as error:
        assert str(error) == 'observation-space does not contain observation'
    else:
        raise AssertionError('expected ValueError')


# ---------------------------------------------------------------------------
# part 5: trajectories of all shipped configurations (own mini YAML reader)
# ---------------------------------------------------------------------------


def _scalar(text):
    text = text.strip()
    if text.startswith('['):
        quoted = re.sub(r'[A-Za-z_][A-Za-z_0-9]*', lambda m: repr(m.group(0)), text)
        value = ast.literal_eval(quoted)

        def fix(v):
            if isinstance(v, list):
                return [fix(u) for u in v]
            return _scalar(v) if isinstance(v, str) else v

        return fix(value)
    if text in ('True', 'true'):
        return True
    if text in ('False', 'false'):
        return False
    try:
        return int(text)
    except ValueError:
        pass
    try:
        return float(text)
    except ValueError:
        pass
    return text


def mini_yaml(text):
    """reads the tiny YAML subset used by the shipped configuration files"""
    lines = []
    for raw in text.splitlines():
        raw = raw.split('#', 1)[0].rstrip()
        if raw.strip():
            lines.append((len(raw) - len(raw.lstrip()), raw.strip()))

    def parse_block(pos, indent):
        if lines[pos][1].startswith('- '):
            return parse_sequence(pos, indent)
        return parse_mapping(pos, indent)

    def parse_mapping(pos, indent):
        result = {}
        while pos < len(lines) and lines[pos][0] == indent and not lines[pos][1].startswith('- '):
            key, _, rest = lines[pos][1].partition(':')
            pos += 1
            if rest.strip():
                result[key.strip()] = _scalar(rest)
            else:
                assert lines[pos][0] >= indent
                result[key.strip()], pos = parse_block(pos, lines[pos][0])
        return result, pos

    def parse_sequence(pos, indent):
        result = []
        while pos < len(lines) and lines[pos][0] == indent and lines[pos][1].startswith('- '):
            item = lines[pos][1][2:].strip()
            if re.match(r'^[A-Za-z_][A-Za-z_0-9]*\s*:', item):
                # mapping item: rewrite the first line as a mapping line
                lines[pos] = (indent + 2, item)
                value, pos = parse_mapping(pos, indent + 2)
                result.append(value)
            else:
                result.append(_scalar(item))
                pos += 1
        return result, pos

    value, pos = parse_block(0, lines[0][0])
    assert pos == len(lines), (pos, len(lines))
    return value


def ref_env_types(data, key):
    by_name = {cls.__name__: cls for cls in ALL_TYPES}
    types = [by_name[n] for n in data[key]['objects']]
    colors = {Color[n] for n in data[key]['colors']} | {Color.NONE}
    return types, colors


def part5_trajectories():
    paths = sorted(glob.glob('gym_gridverse/registered_envs/*.yaml'))
    assert len(paths) == 21, paths
    action_rnd = random.Random(1505)
    for path in paths:
        with open(path) as f:
            text = f.read()
        data = mini_yaml(text)
        state_types, state_colors = ref_env_types(data, 'state_space')
        obs_types, obs_colors = ref_env_types(data, 'observation_space')
        for name in REP_NAMES:
            # NOTE the factory consumes its input, hence re-parse
            inner = factory_env_from_data(mini_yaml(text))
            outer = OuterEnv(
                inner,
                state_representation=make_state_representation(
                    name, inner.state_space
                ),
                observation_representation=make_observation_representation(
                    name, inner.observation_space
                ),
            )
            env = GymEnvironment(outer)
            state_shape = inner.state_space.grid_shape.as_tuple
            obs_shape = inner.observation_space.grid_shape.as_tuple
            assert inner.state_space.object_types == state_types
            assert inner.state_space.colors == state_colors
            assert inner.observation_space.object_types == obs_types
            assert inner.observation_space.colors == obs_colors
            assert obs_shape[1] % 2 == 1

            state_declared = outer.state_representation.space
            obs_declared = outer.observation_representation.space
            ref_state_spaces = ref_dict_space(
                'state', name, state_types, state_colors, state_shape
            )
            ref_obs_spaces = ref_dict_space(
                'observation', name, obs_types, obs_colors, obs_shape
            )
            check_gym_space(
                env.state_space, state_declared, ref_state_spaces, (path, name)
            )
            check_gym_space(
                env.observation_space, obs_declared, ref_obs_spaces, (path, name)
            )
            assert type(env.action_space) is gym.spaces.Discrete
            assert env.action_space.n == inner.action_space.num_actions

            # switching representations through the gym layer
            other = REP_NAMES[(REP_NAMES.index(name) + 1) % 3]
            env.set_state_representation(other)
            env.set_observation_representation(other)
            check_gym_space(
                env.state_space,
                outer.state_representation.space,
                ref_dict_space('state', other, state_types, state_colors, state_shape),
                (path, other),
            )
            check_gym_space(
                env.observation_space,
                outer.observation_representation.space,
                ref_dict_space('observation', other, obs_types, obs_colors, obs_shape),
                (path, other),
            )
            check_factory_structure(
                'state', other, outer.state_representation, inner.state_space
            )
            check_factory_structure(
                'observation',
                other,
                outer.observation_representation,
                inner.observation_space,
            )
            env.set_state_representation(name)
            env.set_observation_representation(name)
            state_declared = outer.state_representation.space
            obs_declared = outer.observation_representation.space

            for seed in (0, 1, 7):
                inner.set_seed(seed)
                obs = env.reset()
                for step in range(40):
                    what = (path, name, seed, step)
                    check_converted(
                        'trajectory observation',
                        name,
                        obs,
                        ref_observation_dict(
                            name, obs_types, obs_colors, inner.observation
                        ),
                        obs_declared,
                        env.observation_space,
                        what,
                    )
                    check_converted(
                        'trajectory state',
                        name,
                        env.state,
                        ref_state_dict(
                            name, state_types, state_colors, inner.state
                        ),
                        state_declared,
                        env.state_space,
                        what,
                    )
                    action = action_rnd.randrange(env.action_space.n)
                    obs, reward, done, info = env.step(action)
                    feed(float(reward), bool(done))
                    if done:
                        obs = env.reset()


def part5b_optional_representations():
    """gym layer when representations are missing / added later"""
    with open('gym_gridverse/registered_envs/gv_keydoor.5x5.yaml') as f:
        text = f.read()
    data = mini_yaml(text)
    state_types, state_colors = ref_env_types(data, 'state_space')
    obs_types, obs_colors = ref_env_types(data, 'observation_space')

    def expect_runtime_error(f, message):
        try:
            f()
        except RuntimeError as error:
            assert str(error) == message, str(error)
        else:
            raise AssertionError(('expected RuntimeError', message))

    for with_state, with_observation in itertools.product([False, True], repeat=2):
        for name in REP_NAMES:
            inner = factory_env_from_data(mini_yaml(text))
            state_shape = inner.state_space.grid_shape.as_tuple
            obs_shape = inner.observation_space.grid_shape.as_tuple
            kwargs = {}
            if with_state:
                kwargs['state_representation'] = make_state_representation(
                    name, inner.state_space
                )
            if with_observation:
                kwargs[
                    'observation_representation'
                ] = make_observation_representation(
                    name, inner.observation_space
                )
            outer = OuterEnv(inner, **kwargs)
            env = GymEnvironment(outer)
            assert type(env.action_space) is gym.spaces.Discrete
            assert env.action_space.n == inner.action_space.num_actions == 8
            inner.set_seed(3)
            outer.reset()
            ref_state_spaces = ref_dict_space(
                'state', name, state_types, state_colors, state_shape
            )
            ref_obs_spaces = ref_dict_space(
                'observation', name, obs_types, obs_colors, obs_shape
            )
            if with_state:
                check_gym_space(
                    env.state_space,
                    outer.state_representation.space,
                    ref_state_spaces,
                    ('5b', name),
                )
                assert env.state_space.contains(env.state)
            else:
                assert env.state_space is None
                expect_runtime_error(
                    lambda: env.state, 'State representation not available'
                )
            if with_observation:
                check_gym_space(
                    env.observation_space,
                    outer.observation_representation.space,
                    ref_obs_spaces,
                    ('5b', name),
                )
                assert env.observation_space.contains(env.observation)
            else:
                assert env.observation_space is None
                expect_runtime_error(
                    lambda: env.observation,
                    'Observation representation not available',
                )
            # representations can be added afterwards
            env.set_state_representation(name)
            env.set_observation_representation(name)
            check_gym_space(
                env.state_space,
                outer.state_representation.space,
                ref_state_spaces,
                ('5b+', name),
            )
            check_gym_space(
                env.observation_space,
                outer.observation_representation.space,
                ref_obs_spaces,
                ('5b+', name),
            )
            assert env.state_space.contains(env.state)
            assert env.observation_space.contains(env.observation)
            count('optional representation cases')

    # plain dictionaries of spaces, arbitrary keys and key orders
    spaces = {
        'z': Space.make_continuous_space(np.array([-1.5, 0.0]), np.array([0.5, 2.0])),
        'a': Space.make_discrete_space(np.array([[-3, 0]]), np.array([[4, 0]])),
        'm': Space.make_categorical_space(np.array([2, 7, 1])),
    }
    gym_space = outer_space_to_gym_space(spaces)
    assert type(gym_space) is gym.spaces.Dict
    assert list(gym_space.spaces) == ['a', 'm', 'z']
    for key, dtype in (('z', np.float64), ('a', np.int64), ('m', np.int64)):
        box = gym_space.spaces[key]
        assert type(box) is gym.spaces.Box and box.dtype == dtype
        assert box.low.dtype == dtype and box.high.dtype == dtype
        assert np.array_equal(box.low, spaces[key].lower_bound)
        assert np.array_equal(box.high, spaces[key].upper_bound)
        assert box.shape == spaces[key].shape
        feed(key, box.low, box.high)
    assert list(spaces) == ['z', 'a', 'm']
    empty = outer_space_to_gym_space({})
    assert type(empty) is gym.spaces.Dict and len(empty.spaces) == 0


def main(expected_digest=None):
    import time

    check_tables()
    for part in (
        part1_object_reps,
        part2_helper_functions,
        part3_space_class,
        part4_dict_representations,
        part4b_factory_errors,
        part5_trajectories,
        part5b_optional_representations,
    ):
        start = time.time()
        part()
        print(f'{part.__name__}: done in {time.time() - start:.1f}s')
    digest = _digest.hexdigest()
    for what in sorted(_counts):
        print(f'{what:>36}: {_counts[what]}')
    print('digest', digest)
    if expected_digest is not None:
        assert digest == expected_digest, (
            'outputs differ from the recorded reference outputs'
        )
    print(f'OK ({FOCUS})')


# recorded on the pristine tree (deterministic: all inputs are seeded)
EXPECTED_DIGEST = (
    '85bc520ca56da83852a8a3d8a37bcd52ab9a9d8647447ec0588af9c0e7e3560f'
)

if __name__ == '__main__':
    main(EXPECTED_DIGEST)
