import copy
import functools
import glob
import importlib
import inspect
import itertools
import os
import sys

sys.path.insert(0, os.getcwd())
sys.path.insert(0, os.path.join(os.getcwd(), 'examples'))  # for coin_env

import numpy as np
from schema import SchemaError

import gym_gridverse.grid_object as grid_object_module
from gym_gridverse.action import Action
from gym_gridverse.envs import (
    observation_functions as observation_fs,
    reset_functions as reset_fs,
    reward_functions as reward_fs,
    terminating_functions as terminating_fs,
    transition_functions as transition_fs,
    visibility_functions as visibility_fs,
)
from gym_gridverse.envs.gridworld import GridWorld
from gym_gridverse.envs.yaml import factory as yaml_factory
from gym_gridverse.envs.yaml.schemas import schemas
from gym_gridverse.geometry import Area, Position, Shape
from gym_gridverse.grid_object import Color
from gym_gridverse.rng import get_gv_rng, reset_gv_rng
from gym_gridverse.spaces import ActionSpace, ObservationSpace, StateSpace

CHECKS = 0


def check(condition, *info):
    global CHECKS
    CHECKS += 1
    if not condition:
        print('CHECK FAILED:', *info)
        raise SystemExit(1)


def raises(exception_types, function, *args, **kwargs):
    """returns the exception raised by the call (None if it does not raise)"""
    try:
        function(*args, **kwargs)
    except exception_types as error:  # noqa
        return error
    return None

# ---------------------------------------------------------------------------
# minimal YAML reader (PyYAML is not available): supports exactly the subset
# used by the shipped configuration files -- block mappings, block sequences
# (of scalars or mappings), nested flow sequences, and plain scalars.
# ---------------------------------------------------------------------------


def _yaml_scalar(text):
    text = text.strip()
    if text in ('True', 'true'):
        return True
    if text in ('False', 'false'):
        return False
    if text in ('null', '~', ''):
        return None
    try:
        return int(text)
    except ValueError:
        pass
    try:
        return float(text)
    except ValueError:
        pass
    if len(text) >= 2 and text[0] == text[-1] and text[0] in '\'"':
        return text[1:-1]
    return text


def _yaml_flow(text):
    """parses a (nested) flow sequence such as `[ [ -6, 0 ], [-3, 3 ] ]`"""
    pos = 0

    def skip():
        nonlocal pos
        while pos < len(text) and text[pos] in ' \t':
            pos += 1

    def value():
        nonlocal pos
        skip()
        if text[pos] == '[':
            pos += 1
            items = []
            skip()
            if text[pos] == ']':
                pos += 1
                return items
            while True:
                items.append(value())
                skip()
                if text[pos] == ',':
                    pos += 1
                    continue
                assert text[pos] == ']', text
                pos += 1
                return items
        start = pos
        while pos < len(text) and text[pos] not in ',]':
            pos += 1
        return _yaml_scalar(text[start:pos])

    result = value()
    skip()
    assert pos == len(text), text
    return result


def _yaml_value(text):
    text = text.strip()
    return _yaml_flow(text) if text.startswith('[') else _yaml_scalar(text)


def mini_yaml_load(text):
    lines = []
    for raw in text.splitlines():
        if '#' in raw:
            raw = raw[: raw.index('#')]
        if raw.strip():
            assert '\t' not in raw
            lines.append((len(raw) - len(raw.lstrip(' ')), raw.strip()))

    def block(i, indent):
        """parses the block starting at line i, with the given indentation"""
        assert lines[i][0] == indent
        if lines[i][1].startswith('- ') or lines[i][1] == '-':
            items = []
            while i < len(lines) and lines[i][0] == indent:
                content = lines[i][1]
                assert content.startswith('-')
                rest = content[1:]
                inner = rest.lstrip(' ')
                inner_indent = indent + 1 + (len(rest) - len(inner))
                if ':' in inner and not inner.startswith('['):
                    # mapping item: re-interpret the line as a mapping line
                    lines[i] = (inner_indent, inner)
                    item, i = block(i, inner_indent)
                else:
                    item, i = _yaml_value(inner), i + 1
                items.append(item)
            assert i == len(lines) or lines[i][0] < indent
            return items, i

        mapping = {}
        while i < len(lines) and lines[i][0] == indent:
            content = lines[i][1]
            key, _, rest = content.partition(':')
            assert _ == ':' and (rest == '' or rest[0] == ' '), content
            key = _yaml_scalar(key)
            assert key not in mapping
            if rest.strip():
                mapping[key], i = _yaml_value(rest), i + 1
            else:
                child_indent = lines[i + 1][0]
                assert child_indent > indent or (
                    child_indent == indent and lines[i + 1][1].startswith('-')
                )
                mapping[key], i = block(i + 1, child_indent)
        assert i == len(lines) or lines[i][0] < indent, lines[i]
        return mapping, i

    data, end = block(0, lines[0][0])
    assert end == len(lines)
    return data

# ---------------------------------------------------------------------------
# shipped configurations
# ---------------------------------------------------------------------------


def load_shipped_configs():
    """returns {path: data} for every shipped configuration file"""
    paths = (
        sorted(glob.glob('yaml/*.yaml'))
        + sorted(glob.glob('gym_gridverse/registered_envs/*.yaml'))
        + sorted(glob.glob('examples/*.yaml'))
    )
    check(len(paths) == 43, 'unexpected number of configuration files', paths)
    configs = {}
    for path in paths:
        with open(path) as f:
            configs[path] = mini_yaml_load(f.read())
    return configs


# ---------------------------------------------------------------------------
# independent `by hand` assembly of an environment from named components
# ---------------------------------------------------------------------------

# kind -> (registry, number of positional protocol parameters)
KINDS = {
    'reset': (reset_fs.reset_function_registry, 0),
    'transition': (transition_fs.transition_function_registry, 2),
    'reward': (reward_fs.reward_function_registry, 3),
    'terminating': (terminating_fs.terminating_function_registry, 3),
    'observation': (observation_fs.observation_function_registry, 1),
    'visibility': (visibility_fs.visibility_function_registry, 2),
}

DISTANCES = {
    'manhattan': Position.manhattan_distance,
    'euclidean': Position.euclidean_distance,
}


def hand_accepted_parameters(kind, function):
    """(required, optional) parameter names, excluding protocol parameters"""
    _, num_positional = KINDS[kind]
    parameters = list(inspect.signature(function).parameters.values())
    required, optional = [], []
    for parameter in parameters[num_positional:]:
        if parameter.name == 'rng':
            continue
        if parameter.default is inspect.Parameter.empty:
            required.append(parameter.name)
        else:
            optional.append(parameter.name)
    return required, optional


def hand_object_type(name):
    if ':' in name:
        module_name, name = name.split(':')
        return getattr(importlib.import_module(module_name), name)
    return getattr(grid_object_module, name)


def hand_parameter(key, value):
    """python value of a configuration parameter"""
    if key == 'transition_functions':
        return [hand_component('transition', v) for v in value]
    if key == 'reward_functions':
        return [hand_component('reward', v) for v in value]
    if key == 'terminating_functions':
        return [hand_component('terminating', v) for v in value]
    if key == 'reward_function':
        return hand_component('reward', value)
    if key == 'visibility_function':
        return hand_component('visibility', value)
    if key == 'distance_function':
        return DISTANCES[value]
    if key == 'shape':
        height, width = value
        return Shape(height, width)
    if key == 'layout':
        return (value[0], value[1])
    if key == 'area':
        (ymin, ymax), (xmin, xmax) = value
        return Area((ymin, ymax), (xmin, xmax))
    if key == 'object_type':
        return getattr(grid_object_module, value)
    if key == 'colors':
        return {getattr(Color, name) for name in value}
    return value


def hand_component(kind, spec):
    """the named function with the accepted parameters bound (others ignored)"""
    registry, _ = KINDS[kind]
    name = spec['name']
    if ':' in name:
        module_name, name = name.split(':')
        importlib.import_module(module_name)
    function = registry.data[name]
    required, optional = hand_accepted_parameters(kind, function)
    bound = {
        key: hand_parameter(key, value)
        for key, value in spec.items()
        if key != 'name' and key in required + optional
    }
    assert all(key in bound for key in required), (kind, spec)
    return functools.partial(function, **bound)


def hand_env(data):
    """assembles the environment described by `data` by hand"""
    reset_function = hand_component('reset', data['reset_function'])
    transition_function = functools.partial(
        transition_fs.chain,
        transition_functions=[
            hand_component('transition', spec)
            for spec in data['transition_functions']
        ],
    )
    reward_function = functools.partial(
        reward_fs.reduce_sum,
        reward_functions=[
            hand_component('reward', spec) for spec in data['reward_functions']
        ],
    )
    observation_function = hand_component(
        'observation', data['observation_function']
    )
    terminating_function = hand_component(
        'terminating', data['terminating_function']
    )

    if 'action_space' in data:
        actions = [getattr(Action, name) for name in data['action_space']]
    else:
        actions = list(Action)

    # the shapes are those of an initial state and of its observation
    state = reset_function()
    observation = observation_function(state)

    state_space = StateSpace(
        state.grid.shape,
        [hand_object_type(name) for name in data['state_space']['objects']],
        [getattr(Color, name) for name in data['state_space']['colors']],
    )
    observation_space = ObservationSpace(
        observation.grid.shape,
        [
            hand_object_type(name)
            for name in data['observation_space']['objects']
        ],
        [getattr(Color, name) for name in data['observation_space']['colors']],
    )
    return GridWorld(
        state_space,
        ActionSpace(actions),
        observation_space,
        reset_function,
        transition_function,
        observation_function,
        reward_function,
        terminating_function,
    )


# ---------------------------------------------------------------------------
# behavioural comparison of two environments
# ---------------------------------------------------------------------------


def rng_state(rng):
    return repr(rng.bit_generator.state)


def space_signature(space):
    return (
        type(space).__name__,
        space.grid_shape,
        list(space.object_types),
        set(space.colors),
    )


def check_same_spaces(env, ref, info):
    check(
        space_signature(env.state_space) == space_signature(ref.state_space),
        'state space',
        info,
    )
    check(
        space_signature(env.observation_space)
        == space_signature(ref.observation_space),
        'observation space',
        info,
    )
    check(
        list(env.action_space.actions) == list(ref.action_space.actions),
        'action space',
        info,
    )


def check_same_behaviour(env, ref, seeds, num_steps, info):
    """same trajectories (and same random draws) under the same seeds/actions"""
    actions = list(ref.action_space.actions)
    for seed in seeds:
        env.set_seed(seed)
        ref.set_seed(seed)
        env.reset()
        ref.reset()
        action_rng = np.random.default_rng(1000 + seed)
        for t in range(num_steps):
            check(env.state == ref.state, 'state', info, seed, t)
            check(env.observation == ref.observation, 'obs', info, seed, t)
            check(env.state_space.contains(env.state), 'contains', info)
            check(
                env.observation_space.contains(env.observation),
                'obs contains',
                info,
            )
            action = actions[action_rng.integers(len(actions))]
            reward, done = env.step(action)
            ref_reward, ref_done = ref.step(action)
            check(
                reward == ref_reward and type(reward) is type(ref_reward),
                'reward',
                info,
                seed,
                t,
                reward,
                ref_reward,
            )
            check(done is ref_done or done == ref_done, 'done', info, seed, t)
            check(
                rng_state(env._rng) == rng_state(ref._rng),
                'rng consumption',
                info,
                seed,
                t,
            )
            if done:
                env.reset()
                ref.reset()
        check(env.state == ref.state, 'final state', info, seed)
    # actions outside of the action space are rejected by both
    for action in Action:
        if action not in actions:
            check(
                raises(ValueError, env.step, action) is not None,
                'action outside of action space',
                info,
                action,
            )


def check_config_builds_described_env(path, data, seeds, num_steps):
    """factory_env_from_data(data) == by-hand assembly;  data untouched"""
    pristine = copy.deepcopy(data)

    schemas['env'].validate(data)
    check(data == pristine, 'validation changed the data', path)

    reset_gv_rng(12345)
    env = yaml_factory.factory_env_from_data(data)
    rng_after_factory = rng_state(get_gv_rng())
    check(data == pristine, 'building changed the data', path)
    check(repr(data) == repr(pristine), 'building changed the data', path)

    reset_gv_rng(12345)
    ref = hand_env(pristine)
    check(
        rng_after_factory == rng_state(get_gv_rng()),
        'library-level random draws while building',
        path,
    )

    check(type(env) is GridWorld, path)
    check_same_spaces(env, ref, path)
    check_same_behaviour(env, ref, seeds, num_steps, path)

    # repeatable
    env2 = yaml_factory.factory_env_from_data(data)
    check(data == pristine, 'rebuilding changed the data', path)
    check_same_spaces(env2, ref, path)
    check_same_behaviour(env2, ref, seeds[:1], num_steps, path)
    return env


# ---------------------------------------------------------------------------
# packaged copies and gym registration
# ---------------------------------------------------------------------------


def check_packaging_and_registration():
    import gym

    import gym_gridverse.gym as gv_gym

    names = sorted(os.listdir('yaml'))
    check(names == sorted(os.listdir('gym_gridverse/registered_envs')), names)
    for name in names:
        with open(os.path.join('yaml', name), 'rb') as f:
            shipped = f.read()
        with open(os.path.join('gym_gridverse/registered_envs', name), 'rb') as f:
            packaged = f.read()
        check(shipped == packaged, 'packaged copy differs', name)

    check(sorted(gv_gym.STRING_TO_YAML_FILE.values()) == names)
    check(gv_gym.env_ids == list(gv_gym.STRING_TO_YAML_FILE.keys()))
    registered = [k for k in gym.envs.registry.keys() if k.startswith('GV-')]
    check(sorted(registered) == sorted(gv_gym.env_ids), registered)
    for env_id, name in gv_gym.STRING_TO_YAML_FILE.items():
        spec = gym.spec(env_id)
        check(spec.entry_point == 'gym_gridverse.gym:from_factory', env_id)
        factory = spec.kwargs['factory']
        check(factory.func is gv_gym.outer_env_factory, env_id)
        check(len(factory.args) == 1 and not factory.keywords, env_id)
        expected = os.path.join(
            os.getcwd(), 'gym_gridverse', 'registered_envs', name
        )
        check(
            os.path.realpath(factory.args[0]) == os.path.realpath(expected),
            env_id,
            factory.args,
        )


# ---------------------------------------------------------------------------
# systematic corruptions of a configuration:  all must be rejected
# ---------------------------------------------------------------------------

CHILD_LISTS = {
    'transition_functions': 'transition',
    'reward_functions': 'reward',
    'terminating_functions': 'terminating',
}
CHILD_ITEMS = {'reward_function': 'reward', 'visibility_function': 'visibility'}


def component_specs(data):
    """yields (kind, path) of every component spec in the configuration"""

    def walk(kind, path, spec):
        yield kind, path
        for key, value in spec.items():
            if key in CHILD_LISTS:
                for i, child in enumerate(value):
                    yield from walk(CHILD_LISTS[key], path + (key, i), child)
            elif key in CHILD_ITEMS:
                yield from walk(CHILD_ITEMS[key], path + (key,), value)

    yield from walk('reset', ('reset_function',), data['reset_function'])
    for i, spec in enumerate(data['transition_functions']):
        yield from walk('transition', ('transition_functions', i), spec)
    for i, spec in enumerate(data['reward_functions']):
        yield from walk('reward', ('reward_functions', i), spec)
    yield from walk(
        'observation', ('observation_function',), data['observation_function']
    )
    yield from walk(
        'terminating', ('terminating_function',), data['terminating_function']
    )


def get_path(data, path):
    for key in path:
        data = data[key]
    return data


BAD_SHAPES = [[0, 5], [5, 0], [-3, 5], [5], [], [5, 5, 5], ['a', 5], [5.0, 5], 'x', 7, None]
BAD_COLORS = [['PURPLE'], ['RED', 'PURPLE'], [], ['RED', 'RED'], 'RED', [1], None, ['red']]
BAD_ACTIONS = [['JUMP'], [], ['TURN_LEFT', 'TURN_LEFT'], 'TURN_LEFT', [0], None, ['turn_left']]
BAD_OBJECTS = [['Nope'], [], ['Wall', 'Wall'], 'Wall', [3], None]


def corruptions(data):
    """yields (description, corrupted deep copy, expected exception types)"""

    def corrupted(path, mutate):
        new = copy.deepcopy(data)
        mutate(get_path(new, path))
        return new

    both = (SchemaError, ValueError)

    # top-level structure
    for key in list(data):
        if key != 'action_space':
            yield f'no {key}', corrupted((), lambda d: d.pop(key)), (SchemaError,)
    yield 'extra key', corrupted((), lambda d: d.update(extra=1)), (SchemaError,)
    for key in ('transition_functions', 'reward_functions'):
        yield f'empty {key}', corrupted((), lambda d: d.update({key: []})), (SchemaError,)

    # spaces
    for space in ('state_space', 'observation_space'):
        for bad in BAD_COLORS:
            yield f'{space} colors {bad}', corrupted((space,), lambda d: d.update(colors=bad)), (SchemaError,)
        for bad in BAD_OBJECTS:
            yield f'{space} objects {bad}', corrupted((space,), lambda d: d.update(objects=bad)), both
        yield f'{space} extra', corrupted((space,), lambda d: d.update(shape=[3, 3])), (SchemaError,)
        yield f'{space} no colors', corrupted((space,), lambda d: d.pop('colors')), (SchemaError,)
    for bad in BAD_ACTIONS:
        yield f'actions {bad}', corrupted((), lambda d: d.update(action_space=bad)), (SchemaError,)

    # components
    for kind, path in component_specs(data):
        spec = get_path(data, path)
        yield f'{path} unknown name', corrupted(path, lambda d: d.update(name='no_such_function')), (ValueError,)
        yield f'{path} unknown module', corrupted(path, lambda d: d.update(name='no_such_module_xyz:f')), (ImportError,)
        yield f'{path} no name', corrupted(path, lambda d: d.pop('name')), (SchemaError,)
        yield f'{path} name not str', corrupted(path, lambda d: d.update(name=3)), (SchemaError,)

        name = spec['name']
        if ':' in name:
            module_name, name = name.split(':')
            importlib.import_module(module_name)
        function = KINDS[kind][0].data[name]
        required, _ = hand_accepted_parameters(kind, function)
        for key in required:
            yield f'{path} missing {key}', corrupted(path, lambda d: d.pop(key)), (ValueError,)

        # malformed reserved values are rejected wherever they appear (even if
        # the component would not accept the parameter)
        for bad in BAD_SHAPES:
            yield f'{path} shape {bad}', corrupted(path, lambda d: d.update(shape=bad)), (SchemaError,)
            yield f'{path} layout {bad}', corrupted(path, lambda d: d.update(layout=bad)), (SchemaError,)
        for bad in BAD_COLORS:
            yield f'{path} colors {bad}', corrupted(path, lambda d: d.update(colors=bad)), (SchemaError,)
        yield f'{path} object_type', corrupted(path, lambda d: d.update(object_type='Nope')), (ValueError,)
        yield f'{path} object_type 3', corrupted(path, lambda d: d.update(object_type=3)), (SchemaError,)
        yield f'{path} distance', corrupted(path, lambda d: d.update(distance_function='chebyshev')), (SchemaError,)
        for key, child_kind in CHILD_LISTS.items():
            yield f'{path} {key} []', corrupted(path, lambda d: d.update({key: []})), (SchemaError,)
            yield f'{path} {key} unknown', corrupted(path, lambda d: d.update({key: [{'name': 'no_such_function'}]})), (ValueError,)
            yield f'{path} {key} noname', corrupted(path, lambda d: d.update({key: [{'nome': 'x'}]})), (SchemaError,)
        yield f'{path} reward_function', corrupted(path, lambda d: d.update(reward_function={'name': 'no_such_function'})), (ValueError,)
        yield f'{path} reward_function 2', corrupted(path, lambda d: d.update(reward_function='living_reward')), (SchemaError,)
        yield f'{path} visibility_function', corrupted(path, lambda d: d.update(visibility_function={'name': 'no_such_function'})), (ValueError,)


def check_corruptions_rejected(path, data):
    count = 0
    for description, corrupted, expected in corruptions(data):
        pristine = copy.deepcopy(corrupted)
        error = raises(Exception, yaml_factory.factory_env_from_data, corrupted)
        check(
            error is not None and isinstance(error, expected),
            'corruption not rejected as expected',
            path,
            description,
            repr(error),
        )
        check(corrupted == pristine, 'rejection changed the data', path, description)
        count += 1
    return count


# ---------------------------------------------------------------------------
# specific to this refactoring:  process_reserved_keys
# ---------------------------------------------------------------------------

# order in which reserved keys are converted (observable through the state of
# the dictionary when a conversion fails)
PROCESS_ORDER = [
    'transition_functions',
    'reward_functions',
    'terminating_functions',
    'reward_function',
    'distance_function',
    'visibility_function',
    'shape',
    'layout',
    'area',
    'object_type',
    'colors',
]

GOOD_VALUES = {
    'transition_functions': [
        [{'name': 'move_agent'}],
        [{'name': 'turn_agent'}, {'name': 'teleport', 'shape': [3, 3]}],
        [
            {
                'name': 'chain',
                'transition_functions': [
                    {'name': 'pickndrop'},
                    {'name': 'actuate_door'},
                ],
            },
            {'name': 'move_obstacles'},
        ],
    ],
    'reward_functions': [
        [{'name': 'living_reward', 'reward': -0.5}],
        [
            {'name': 'reach_exit', 'reward_on': 2.0},
            {
                'name': 'getting_closer',
                'distance_function': 'euclidean',
                'object_type': 'Exit',
                'ignored': [1, 2],
            },
        ],
        [
            {
                'name': 'reduce_sum',
                'reward_functions': [
                    {'name': 'bump_into_wall'},
                    {'name': 'pickndrop', 'object_type': 'Key'},
                ],
            }
        ],
    ],
    'terminating_functions': [
        [{'name': 'reach_exit'}],
        [
            {'name': 'bump_into_wall'},
            {
                'name': 'reduce_all',
                'terminating_functions': [
                    {'name': 'overlap', 'object_type': 'Beacon'},
                    {'name': 'bump_moving_obstacle'},
                ],
            },
        ],
    ],
    'reward_function': [
        {'name': 'living_reward'},
        {'name': 'overlap', 'object_type': 'Telepod', 'reward_off': -1.0},
    ],
    'distance_function': ['manhattan', 'euclidean'],
    'visibility_function': [
        {'name': 'fully_transparent'},
        {'name': 'raytracing', 'absolute_counts': False, 'threshold': 0.5},
    ],
    'shape': [[5, 7], [1, 1], (3, 4)],
    'layout': [[2, 3], (1, 1)],
    'area': [[[-6, 0], [-3, 3]], [(0, 0), (0, 0)], ((-1, 1), [-2, 2])],
    'object_type': ['Exit', 'Wall', 'MovingObstacle', 'Beacon'],
    'colors': [['RED'], ['NONE', 'BLUE', 'YELLOW'], ['GREEN', 'RED']],
}

# (value, type of the exception raised when converting it)
BAD_VALUES = {
    'transition_functions': ([{'name': 'no_such_function'}], ValueError),
    'reward_functions': ([{'name': 'living_reward'}, {'nome': 3}], SchemaError),
    'terminating_functions': ([{'name': 'overlap'}], ValueError),
    'reward_function': ({'name': 'no_such_function'}, ValueError),
    'distance_function': ('chebyshev', SchemaError),
    'visibility_function': ({'name': 'no_such_function'}, ValueError),
    'shape': ([1, 2, 3], TypeError),
    'layout': (5, TypeError),
    'area': ([[0, 1]], TypeError),
    'object_type': ('Nope', ValueError),
    'colors': (['PURPLE'], SchemaError),
}


def expected_value(key, value):
    """independent conversion of the value of a reserved key"""
    if key in ('shape',):
        return Shape(value[0], value[1])
    if key == 'layout':
        return (value[0], value[1])
    if key == 'area':
        return Area(value[0], value[1])
    return hand_parameter(key, value)


def same_value(a, b):
    """structural equality which looks inside partial functions"""
    if isinstance(a, functools.partial) or isinstance(b, functools.partial):
        return (
            type(a) is type(b)
            and a.func is b.func
            and a.args == b.args == ()
            and list(a.keywords) == list(b.keywords)
            and all(same_value(a.keywords[k], b.keywords[k]) for k in a.keywords)
        )
    if isinstance(a, list) or isinstance(b, list):
        return (
            type(a) is type(b)
            and len(a) == len(b)
            and all(same_value(x, y) for x, y in zip(a, b))
        )
    return type(a) is type(b) and a == b


def check_process_reserved_keys():
    rng = np.random.default_rng(7)

    # single keys, all good values, surrounded by non-reserved keys
    for key, values in GOOD_VALUES.items():
        for value in values:
            marker = object()
            other = [1, 2, 3]
            data = {'first': marker, key: copy.deepcopy(value), 'last': other}
            result = yaml_factory.process_reserved_keys(data)
            check(result is None, key)
            check(list(data) == ['first', key, 'last'], key)
            check(data['first'] is marker and data['last'] is other, key)
            check(same_value(data[key], expected_value(key, value)), key, value, data[key])

    # all subsets of the reserved keys, in shuffled key orders
    num_subsets = 0
    for mask in range(2 ** len(PROCESS_ORDER)):
        keys = [k for i, k in enumerate(PROCESS_ORDER) if mask >> i & 1]
        keys += ['reward', 'num_rivers', 'name']  # not reserved
        keys = [keys[i] for i in rng.permutation(len(keys))]
        raw = {}
        for key in keys:
            if key in GOOD_VALUES:
                values = GOOD_VALUES[key]
                raw[key] = copy.deepcopy(values[rng.integers(len(values))])
            else:
                raw[key] = {'shape': [0, 0], 'key': key}  # left untouched
        data = dict(raw)
        yaml_factory.process_reserved_keys(data)
        check(list(data) == keys, keys)
        for key in keys:
            if key in GOOD_VALUES:
                check(same_value(data[key], expected_value(key, raw[key])), key, raw[key], data[key])
            else:
                check(data[key] is raw[key], key)
                check(data[key] == {'shape': [0, 0], 'key': key}, key)
        num_subsets += 1

    # failures:  the keys are converted in PROCESS_ORDER, so that when a
    # conversion fails the keys before have been converted, the others not
    for bad_keys in itertools.chain(
        itertools.combinations(PROCESS_ORDER, 1),
        itertools.combinations(PROCESS_ORDER, 2),
        itertools.combinations(PROCESS_ORDER, 3),
    ):
        raw = {}
        # reversed key order:  the dictionary order is not what matters
        for key in reversed(PROCESS_ORDER):
            raw[key] = copy.deepcopy(
                BAD_VALUES[key][0] if key in bad_keys else GOOD_VALUES[key][0]
            )
        data = dict(raw)
        error = raises(Exception, yaml_factory.process_reserved_keys, data)
        first_bad = min(bad_keys, key=PROCESS_ORDER.index)
        check(isinstance(error, BAD_VALUES[first_bad][1]), bad_keys, repr(error))
        check(list(data) == list(raw), bad_keys)
        for key in PROCESS_ORDER:
            if PROCESS_ORDER.index(key) < PROCESS_ORDER.index(first_bad):
                check(same_value(data[key], expected_value(key, raw[key])), bad_keys, key)
            else:
                check(data[key] is raw[key], bad_keys, key, data[key])

    # the empty dictionary, and dictionaries without reserved keys
    for data in ({}, {'name': 'x'}, {'shapes': [1, 2], 'colour': ['RED']}):
        before = copy.deepcopy(data)
        check(yaml_factory.process_reserved_keys(data) is None)
        check(data == before)
    return num_subsets


def check_component_factories_use_reserved_keys():
    """factory_*_function(data) == by-hand component, data untouched"""
    factories = {
        'reset': yaml_factory.factory_reset_function,
        'transition': yaml_factory.factory_transition_function,
        'reward': yaml_factory.factory_reward_function,
        'terminating': yaml_factory.factory_terminating_function,
        'observation': yaml_factory.factory_observation_function,
        'visibility': yaml_factory.factory_visibility_function,
    }
    specs = [
        ('reset', {'name': 'empty', 'shape': [4, 6], 'random_agent': True, 'layout': [2, 2]}),
        ('reset', {'name': 'rooms', 'layout': [2, 3], 'shape': [7, 10], 'colors': ['RED']}),
        ('reset', {'name': 'crossing', 'shape': [7, 7], 'num_rivers': 2, 'object_type': 'Wall'}),
        ('reset', {'name': 'memory', 'colors': ['RED', 'BLUE'], 'shape': [5, 5]}),
        ('reset', {'name': 'memory_rooms', 'shape': [10, 10], 'layout': [3, 3], 'colors': ['GREEN', 'YELLOW'], 'num_beacons': 2, 'num_exits': 3}),
        ('reset', {'name': 'dynamic_obstacles', 'shape': [6, 6], 'num_obstacles': 2, 'object_type': 'Key'}),
        ('transition', {'name': 'chain', 'transition_functions': GOOD_VALUES['transition_functions'][2], 'shape': [2, 2]}),
        ('reward', {'name': 'reduce_sum', 'reward_functions': GOOD_VALUES['reward_functions'][1], 'reward_function': {'name': 'living_reward'}}),
        ('reward', {'name': 'proportional_to_distance', 'object_type': 'Exit', 'distance_function': 'euclidean', 'area': [[0, 1], [0, 1]]}),
        ('reward', {'name': 'getting_closer_shortest_path', 'object_type': 'Exit', 'distance_function': 'manhattan'}),
        ('terminating', {'name': 'reduce_any', 'terminating_functions': GOOD_VALUES['terminating_functions'][1]}),
        ('observation', {'name': 'from_visibility', 'area': [[-4, 0], [-2, 2]], 'visibility_function': {'name': 'raytracing', 'threshold': 2}}),
        ('observation', {'name': 'partially_occluded', 'area': [[-6, 0], [-3, 3]], 'visibility_function': {'name': 'fully_transparent'}}),
        ('visibility', {'name': 'raytracing', 'absolute_counts': False, 'threshold': 0.3, 'colors': ['RED']}),
    ]
    for kind, spec in specs:
        pristine = copy.deepcopy(spec)
        component = factories[kind](spec)
        check(spec == pristine and repr(spec) == repr(pristine), 'spec changed', kind, spec)
        reference = hand_component(kind, pristine)
        check(component.func is reference.func, kind, spec)
        check(list(component.keywords) == list(reference.keywords), kind, spec, component.keywords)
        for key in component.keywords:
            a, b = component.keywords[key], reference.keywords[key]
            if key == 'area':
                check((tuple(a.ys), tuple(a.xs)) == (tuple(b.ys), tuple(b.xs)), kind, spec)
            else:
                check(same_value(a, b), kind, spec, key, a, b)
    return len(specs)


if __name__ == '__main__':
    num_subsets = check_process_reserved_keys()
    num_specs = check_component_factories_use_reserved_keys()
    check_packaging_and_registration()
    configs = load_shipped_configs()
    num_corruptions = 0
    for path, data in configs.items():
        check_config_builds_described_env(path, data, seeds=[0, 1, 2], num_steps=40)
        if not path.startswith('gym_gridverse'):  # packaged copies are identical
            num_corruptions += check_corruptions_rejected(path, data)
    print(
        f'demo A: ok ({len(configs)} configurations, {num_corruptions} corruptions, '
        f'{num_subsets} reserved-key subsets, {num_specs} component specs, {CHECKS} checks)'
    )
