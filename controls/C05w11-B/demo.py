"""Demo for change B (Orientation * Area through the rotated corners).

Runs on the pristine tree and on the patched tree; exits 0 on both.

Part 1 compares ``Orientation * Area`` / ``Transform * Area`` with a
closed-form table and with a brute-force denotation (the set of rotated cells)
embedded here, checks the group laws, result types, hashing, reflected
operands and extreme coordinates.

Part 2 checks property C05 end to end (observations are sound) for all the
built-in observation functions, all agent poses and many view areas.
"""
import copy
import itertools as itt
import os
import sys

sys.path.insert(0, os.getcwd())

import numpy.random as rnd  # noqa: E402

from gym_gridverse.agent import Agent  # noqa: E402
from gym_gridverse.envs import observation_functions as ofs  # noqa: E402
from gym_gridverse.geometry import (  # noqa: E402
    Area,
    Orientation,
    Position,
    Shape,
    Transform,
)
from gym_gridverse.grid import Grid  # noqa: E402
from gym_gridverse.grid_object import (  # noqa: E402
    Beacon,
    Box,
    Color,
    Door,
    Exit,
    Floor,
    Hidden,
    Key,
    MovingObstacle,
    NoneGridObject,
    Telepod,
    Wall,
)
from gym_gridverse.state import State  # noqa: E402

CHECKS = 0


def check(condition, message):
    global CHECKS
    CHECKS += 1
    if not condition:
        print('FAIL:', message)
        sys.exit(1)


PALETTE = [
    Floor,
    Floor,
    Floor,
    Wall,
    Wall,
    lambda: Exit(),
    lambda: Exit(Color.GREEN),
    lambda: Door(Door.Status.OPEN, Color.RED),
    lambda: Door(Door.Status.CLOSED, Color.BLUE),
    lambda: Door(Door.Status.LOCKED, Color.NONE),
    lambda: Key(Color.YELLOW),
    lambda: Key(Color.NONE),
    MovingObstacle,
    lambda: Box(Key(Color.RED)),
    lambda: Telepod(Color.GREEN),
    lambda: Beacon(Color.BLUE),
    Hidden,  # a world may legally contain Hidden cells too
]


def random_grid(height, width, rng):
    return Grid(
        [
            [PALETTE[rng.integers(len(PALETTE))]() for _ in range(width)]
            for _ in range(height)
        ]
    )


# ---------------------------------------------------------------------------
# reference implementations (embedded, independent of the library helpers)
# ---------------------------------------------------------------------------


def rotate(orientation, y, x):
    """position (y, x) relative to the agent -> offset in the world frame"""
    if orientation is Orientation.F:
        return y, x
    if orientation is Orientation.B:
        return -y, -x
    if orientation is Orientation.R:
        return x, -y
    if orientation is Orientation.L:
        return -x, y
    raise AssertionError


def reference_subgrid(grid, ys, xs):
    """per-cell denotation of subgrid: None stands for `outside the grid`"""
    height, width = len(grid.objects), len(grid.objects[0])
    return [
        [
            grid.objects[y][x] if 0 <= y < height and 0 <= x < width else None
            for x in range(xs[0], xs[1] + 1)
        ]
        for y in range(ys[0], ys[1] + 1)
    ]


def reference_view(grid, agent_y, agent_x, orientation, ys, xs):
    """world object (or None if outside the grid) for each cell of the view"""
    height, width = len(grid.objects), len(grid.objects[0])
    rows = []
    for vy in range(ys[0], ys[1] + 1):
        row = []
        for vx in range(xs[0], xs[1] + 1):
            dy, dx = rotate(orientation, vy, vx)
            wy, wx = agent_y + dy, agent_x + dx
            inside = 0 <= wy < height and 0 <= wx < width
            row.append(grid.objects[wy][wx] if inside else None)
        rows.append(row)
    return rows


# ---------------------------------------------------------------------------
# part 1: rotations and rigid transforms of areas against references
# ---------------------------------------------------------------------------


def reference_rotate_area(orientation, ys, xs):
    """closed-form table (ys, xs) -> (ys, xs) of the rotated area"""
    (ymin, ymax), (xmin, xmax) = ys, xs
    if orientation is Orientation.F:
        return (ymin, ymax), (xmin, xmax)
    if orientation is Orientation.B:
        return (-ymax, -ymin), (-xmax, -xmin)
    if orientation is Orientation.R:
        return (xmin, xmax), (-ymax, -ymin)
    if orientation is Orientation.L:
        return (-xmax, -xmin), (ymin, ymax)
    raise AssertionError


def is_plain_int_pair(pair):
    return (
        type(pair) is tuple
        and len(pair) == 2
        and all(type(v) is int for v in pair)
    )


def check_area_rotation(ys, xs, *, brute_force):
    area = Area(ys, xs)
    for orientation in Orientation:
        rotated = orientation * area
        exp_ys, exp_xs = reference_rotate_area(orientation, ys, xs)
        where = f'{orientation.name} * {area}'

        check(type(rotated) is Area, f'type of {where}')
        check(
            rotated.ys == exp_ys and rotated.xs == exp_xs,
            f'{where} = {rotated}, expected ys={exp_ys} xs={exp_xs}',
        )
        check(
            is_plain_int_pair(rotated.ys) and is_plain_int_pair(rotated.xs),
            f'{where} must hold plain int pairs',
        )
        check(rotated == Area(exp_ys, exp_xs), f'equality of {where}')
        check(hash(rotated) == hash(Area(exp_ys, exp_xs)), f'hash of {where}')
        check(area * orientation == rotated, f'reflected operand of {where}')
        check(area == Area(ys, xs), f'operand modified by {where}')

        # extents swap on quarter turns and are kept on half turns
        quarter = orientation in (Orientation.L, Orientation.R)
        check(
            (rotated.height, rotated.width)
            == ((area.width, area.height) if quarter else (area.height, area.width)),
            f'extent of {where}',
        )

        # group laws
        check(-orientation * rotated == area, f'inverse of {where}')
        for other in Orientation:
            check(
                (other * orientation) * area == other * rotated,
                f'composition {other.name} with {where}',
            )

        if brute_force:
            # denotation:  the rotated area is exactly the set of rotated cells
            cells = {
                rotate(orientation, y, x)
                for y in range(ys[0], ys[1] + 1)
                for x in range(xs[0], xs[1] + 1)
            }
            rotated_cells = {p.yx for p in rotated.positions()}
            check(cells == rotated_cells, f'cells of {where}')
            check(
                all(
                    rotated.contains(orientation * Position(y, x))
                    for y in range(ys[0], ys[1] + 1)
                    for x in range(xs[0], xs[1] + 1)
                ),
                f'rotated positions lie in {where}',
            )

        # rigid transforms:  rotate, then translate
        for ty, tx in [(0, 0), (3, -2), (-7, 11)]:
            transform = Transform(Position(ty, tx), orientation)
            moved = transform * area
            check(type(moved) is Area, f'type of transform of {where}')
            check(
                moved.ys == (exp_ys[0] + ty, exp_ys[1] + ty)
                and moved.xs == (exp_xs[0] + tx, exp_xs[1] + tx),
                f'transform {(ty, tx)} of {where}',
            )
            check(area * transform == moved, 'reflected transform')
            check(-transform * moved == area, 'inverse transform')
            agent = Agent(Position(ty, tx), orientation)
            check(agent.transform * area == moved, 'agent transform')


def part1():
    values = range(-4, 5)
    ranges = [(a, b) for a in values for b in values if a <= b]
    for ys, xs in itt.product(ranges, ranges):
        check_area_rotation(
            ys, xs, brute_force=(ys[1] - ys[0] <= 3 and xs[1] - xs[0] <= 4)
        )

    # extreme but legal parameters
    big = 10**12
    for ys, xs in [
        ((-big, big), (0, 0)),
        ((big, big + 1), (-big - 5, -big)),
        ((0, 0), (0, 0)),
        ((-1, -1), (2**63, 2**64)),
    ]:
        check_area_rotation(ys, xs, brute_force=False)

    # hard-coded expectations
    area = Area((-6, 0), (-3, 3))
    check(Orientation.F * area == Area((-6, 0), (-3, 3)), 'hard-coded F')
    check(Orientation.B * area == Area((0, 6), (-3, 3)), 'hard-coded B')
    check(Orientation.R * area == Area((-3, 3), (0, 6)), 'hard-coded R')
    check(Orientation.L * area == Area((-3, 3), (-6, 0)), 'hard-coded L')
    area = Area((-2, 1), (3, 7))
    check(Orientation.B * area == Area((-1, 2), (-7, -3)), 'hard-coded B2')
    check(Orientation.R * area == Area((3, 7), (-1, 2)), 'hard-coded R2')
    check(Orientation.L * area == Area((-7, -3), (-2, 1)), 'hard-coded L2')
    check(
        Transform(Position(5, 5), Orientation.L) * area
        == Area((-2, 2), (3, 6)),
        'hard-coded transform',
    )

    # the other operand types of the operator are untouched
    for orientation in Orientation:
        check(
            (orientation * Position(2, -5)).yx == rotate(orientation, 2, -5),
            'position rotation',
        )
        check(orientation * Orientation.F is orientation, 'identity')
        for bad in [None, 3, (0, 1), 'area', Shape(2, 3)]:
            try:
                orientation * bad
            except TypeError:
                pass
            else:
                check(False, f'{orientation} * {bad!r} should raise TypeError')
    # invalid areas are still rejected at construction
    for ys, xs in [((1, 0), (0, 0)), ((0, 0), (5, 4))]:
        try:
            Area(ys, xs)
        except ValueError:
            pass
        else:
            check(False, f'Area({ys}, {xs}) should raise ValueError')


# ---------------------------------------------------------------------------
# part 2: property C05 end to end
# ---------------------------------------------------------------------------

# view areas (ys, xs) relative to the agent: x to the right, y backward
AREAS_ANY = [
    ((0, 0), (0, 0)),
    ((-6, 0), (-3, 3)),  # the usual minigrid view
    ((-2, 0), (-1, 3)),  # asymmetric
    ((-1, 0), (0, 0)),
    ((0, 0), (-2, 1)),
    ((-9, 0), (-8, 9)),  # much larger than the grids
    ((-3, 0), (0, 4)),
]
AREAS_WITH_BACK = [
    ((-2, 2), (-2, 2)),
    ((-1, 3), (-4, 1)),  # asymmetric, sees behind
    ((0, 2), (0, 0)),
]
AREAS_WITHOUT_AGENT = [
    ((-4, -2), (1, 3)),  # does not contain the agent
    ((2, 3), (-5, -4)),
    ((-8, -8), (-8, -8)),
]


def functions_for(ys, xs):
    """built-in observation functions that are defined on the area"""
    names = ['fully_transparent']
    contains_agent = ys[0] <= 0 <= ys[1] and xs[0] <= 0 <= xs[1]
    if ys[1] == 0:
        names.append('partially_occluded')
    if contains_agent:
        names.append('raytracing')
        names.append('stochastic_raytracing')
    return names


def check_observation(state, ys, xs, name, rng, snapshot):
    area = Area(ys, xs)
    function = ofs.observation_function_registry[name]
    observation = function(state, area=area, rng=rng)

    agent = state.agent
    where = (
        f'{name} grid={state.grid.shape.as_tuple} '
        f'agent={agent.position.yx} {agent.orientation.name} area={area}'
    )

    height, width = ys[1] - ys[0] + 1, xs[1] - xs[0] + 1
    check(
        observation.grid.shape == Shape(height, width), f'shape wrong: {where}'
    )
    check(
        len(observation.grid.objects) == height
        and all(len(row) == width for row in observation.grid.objects),
        f'rows wrong: {where}',
    )
    check(
        observation.agent.position == Position(-ys[0], -xs[0]),
        f'anchor wrong: {where}',
    )
    check(
        observation.agent.orientation is Orientation.F,
        f'heading wrong: {where}',
    )
    check(
        observation.agent.grid_object is agent.grid_object,
        f'held item wrong: {where}',
    )

    expected = reference_view(
        state.grid,
        agent.position.y,
        agent.position.x,
        agent.orientation,
        ys,
        xs,
    )
    for i, j in itt.product(range(height), range(width)):
        obj = observation.grid.objects[i][j]
        exp = expected[i][j]
        if exp is None:
            check(type(obj) is Hidden, f'outside cell {(i, j)} shown: {where}')
        elif name == 'fully_transparent':
            check(obj is exp, f'cell {(i, j)} not the world object: {where}')
        else:
            check(
                type(obj) is Hidden or obj is exp,
                f'cell {(i, j)} shows something that is not there: {where}',
            )
            check(
                type(obj) is Hidden or obj == exp,
                f'cell {(i, j)} differs from the world: {where}',
            )

    # the state is left alone
    check(
        all(
            a is b
            for row, snap in zip(state.grid.objects, snapshot)
            for a, b in zip(row, snap)
        ),
        f'state grid modified: {where}',
    )
    return observation


SHAPES = [(1, 1), (1, 4), (3, 1), (2, 3), (4, 6), (5, 5)]


def part2():
    rng = rnd.default_rng(5)
    held_items = [None, Key(Color.BLUE), Box(Floor())]
    for n, (height, width) in enumerate(SHAPES):
        grid = random_grid(height, width, rng)
        snapshot = [list(row) for row in grid.objects]
        frozen = copy.deepcopy(grid)
        for y, x, orientation in itt.product(
            range(height), range(width), Orientation
        ):
            held = held_items[(y + x + n) % len(held_items)]
            agent = Agent(Position(y, x), orientation, held)
            if held is None:
                check(
                    isinstance(agent.grid_object, NoneGridObject), 'no item'
                )
            state = State(grid, agent)
            for ys, xs in AREAS_ANY + AREAS_WITH_BACK + AREAS_WITHOUT_AGENT:
                for name in functions_for(ys, xs):
                    seeds = [0, 1] if name == 'stochastic_raytracing' else [0]
                    for seed in seeds:
                        first = check_observation(
                            state, ys, xs, name, rnd.default_rng(seed), snapshot
                        )
                        # re-seeding reproduces the observation
                        second = check_observation(
                            state, ys, xs, name, rnd.default_rng(seed), snapshot
                        )
                        check(
                            first.grid == second.grid
                            and first.agent == second.agent,
                            f're-seeded call differs: {name} {ys} {xs}',
                        )
            check(
                agent.position == Position(y, x)
                and agent.orientation is orientation,
                'agent modified',
            )
        check(grid == frozen, 'grid modified')

    # hard-coded expectation:  agent in the corner of a 2x3 grid, facing right
    grid = Grid(
        [
            [Wall(), Floor(), Key(Color.RED)],
            [Exit(), Door(Door.Status.OPEN, Color.BLUE), Floor()],
        ]
    )
    state = State(grid, Agent(Position(1, 2), Orientation.R, Key(Color.GREEN)))
    observation = ofs.fully_transparent(state, area=Area((-1, 0), (-1, 2)))
    expected = Grid(
        [
            [Hidden(), Hidden(), Hidden(), Hidden()],
            [Key(Color.RED), Floor(), Hidden(), Hidden()],
        ]
    )
    check(observation.grid == expected, 'hard-coded observation (R)')
    check(observation.agent.position == Position(1, 1), 'hard-coded anchor')
    check(observation.agent.grid_object == Key(Color.GREEN), 'hard-coded item')

    state = State(grid, Agent(Position(0, 0), Orientation.B))
    observation = ofs.fully_transparent(state, area=Area((-1, 1), (-1, 1)))
    expected = Grid(
        [
            [Door(Door.Status.OPEN, Color.BLUE), Exit(), Hidden()],
            [Floor(), Wall(), Hidden()],
            [Hidden(), Hidden(), Hidden()],
        ]
    )
    check(observation.grid == expected, 'hard-coded observation (B)')


if __name__ == '__main__':
    part1()
    part2()
    print(f'OK ({CHECKS} checks)')
