import copy
import itertools
import os
import pickle
import sys

sys.path.insert(0, os.getcwd())

import numpy as np  # noqa: E402

from gym_gridverse.action import Action  # noqa: E402
from gym_gridverse.agent import Agent  # noqa: E402
from gym_gridverse.debugging import reset_gv_debug  # noqa: E402
from gym_gridverse.envs.gridworld import GridWorld  # noqa: E402
from gym_gridverse.envs.inner_env import InnerEnv  # noqa: E402
from gym_gridverse.envs.yaml.factory import factory_env_from_data  # noqa: E402
from gym_gridverse.geometry import Orientation, Position, Shape  # noqa: E402
from gym_gridverse.grid import Grid  # noqa: E402
from gym_gridverse.grid_object import (  # noqa: E402
    Beacon,
    Color,
    Door,
    Exit,
    Floor,
    Hidden,
    Key,
    MovingObstacle,
    NoneGridObject,
    Telepod,
    Wall,
)
from gym_gridverse.observation import Observation  # noqa: E402
from gym_gridverse.outer_env import OuterEnv  # noqa: E402
from gym_gridverse.representations.observation_representations import (  # noqa: E402
    make_observation_representation,
)
from gym_gridverse.representations.state_representations import (  # noqa: E402
    make_state_representation,
)
from gym_gridverse.spaces import (  # noqa: E402
    ActionSpace,
    ObservationSpace,
    StateSpace,
)
from gym_gridverse.state import State  # noqa: E402

# ----------------------------------------------------------------------------
# configurations (python dicts equivalent to the shipped yaml files, plus
# non-square / unusual variants)
# ----------------------------------------------------------------------------

ALL_COLORS = ['NONE', 'RED', 'GREEN', 'BLUE', 'YELLOW']
SIX_ACTIONS = [
    'MOVE_FORWARD',
    'MOVE_BACKWARD',
    'MOVE_LEFT',
    'MOVE_RIGHT',
    'TURN_LEFT',
    'TURN_RIGHT',
]
REACH_EXIT_REWARDS = [
    {'name': 'reach_exit', 'reward_on': 5.0, 'reward_off': 0.0},
    {
        'name': 'getting_closer',
        'distance_function': 'manhattan',
        'object_type': 'Exit',
        'reward_closer': 0.2,
        'reward_further': -0.2,
    },
    {'name': 'living_reward', 'reward': -0.05},
]


def config(
    objects,
    colors,
    reset_function,
    *,
    transitions=('move_agent', 'turn_agent'),
    rewards=None,
    observation='partially_occluded',
    area=((-6, 0), (-3, 3)),
    terminating=None,
    actions=SIX_ACTIONS,
):
    data = {
        'state_space': {'objects': list(objects), 'colors': list(colors)},
        'observation_space': {
            'objects': list(objects),
            'colors': list(colors),
        },
        'reset_function': reset_function,
        'transition_functions': [{'name': name} for name in transitions],
        'reward_functions': copy.deepcopy(
            REACH_EXIT_REWARDS if rewards is None else rewards
        ),
        'observation_function': {
            'name': observation,
            'area': [list(area[0]), list(area[1])],
        },
        'terminating_function': (
            {'name': 'reach_exit'} if terminating is None else terminating
        ),
    }
    if actions is not None:
        data['action_space'] = list(actions)
    return data


def make_configs():
    wfe = ['Wall', 'Floor', 'Exit']
    memory_rewards = [
        {'name': 'reach_exit_memory', 'reward_good': 5.0, 'reward_bad': -5.0},
        {'name': 'living_reward', 'reward': -0.05},
    ]
    keydoor_rewards = REACH_EXIT_REWARDS[:1] + [
        {
            'name': 'pickndrop',
            'object_type': 'Key',
            'reward_pick': 1.0,
            'reward_drop': -1.0,
        },
        {'name': 'actuate_door', 'reward_open': 1.0, 'reward_close': -1.0},
    ] + REACH_EXIT_REWARDS[1:]
    obstacle_rewards = REACH_EXIT_REWARDS[:1] + [
        {'name': 'bump_moving_obstacle', 'reward': -1.0},
        {'name': 'bump_into_wall', 'reward': -1.0},
    ] + REACH_EXIT_REWARDS[1:]
    obstacle_terminating = {
        'name': 'reduce_any',
        'terminating_functions': [
            {'name': 'reach_exit'},
            {'name': 'bump_moving_obstacle'},
            {'name': 'bump_into_wall'},
        ],
    }

    configs = {}

    # shipped
    for h, w in [(4, 4), (8, 8)]:
        configs[f'empty.{h}x{w}'] = config(
            wfe,
            ['NONE'],
            {'name': 'empty', 'shape': [h, w], 'random_agent': True},
        )
    for h, w, rivers in [(5, 5, 1), (7, 7, 2)]:
        configs[f'crossing.{h}x{w}'] = config(
            wfe,
            ['NONE'],
            {
                'name': 'crossing',
                'shape': [h, w],
                'num_rivers': rivers,
                'object_type': 'Wall',
            },
        )
    for h, w, n in [(5, 5, 1), (7, 7, 2)]:
        configs[f'dynamic_obstacles.{h}x{w}'] = config(
            wfe + ['MovingObstacle'],
            ['NONE'],
            {
                'name': 'dynamic_obstacles',
                'shape': [h, w],
                'num_obstacles': n,
                'random_agent': False,
            },
            transitions=('move_agent', 'turn_agent', 'move_obstacles'),
            rewards=obstacle_rewards,
            terminating=obstacle_terminating,
        )
    for h, w, layout in [(7, 7, (2, 2)), (10, 10, (3, 3)), (13, 13, (3, 3))]:
        configs[f'rooms.{h}x{w}'] = config(
            wfe,
            ['NONE'],
            {'name': 'rooms', 'shape': [h, w], 'layout': list(layout)},
        )
    for h, w in [(5, 5), (7, 7), (9, 9)]:
        configs[f'keydoor.{h}x{w}'] = config(
            wfe + ['Door', 'Key'],
            ['NONE', 'YELLOW'],
            {'name': 'keydoor', 'shape': [h, w]},
            transitions=(
                'move_agent',
                'turn_agent',
                'actuate_door',
                'pickndrop',
            ),
            rewards=keydoor_rewards,
            actions=None,
        )
    for h, w in [(5, 5), (9, 9)]:
        configs[f'memory.{h}x{w}'] = config(
            wfe + ['Beacon'],
            ALL_COLORS,
            {
                'name': 'memory',
                'shape': [h, w],
                'colors': ['RED', 'GREEN', 'BLUE', 'YELLOW'],
            },
            rewards=memory_rewards,
        )
    for h, w, layout in [(7, 7, (2, 2)), (10, 10, (3, 3))]:
        configs[f'memory_rooms.{h}x{w}'] = config(
            wfe + ['Beacon'],
            ALL_COLORS,
            {
                'name': 'memory_rooms',
                'shape': [h, w],
                'layout': list(layout),
                'colors': ['RED', 'GREEN', 'BLUE', 'YELLOW'],
                'num_beacons': 1,
                'num_exits': 2,
            },
            rewards=memory_rewards,
        )
    for h, w in [(5, 5), (7, 7)]:
        configs[f'teleport.{h}x{w}'] = config(
            wfe + ['Telepod'],
            ['NONE', 'RED'],
            {'name': 'teleport', 'shape': [h, w]},
            transitions=('move_agent', 'turn_agent', 'teleport'),
        )

    # non-square worlds, other observation functions and areas
    configs['empty.4x9.raytracing'] = config(
        wfe,
        ['NONE'],
        {
            'name': 'empty',
            'shape': [4, 9],
            'random_agent': True,
            'random_exit': True,
        },
        observation='raytracing',
        area=((-4, 0), (-2, 2)),
    )
    configs['empty.9x4.stochastic'] = config(
        wfe,
        ['NONE'],
        {'name': 'empty', 'shape': [9, 4], 'random_agent': True},
        observation='stochastic_raytracing',
        area=((-3, 1), (-1, 1)),
    )
    configs['rooms.7x11.stochastic'] = config(
        wfe,
        ['NONE'],
        {'name': 'rooms', 'shape': [7, 11], 'layout': [2, 3]},
        observation='stochastic_raytracing',
    )
    configs['dynamic_obstacles.6x9.transparent'] = config(
        wfe + ['MovingObstacle'],
        ['NONE'],
        {
            'name': 'dynamic_obstacles',
            'shape': [6, 9],
            'num_obstacles': 3,
            'random_agent': True,
        },
        transitions=('move_agent', 'turn_agent', 'move_obstacles'),
        rewards=obstacle_rewards,
        terminating=obstacle_terminating,
        observation='fully_transparent',
        area=((-2, 2), (-2, 2)),
    )
    configs['keydoor.6x8.stochastic'] = config(
        wfe + ['Door', 'Key'],
        ['NONE', 'YELLOW'],
        {'name': 'keydoor', 'shape': [6, 8]},
        transitions=('move_agent', 'turn_agent', 'actuate_door', 'pickndrop'),
        rewards=keydoor_rewards,
        observation='stochastic_raytracing',
        area=((-5, 1), (-2, 2)),
        actions=None,
    )
    configs['crossing.7x9.single_cell_view'] = config(
        wfe,
        ['NONE'],
        {
            'name': 'crossing',
            'shape': [7, 9],
            'num_rivers': 2,
            'object_type': 'Wall',
        },
        area=((0, 0), (0, 0)),
    )
    configs['teleport.5x8.raytracing'] = config(
        wfe + ['Telepod'],
        ['NONE', 'RED'],
        {'name': 'teleport', 'shape': [5, 8]},
        transitions=('move_agent', 'turn_agent', 'teleport'),
        observation='raytracing',
    )
    return configs


# ----------------------------------------------------------------------------
# property C04: the stateful interface mirrors the functional one, and
# observations are never stale
# ----------------------------------------------------------------------------


def make_env(data) -> InnerEnv:
    """builds a new environment from a configuration dict (or a factory)"""
    if callable(data):
        return data()
    return factory_env_from_data(copy.deepcopy(data))


def rng_state(env):
    """bit-generator state of the environment rng (None if not seeded)"""
    rng = getattr(env, '_rng', None)
    return None if rng is None else repr(rng.bit_generator.state)


def count_observation_calls(env):
    """wraps the (public) functional_observation of this instance to count calls"""
    counter = {'n': 0}
    functional_observation = env.functional_observation

    def counting(state):
        counter['n'] += 1
        return functional_observation(state)

    env.functional_observation = counting
    return counter


def ref_default_grid(grid):
    """independent re-implementation of the default grid representation"""
    return np.array(
        [
            [
                [
                    grid.objects[y][x].type_index(),
                    grid.objects[y][x].state_index,
                    grid.objects[y][x].color.value,
                ]
                for x in range(grid.shape.width)
            ]
            for y in range(grid.shape.height)
        ],
        dtype=int,
    )


def ref_agent_id_grid(grid, agent):
    a = np.zeros((grid.shape.height, grid.shape.width), dtype=int)
    a[agent.position.y, agent.position.x] = 1
    return a


def ref_item(agent):
    o = agent.grid_object
    return np.array([o.type_index(), o.state_index, o.color.value])


def ref_default_state_representation(state):
    h, w = state.grid.shape.height, state.grid.shape.width
    agent = np.zeros(6)
    agent[0] = (2 * state.agent.position.y - h + 1) / (h - 1)
    agent[1] = (2 * state.agent.position.x - w + 1) / (w - 1)
    agent[2 + state.agent.orientation.value] = 1
    return {
        'grid': ref_default_grid(state.grid),
        'agent_id_grid': ref_agent_id_grid(state.grid, state.agent),
        'agent': agent,
        'item': ref_item(state.agent),
    }


def ref_default_observation_representation(observation):
    return {
        'grid': ref_default_grid(observation.grid),
        'agent_id_grid': ref_agent_id_grid(
            observation.grid, observation.agent
        ),
        'item': ref_item(observation.agent),
    }


def assert_dict_equal(d1, d2):
    assert d1.keys() == d2.keys(), (d1.keys(), d2.keys())
    for k in d1:
        assert d1[k].shape == d2[k].shape, k
        assert d1[k].dtype == d2[k].dtype, (k, d1[k].dtype, d2[k].dtype)
        assert np.array_equal(d1[k], d2[k]), k


def digest_update(digest, state, observation, reward, done):
    if state is not None:
        for v in ref_default_state_representation(state).values():
            digest.update(np.ascontiguousarray(v).tobytes())
    if observation is not None:
        for v in ref_default_observation_representation(observation).values():
            digest.update(np.ascontiguousarray(v).tobytes())
    digest.update(repr((reward, done)).encode())


def check_not_reset(env):
    """asking for the state (or observation) before the first reset raises"""
    for attr in ['state', 'observation']:
        try:
            getattr(env, attr)
        except RuntimeError:
            pass
        else:
            assert False, f'{attr} before reset should raise'


def run_episode(data, seed, plan, *, representation='default', digest=None):
    """drives a stateful env and a functional twin with the same seed

    `plan` is a list of (command, n_state_reads, n_observation_reads,
    n_outer_reads) where command is 'reset' or an Action;  after executing the
    command on both sides, the stateful env is read as prescribed, and
    everything observable is compared with the functional reference.
    """
    env = make_env(data)  # stateful
    ref = make_env(data)  # functional reference
    counter = count_observation_calls(env)

    state_repr = (
        make_state_representation(representation, env.state_space)
        if env.state_space.can_be_represented
        else None
    )
    observation_repr = make_observation_representation(
        representation, env.observation_space
    )
    outer = OuterEnv(
        env,
        state_representation=state_repr,
        observation_representation=observation_repr,
    )
    assert outer.action_space is env.action_space

    check_not_reset(env)
    for attr in ['state', 'observation']:
        try:
            getattr(outer, attr)
        except RuntimeError:
            pass
        else:
            assert False, f'outer {attr} before reset should raise'

    env.set_seed(seed)
    ref.set_seed(seed)
    check_not_reset(env)
    assert rng_state(env) == rng_state(ref)

    ref_state = None
    started = False
    done = None
    observation = None

    for index, (command, n_state, n_observation, n_outer) in enumerate(plan):
        prev_state = env.state if started else None
        prev_state_pickle = pickle.dumps(prev_state)
        prev_observation = observation  # None if it was never read

        if done and index % 2 == 0:
            command = 'reset'  # typical control loop

        if command == 'reset':
            result = outer.reset() if n_outer else env.reset()
            assert result is None
            ref_state = ref.functional_reset()
            reward, done = None, None
        else:
            assert started
            reward, done = (
                outer.step(command) if n_outer else env.step(command)
            )
            ref_state, ref_reward, ref_done = ref.functional_step(
                ref_state, command
            )
            assert type(reward) is type(ref_reward) and reward == ref_reward
            assert type(done) is type(ref_done) and done == ref_done
        started = True

        # neither reset nor step computes an observation or draws for one
        assert rng_state(env) == rng_state(ref)
        calls = counter['n']

        # the state is a fresh object equal to the functional one;  the
        # previous state was not modified by the step
        for _ in range(n_state):
            assert env.state is env.state
            assert env.state == ref_state
            assert env.state is not prev_state
            assert pickle.dumps(prev_state) == prev_state_pickle
        assert counter['n'] == calls  # reading the state computes nothing
        assert rng_state(env) == rng_state(ref)

        observation = None
        if n_observation or n_outer:
            ref_observation = ref.functional_observation(ref_state)

        reads = []
        for i in range(n_observation):
            reads.append(env.observation)
        outer_reads = []
        for i in range(n_outer):
            outer_reads.append(outer.observation)
            if state_repr is not None:
                outer_state = outer.state
                assert_dict_equal(outer_state, state_repr.convert(env.state))
                if representation == 'default':
                    assert_dict_equal(
                        outer_state,
                        ref_default_state_representation(ref_state),
                    )
                assert outer.state is not outer_state  # fresh arrays
        for i in range(n_observation):
            reads.append(env.observation)

        if n_observation or n_outer:
            # exactly one observation was computed for this state, it is the
            # one of the current state, and repeated reads return it
            assert counter['n'] == calls + 1, (counter['n'], calls)
            observation = env.observation
            assert counter['n'] == calls + 1
            assert all(o is observation for o in reads)
            assert observation is not prev_observation  # never stale
            assert observation == ref_observation
            assert rng_state(env) == rng_state(ref)
            for o in outer_reads:
                assert_dict_equal(o, observation_repr.convert(observation))
                if representation == 'default':
                    assert_dict_equal(
                        o,
                        ref_default_observation_representation(
                            ref_observation
                        ),
                    )
            if len(outer_reads) > 1:
                assert outer_reads[0] is not outer_reads[1]
        else:
            assert counter['n'] == calls

        assert env.state == ref_state
        if digest is not None:
            digest_update(digest, env.state, observation, reward, done)

    # both generators end in the same state, i.e. the stateful interface drew
    # exactly as many numbers as the functional one
    assert rng_state(env) == rng_state(ref)
    assert env.functional_reset() == ref.functional_reset()
    return env


def make_plan(rng, actions, length):
    """random plan with arbitrary read patterns and mid-way resets"""
    plan = [('reset', *read_pattern(rng))]
    for _ in range(length):
        if rng.random() < 0.08:
            plan.append(('reset', *read_pattern(rng)))
        else:
            action = actions[rng.integers(len(actions))]
            plan.append((action, *read_pattern(rng)))
    return plan


def read_pattern(rng):
    kind = rng.integers(6)
    if kind == 0:
        return (0, 0, 0)  # no reads at all
    if kind == 1:
        return (1, 0, 0)  # state only
    if kind == 2:
        return (0, 1, 0)  # one observation read
    if kind == 3:
        return (2, 3, 0)  # repeated reads
    if kind == 4:
        return (1, 0, 2)  # reads through the outer env only
    return (1, 2, 2)  # everything


def run_gym_episode(data, seed, actions, *, digest=None):
    """the gym interface (and the state wrapper) against the functional one"""
    from gym_gridverse.gym import GymEnvironment, GymStateWrapper

    env = make_env(data)
    ref = make_env(data)
    counter = count_observation_calls(env)
    state_repr = make_state_representation('default', env.state_space)
    observation_repr = make_observation_representation(
        'default', env.observation_space
    )
    gym_env = GymEnvironment(
        OuterEnv(
            env,
            state_representation=state_repr,
            observation_representation=observation_repr,
        )
    )
    wrapper = GymStateWrapper(gym_env)
    assert gym_env.action_space.n == env.action_space.num_actions

    env.set_seed(seed)
    ref.set_seed(seed)

    for episode in range(2):
        driver = gym_env if episode == 0 else wrapper
        first = driver.reset()
        ref_state = ref.functional_reset()
        ref_observation = ref.functional_observation(ref_state)
        assert counter['n'] == 1 + episode * (len(actions) + 1)
        expected_o = ref_default_observation_representation(ref_observation)
        expected_s = ref_default_state_representation(ref_state)
        assert_dict_equal(first, expected_o if episode == 0 else expected_s)
        assert_dict_equal(gym_env.observation, expected_o)
        assert_dict_equal(gym_env.state, expected_s)

        for i, action in enumerate(actions):
            calls = counter['n']
            result, reward, done, info = driver.step(action)
            ref_state, ref_reward, ref_done = ref.functional_step(
                ref_state, env.action_space.int_to_action(action)
            )
            ref_observation = ref.functional_observation(ref_state)
            expected_o = ref_default_observation_representation(
                ref_observation
            )
            expected_s = ref_default_state_representation(ref_state)
            assert (reward, done) == (ref_reward, ref_done)
            if episode == 0:
                assert info == {}
                assert_dict_equal(result, expected_o)
            else:
                assert_dict_equal(result, expected_s)
                assert_dict_equal(info['observation'], expected_o)
            # repeated reads: same values, nothing recomputed, nothing drawn
            for _ in range(i % 3):
                assert_dict_equal(gym_env.observation, expected_o)
                assert_dict_equal(wrapper.observation, expected_s)
                assert_dict_equal(gym_env.state, expected_s)
            assert counter['n'] == calls + 1
            assert rng_state(env) == rng_state(ref)
            assert env.state == ref_state
            assert env.observation == ref_observation
            if digest is not None:
                digest_update(
                    digest, env.state, env.observation, reward, done
                )


# ----------------------------------------------------------------------------
# change B: InnerEnv.set_state, used by reset and step
# ----------------------------------------------------------------------------


class ToyEnv(InnerEnv):
    """A minimal InnerEnv (not a GridWorld), to exercise the base class alone

    Everything is stochastic: reset, step and observation all draw from the
    rng, so that any extra or missing call shows up in the trajectories.
    """

    SHAPE = Shape(3, 5)  # non-square

    def __init__(self):
        super().__init__(
            StateSpace(self.SHAPE, [Floor, Wall], [Color.NONE]),
            ActionSpace(list(Action)),
            ObservationSpace(self.SHAPE, [Floor, Wall], [Color.NONE]),
        )
        self._rng = None
        self.calls = {'reset': 0, 'step': 0, 'observation': 0}

    def set_seed(self, seed=None):
        self._rng = np.random.default_rng(seed)

    def _grid(self):
        return Grid(
            [
                [
                    Wall() if self._rng.random() < 0.3 else Floor()
                    for _ in range(self.SHAPE.width)
                ]
                for _ in range(self.SHAPE.height)
            ]
        )

    def functional_reset(self):
        self.calls['reset'] += 1
        position = Position(
            int(self._rng.integers(self.SHAPE.height)),
            int(self._rng.integers(self.SHAPE.width)),
        )
        orientation = list(Orientation)[self._rng.integers(4)]
        return State(self._grid(), Agent(position, orientation))

    def functional_step(self, state, action):
        self.calls['step'] += 1
        next_state = pickle.loads(pickle.dumps(state))
        y = (state.agent.position.y + action.value) % self.SHAPE.height
        x = (state.agent.position.x + int(self._rng.integers(3))) % (
            self.SHAPE.width
        )
        next_state.agent.position = Position(y, x)
        next_state.grid[y, x] = Wall() if self._rng.random() < 0.5 else Floor()
        reward = float(self._rng.normal())
        done = bool(self._rng.random() < 0.15)
        return next_state, reward, done

    def functional_observation(self, state):
        self.calls['observation'] += 1
        grid = pickle.loads(pickle.dumps(state.grid))
        for y in range(self.SHAPE.height):
            for x in range(self.SHAPE.width):
                if self._rng.random() < 0.25:
                    grid[y, x] = Wall()
        return Observation(
            grid, Agent(state.agent.position, state.agent.orientation)
        )


def corner_states(env, rng):
    """hand-made states: agent at every corner / border, every orientation"""
    env.set_seed(int(rng.integers(1000)))
    base = env.functional_reset()
    h, w = base.grid.shape.height, base.grid.shape.width
    positions = [
        (0, 0),
        (0, w - 1),
        (h - 1, 0),
        (h - 1, w - 1),
        (0, w // 2),
        (h // 2, 0),
        (h - 2, w - 2),
        (1, 1),
    ]
    for (y, x), orientation in itertools.product(positions, Orientation):
        state = pickle.loads(pickle.dumps(base))
        state.agent.position = Position(y, x)
        state.agent.orientation = orientation
        if isinstance(env, GridWorld):
            state.grid[y, x] = Floor()
        yield state


def check_set_state(name, data, seed):
    """the new method, against the functional interface of a twin"""
    env = make_env(data)
    if not hasattr(env, 'set_state'):
        return 0

    ref = make_env(data)
    maker = make_env(data)
    counter = count_observation_calls(env)
    observation_repr = make_observation_representation(
        'default', env.observation_space
    )
    outer = OuterEnv(env, observation_representation=observation_repr)
    rng = np.random.default_rng(seed)
    actions = list(env.action_space.actions)
    n = 0

    env.set_seed(seed)
    ref.set_seed(seed)
    check_not_reset(env)

    previous_observation = None
    for i, state in enumerate(corner_states(maker, rng)):
        state_pickle = pickle.dumps(state)
        calls = counter['n']

        # works before the first reset;  stores the very object, computes and
        # draws nothing
        assert env.set_state(state) is None
        assert env.state is state and env.state is state
        assert counter['n'] == calls
        assert rng_state(env) == rng_state(ref)
        assert pickle.dumps(state) == state_pickle

        # the observation is the one of the given state, computed once, on
        # request only
        kind = i % 4
        if kind != 0:
            ref_observation = ref.functional_observation(state)
            if kind == 3:
                assert_dict_equal(
                    outer.observation,
                    ref_default_observation_representation(ref_observation),
                )
            observation = env.observation
            assert observation is env.observation
            assert observation == ref_observation
            assert observation is not previous_observation
            assert counter['n'] == calls + 1
            previous_observation = observation

            # setting the same (possibly modified in place) state again makes
            # the observation be computed again: never stale
            if kind == 2:
                state.agent.orientation = state.agent.orientation * Orientation.R
                env.set_state(state)
                assert counter['n'] == calls + 1
                ref_observation = ref.functional_observation(state)
                assert env.observation == ref_observation
                assert env.observation is not observation
                assert counter['n'] == calls + 2
                previous_observation = env.observation
        assert rng_state(env) == rng_state(ref)

        # stepping from the given state is the functional step from it, and
        # does not touch it
        state_pickle = pickle.dumps(state)
        action = actions[rng.integers(len(actions))]
        try:
            expected = ref.functional_step(state, action)
        except Exception as e:  # pylint: disable=broad-except
            expected = type(e)
        calls = counter['n']
        try:
            reward, done = env.step(action)
        except Exception as e:  # pylint: disable=broad-except
            assert type(e) is expected
            assert env.state is state  # a failed step changes nothing
        else:
            assert (reward, done) == expected[1:]
            assert env.state == expected[0]
            assert env.state is not state
            if previous_observation is not None and i % 2:
                assert env.observation is not previous_observation
                assert env.observation == ref.functional_observation(
                    expected[0]
                )
                previous_observation = env.observation
        assert pickle.dumps(state) == state_pickle
        assert rng_state(env) == rng_state(ref)
        n += 1

    # save / restore in the middle of an episode
    env.reset()
    ref_state = ref.functional_reset()
    assert env.state == ref_state
    saved = env.state
    saved_pickle = pickle.dumps(saved)
    saved_observation = env.observation
    assert saved_observation == ref.functional_observation(ref_state)
    for _ in range(5):
        action = actions[rng.integers(len(actions))]
        reward, done = env.step(action)
        ref_state, ref_reward, ref_done = ref.functional_step(ref_state, action)
        assert (reward, done) == (ref_reward, ref_done)
    assert pickle.dumps(saved) == saved_pickle
    env.set_state(saved)
    ref_state = saved
    assert env.state is saved
    observation = env.observation
    assert observation is not saved_observation
    assert observation == ref.functional_observation(saved)
    for _ in range(5):
        action = actions[rng.integers(len(actions))]
        reward, done = env.step(action)
        ref_state, ref_reward, ref_done = ref.functional_step(ref_state, action)
        assert (reward, done) == (ref_reward, ref_done)
        assert env.state == ref_state
        assert env.observation == ref.functional_observation(ref_state)
    assert pickle.dumps(saved) == saved_pickle
    assert rng_state(env) == rng_state(ref)

    # reset after set_state is a plain reset
    env.set_state(saved)
    env.reset()
    assert env.state == ref.functional_reset()
    assert env.state is not saved
    assert env.observation == ref.functional_observation(env.state)
    assert rng_state(env) == rng_state(ref)
    return n + 1


EXPECTED_DIGEST = (
    'bfa15c930046569acb389b95ab220c2d54bd4610fca90462f2a50fbaa9a1aa0b'
)  # recorded on the clean tree


def main():
    import hashlib

    reset_gv_debug(True)
    configs = dict(make_configs())
    configs['toy.3x5'] = ToyEnv
    digest = hashlib.sha256()

    n_steps = 0
    n_set_state = 0
    for k, (name, data) in enumerate(configs.items()):
        env = make_env(data)
        actions = list(env.action_space.actions)
        plan_rng = np.random.default_rng(2000 + k)
        for seed, representation in [
            (0, 'default'),
            (1, 'no-overlap'),
            (2, 'compact'),
            (7, 'default'),
            (10, 'default'),
            (1337, 'no-overlap'),
            (0xDEADBEEF, 'default'),
        ]:
            plan = make_plan(plan_rng, actions, 50)
            run_episode(
                data,
                seed,
                plan,
                representation=representation,
                digest=digest,
            )
            n_steps += len(plan)
        # every action once, with every read pattern;  and resets in a row
        for pattern in [
            (0, 0, 0),
            (1, 0, 0),
            (0, 1, 0),
            (2, 3, 0),
            (1, 0, 2),
            (1, 2, 2),
        ]:
            plan = (
                [('reset', *pattern)]
                + [(a, *pattern) for a in actions]
                + [('reset', *pattern), ('reset', 0, 0, 0), ('reset', *pattern)]
                + [(a, 0, 0, 0) for a in actions]
                + [(actions[0], *pattern)]
            )
            run_episode(data, 42, plan, digest=digest)
            n_steps += len(plan)

        # the gym interface
        gym_rng = np.random.default_rng(k)
        gym_actions = [int(a) for a in gym_rng.integers(len(actions), size=12)]
        run_gym_episode(data, 5 + k, gym_actions, digest=digest)
        n_steps += 2 * len(gym_actions)

        # a second environment in the same process shares nothing
        first = run_episode(data, 9, [('reset', 1, 1, 0)])
        second = run_episode(data, 9, [('reset', 1, 1, 0)])
        assert first.state == second.state and first.state is not second.state
        assert first.observation == second.observation
        assert first.observation is not second.observation

        for seed in [0, 1, 2]:
            n_set_state += check_set_state(name, data, seed)

    # the toy environment calls nothing more than needed
    toy = run_episode(
        ToyEnv,
        0,
        [('reset', 0, 0, 0)]
        + [(Action.MOVE_LEFT, 0, 2, 0)] * 3
        + [(Action.ACTUATE, 1, 0, 0)] * 2
        + [('reset', 0, 1, 0)],
    )
    assert toy.calls['observation'] <= 4, toy.calls

    # debugging off: same trajectories
    reset_gv_debug(False)
    for k, (name, data) in enumerate(configs.items()):
        env = make_env(data)
        actions = list(env.action_space.actions)
        plan = make_plan(np.random.default_rng(k), actions, 25)
        run_episode(data, 3, plan, digest=digest)
        n_steps += len(plan)
    reset_gv_debug(True)

    print(
        f'trajectory commands: {n_steps}, set_state checks: {n_set_state}'
        + ('' if n_set_state else ' (InnerEnv.set_state not available)')
    )
    print('digest', digest.hexdigest())
    if EXPECTED_DIGEST is not None:
        assert digest.hexdigest() == EXPECTED_DIGEST, 'trajectories changed'
    print('OK')


if __name__ == '__main__':
    main()
