#!/usr/bin/env python
"""C02 demo (change A): seeding through the outer layers.

Seeded environments are reproducible and isolated from every global RNG,
whichever layer the seed is given to (InnerEnv, OuterEnv, GymEnvironment).

Runs on the pristine tree and with the change applied: when
``OuterEnv.set_seed`` is missing, the documented equivalent
``outer.inner_env.set_seed`` is used (reference spelling).

Run from the worktree root:  /venv/bin/python _seed/A/demo.py
"""
import hashlib
import os
import random
import subprocess
import sys
import warnings

sys.path.insert(0, os.getcwd())
warnings.simplefilter('ignore')

import numpy as np  # noqa: E402
import numpy.random as rnd  # noqa: E402

import gym_gridverse.rng as gv_rng_module  # noqa: E402
from gym_gridverse.action import Action  # noqa: E402
from gym_gridverse.debugging import reset_gv_debug  # noqa: E402
from gym_gridverse.envs import observation_functions as observation_fs  # noqa: E402
from gym_gridverse.envs import reset_functions as reset_fs  # noqa: E402
from gym_gridverse.envs import reward_functions as reward_fs  # noqa: E402
from gym_gridverse.envs import terminating_functions as terminating_fs  # noqa: E402
from gym_gridverse.envs import transition_functions as transition_fs  # noqa: E402
from gym_gridverse.envs.gridworld import GridWorld  # noqa: E402
from gym_gridverse.geometry import Area, Shape  # noqa: E402
from gym_gridverse.grid_object import (  # noqa: E402
    Beacon,
    Color,
    Door,
    Exit,
    Floor,
    Key,
    MovingObstacle,
    Telepod,
    Wall,
)
from gym_gridverse.outer_env import OuterEnv  # noqa: E402
from gym_gridverse.representations.observation_representations import (  # noqa: E402
    make_observation_representation,
)
from gym_gridverse.representations.state_representations import (  # noqa: E402
    make_state_representation,
)
from gym_gridverse.spaces import (  # noqa: E402
    ActionSpace,
    ObservationSpace,
    StateSpace,
)
from gym_gridverse.utils.fast_copy import fast_copy  # noqa: E402

MOVES = [
    Action.MOVE_FORWARD,
    Action.MOVE_BACKWARD,
    Action.MOVE_LEFT,
    Action.MOVE_RIGHT,
    Action.TURN_LEFT,
    Action.TURN_RIGHT,
]

# ---------------------------------------------------------------------------
# configurations, built through the Python API only
# ---------------------------------------------------------------------------


def _tf(*names):
    return transition_fs.factory(
        'chain',
        transition_functions=[transition_fs.factory(name) for name in names],
    )


def _rf(*specs):
    return reward_fs.factory(
        'reduce_sum',
        reward_functions=[
            reward_fs.factory(name, **kwargs) for name, kwargs in specs
        ],
    )


def _term_any(*names):
    return terminating_fs.factory(
        'reduce_any',
        terminating_functions=[terminating_fs.factory(n) for n in names],
    )


CONFIGS = {
    # non-square, random agent / exit, stochastic observations, asymmetric view
    'empty_5x8_stochastic': dict(
        objects=[Wall, Floor, Exit],
        colors=[Color.NONE],
        actions=list(Action),
        reset=lambda: reset_fs.factory(
            'empty', shape=Shape(5, 8), random_agent=True, random_exit=True
        ),
        transition=lambda: _tf('move_agent', 'turn_agent'),
        reward=lambda: _rf(
            ('reach_exit', dict(reward_on=5.0, reward_off=0.0)),
            ('bump_into_wall', dict(reward=-1.0)),
            ('living_reward', dict(reward=-0.05)),
        ),
        observation=lambda: observation_fs.factory(
            'stochastic_raytracing', area=Area((-4, 1), (-1, 3))
        ),
        terminating=lambda: _term_any('reach_exit'),
    ),
    # smallest legal grid, deterministic layout, agent in a corner
    'empty_4x4': dict(
        objects=[Wall, Floor, Exit],
        colors=[Color.NONE],
        actions=MOVES,
        reset=lambda: reset_fs.factory('empty', shape=Shape(4, 4)),
        transition=lambda: _tf('move_agent', 'turn_agent'),
        reward=lambda: _rf(('living_reward', dict(reward=-1.0))),
        observation=lambda: observation_fs.factory(
            'partially_occluded', area=Area((-6, 0), (-3, 3))
        ),
        terminating=lambda: _term_any('reach_exit', 'bump_into_wall'),
    ),
    # random transitions (obstacles), never terminating on walls
    'dynamic_obstacles_7x9': dict(
        objects=[Wall, Floor, Exit, MovingObstacle],
        colors=[Color.NONE],
        actions=MOVES,
        reset=lambda: reset_fs.factory(
            'dynamic_obstacles',
            shape=Shape(7, 9),
            num_obstacles=4,
            random_agent=True,
        ),
        transition=lambda: _tf('move_agent', 'turn_agent', 'move_obstacles'),
        reward=lambda: _rf(
            ('reach_exit', dict(reward_on=5.0, reward_off=0.0)),
            ('bump_moving_obstacle', dict(reward=-1.0)),
            ('living_reward', dict(reward=-0.05)),
        ),
        observation=lambda: observation_fs.factory(
            'raytracing', area=Area((-3, 3), (-3, 3))
        ),
        terminating=lambda: _term_any('reach_exit', 'bump_moving_obstacle'),
    ),
    'keydoor_6x9': dict(
        objects=[Wall, Floor, Exit, Door, Key],
        colors=[Color.NONE, Color.YELLOW],
        actions=list(Action),
        reset=lambda: reset_fs.factory('keydoor', shape=Shape(6, 9)),
        transition=lambda: _tf(
            'move_agent', 'turn_agent', 'actuate_door', 'pickndrop'
        ),
        reward=lambda: _rf(
            ('reach_exit', dict(reward_on=5.0, reward_off=0.0)),
            (
                'pickndrop',
                dict(object_type=Key, reward_pick=1.0, reward_drop=-1.0),
            ),
            ('actuate_door', dict(reward_open=1.0, reward_close=-1.0)),
            ('living_reward', dict(reward=-0.05)),
        ),
        observation=lambda: observation_fs.factory(
            'partially_occluded', area=Area((-6, 0), (-3, 3))
        ),
        terminating=lambda: _term_any('reach_exit'),
    ),
    'crossing_7x9': dict(
        objects=[Wall, Floor, Exit],
        colors=[Color.NONE],
        actions=MOVES,
        reset=lambda: reset_fs.factory(
            'crossing', shape=Shape(7, 9), num_rivers=3, object_type=Wall
        ),
        transition=lambda: _tf('move_agent', 'turn_agent'),
        reward=lambda: _rf(
            ('reach_exit', dict(reward_on=5.0, reward_off=0.0)),
            ('living_reward', dict(reward=-0.05)),
        ),
        observation=lambda: observation_fs.factory(
            'fully_transparent', area=Area((-2, 0), (-1, 1))
        ),
        terminating=lambda: _term_any('reach_exit'),
    ),
    'teleport_7x6': dict(
        objects=[Wall, Floor, Exit, Telepod],
        colors=[Color.NONE, Color.RED],
        actions=MOVES,
        reset=lambda: reset_fs.factory('teleport', shape=Shape(7, 6)),
        transition=lambda: _tf('move_agent', 'turn_agent', 'teleport'),
        reward=lambda: _rf(
            ('reach_exit', dict(reward_on=5.0, reward_off=0.0)),
            ('living_reward', dict(reward=-0.05)),
        ),
        observation=lambda: observation_fs.factory(
            'stochastic_raytracing', area=Area((-6, 0), (-3, 3))
        ),
        terminating=lambda: _term_any('reach_exit'),
    ),
    # the set of colours is iterated by the reset function: hash-order bait
    'memory_rooms_9x11': dict(
        objects=[Wall, Floor, Exit, Beacon],
        colors=[Color.NONE, Color.RED, Color.GREEN, Color.BLUE, Color.YELLOW],
        actions=MOVES,
        reset=lambda: reset_fs.factory(
            'memory_rooms',
            shape=Shape(9, 11),
            layout=(2, 2),
            colors={Color.RED, Color.GREEN, Color.BLUE, Color.YELLOW},
            num_beacons=2,
            num_exits=3,
        ),
        transition=lambda: _tf('move_agent', 'turn_agent'),
        reward=lambda: _rf(
            ('reach_exit_memory', dict(reward_good=5.0, reward_bad=-5.0)),
            ('living_reward', dict(reward=-0.05)),
        ),
        observation=lambda: observation_fs.factory(
            'partially_occluded', area=Area((-6, 0), (-3, 3))
        ),
        terminating=lambda: _term_any('reach_exit'),
    ),
    'memory_5x7': dict(
        objects=[Wall, Floor, Exit, Beacon],
        colors=[Color.NONE, Color.RED, Color.GREEN, Color.BLUE],
        actions=MOVES,
        reset=lambda: reset_fs.factory(
            'memory',
            shape=Shape(5, 7),
            colors={Color.RED, Color.GREEN, Color.BLUE},
        ),
        transition=lambda: _tf('move_agent', 'turn_agent'),
        reward=lambda: _rf(
            ('reach_exit_memory', dict(reward_good=5.0, reward_bad=-5.0)),
        ),
        observation=lambda: observation_fs.factory(
            'raytracing', area=Area((-6, 0), (-3, 3))
        ),
        terminating=lambda: _term_any('reach_exit'),
    ),
}


def build_parts(name):
    cfg = CONFIGS[name]
    reset_function = cfg['reset']()
    observation_function = cfg['observation']()
    # shapes are discovered with a private generator: nothing global is drawn
    probe_rng = rnd.default_rng(0)
    state = reset_function(rng=probe_rng)
    observation = observation_function(state, rng=probe_rng)
    return dict(
        state_space=StateSpace(
            state.grid.shape, cfg['objects'], cfg['colors']
        ),
        action_space=ActionSpace(list(cfg['actions'])),
        observation_space=ObservationSpace(
            observation.grid.shape, cfg['objects'], cfg['colors']
        ),
        reset_function=reset_function,
        transition_function=cfg['transition'](),
        observation_function=observation_function,
        reward_function=cfg['reward'](),
        termination_function=cfg['terminating'](),
    )


def build_inner(name):
    return GridWorld(**build_parts(name))


def build_outer(name):
    inner = build_inner(name)
    return OuterEnv(
        inner,
        state_representation=make_state_representation(
            'default', inner.state_space
        ),
        observation_representation=make_observation_representation(
            'default', inner.observation_space
        ),
    )


# ---------------------------------------------------------------------------
# snapshots and traces
# ---------------------------------------------------------------------------


def snap_object(obj):
    return (type(obj).__name__, int(obj.state_index), obj.color.name)


def snap(state_or_observation):
    grid, agent = state_or_observation.grid, state_or_observation.agent
    return (
        (grid.shape.height, grid.shape.width),
        tuple(
            snap_object(grid[position]) for position in grid.area.positions()
        ),
        (agent.position.y, agent.position.x),
        agent.orientation.name,
        snap_object(agent.grid_object),
    )


def snap_arrays(arrays):
    return tuple(
        (key, value.dtype.str, value.shape, value.tobytes())
        for key, value in sorted(arrays.items())
    )


def actions_for(name, seed, length):
    """action sequence from a private generator (never a global one)"""
    actions = CONFIGS[name]['actions']
    prng = rnd.default_rng([seed, length, 977])
    return [actions[int(i)] for i in prng.integers(len(actions), size=length)]


def inner_trace_gen(env, seed, actions, *, reset_every=9):
    """yields one record per operation;  a generator, so that the operations of
    several live environments can be interleaved at will"""
    env.set_seed(seed)
    env.reset()
    yield ('reset', snap(env.state), snap(env.observation))
    for t, action in enumerate(actions):
        reward, done = env.step(action)
        yield (
            'step',
            action.name,
            snap(env.state),
            snap(env.observation),
            float(reward),
            bool(done),
        )
        if done or t % reset_every == reset_every - 1:
            env.reset()
            yield ('reset', snap(env.state), snap(env.observation))


def seed_outer(outer, seed):
    """`OuterEnv.set_seed` when it exists, else the reference spelling"""
    if hasattr(outer, 'set_seed'):
        result = outer.set_seed(seed)
        assert result is None, result
    else:
        outer.inner_env.set_seed(seed)


def outer_trace_gen(outer, seed, actions, *, reset_every=9, seeder=seed_outer):
    seeder(outer, seed)
    outer.reset()
    yield ('reset', snap_arrays(outer.state), snap_arrays(outer.observation))
    for t, action in enumerate(actions):
        reward, done = outer.step(action)
        yield (
            'step',
            action.name,
            snap_arrays(outer.state),
            snap_arrays(outer.observation),
            float(reward),
            bool(done),
        )
        if done or t % reset_every == reset_every - 1:
            outer.reset()
            yield (
                'reset',
                snap_arrays(outer.state),
                snap_arrays(outer.observation),
            )


def reference_trace(name, seed, actions, *, reset_every=9):
    """reference implementation: the seeded loop written out on the bare
    functions with one private generator, no InnerEnv / OuterEnv involved"""
    parts = build_parts(name)
    rng = rnd.default_rng(seed)
    records = []

    def observe(state):
        return parts['observation_function'](state, rng=rng)

    state = parts['reset_function'](rng=rng)
    records.append(('reset', snap(state), snap(observe(state))))
    for t, action in enumerate(actions):
        next_state = fast_copy(state)
        parts['transition_function'](next_state, action, rng=rng)
        reward = parts['reward_function'](state, action, next_state)
        done = parts['termination_function'](state, action, next_state)
        state = next_state
        records.append(
            (
                'step',
                action.name,
                snap(state),
                snap(observe(state)),
                float(reward),
                bool(done),
            )
        )
        if done or t % reset_every == reset_every - 1:
            state = parts['reset_function'](rng=rng)
            records.append(('reset', snap(state), snap(observe(state))))
    return records


def digest(records):
    return hashlib.sha256(repr(records).encode()).hexdigest()


# ---------------------------------------------------------------------------
# global random sources
# ---------------------------------------------------------------------------


def global_rng_fingerprint():
    gv = gv_rng_module._gv_rng
    return repr(
        (
            random.getstate(),
            [
                x.tolist() if hasattr(x, 'tolist') else x
                for x in np.random.get_state()
            ],
            None if gv is None else gv.bit_generator.state,
            id(gv),
        )
    )


def perturb_globals(k):
    random.seed(k)
    random.random()
    np.random.seed(k % (2**32))
    np.random.random(3)
    gv_rng_module.reset_gv_rng(k)
    gv_rng_module.get_gv_rng().random(2)


SEEDS = [0, 1, 7, 2**31 - 1, 2**63 + 5]
LENGTH = 40


def all_digests():
    """digest of inner and outer traces of every configuration and seed"""
    out = []
    for name in sorted(CONFIGS):
        for seed in SEEDS[:3]:
            actions = actions_for(name, seed, LENGTH)
            out.append(
                (
                    name,
                    seed,
                    digest(list(inner_trace_gen(build_inner(name), seed, actions))),
                    digest(list(outer_trace_gen(build_outer(name), seed, actions))),
                )
            )
    return out


# ---------------------------------------------------------------------------
# checks
# ---------------------------------------------------------------------------


def check_outer_seeding_equals_inner_seeding():
    """seeding through the outer env == seeding the inner env directly ==
    the reference loop;  also re-seeding and seeds of every size"""
    for name in sorted(CONFIGS):
        for seed in SEEDS:
            actions = actions_for(name, seed, LENGTH)
            reference = reference_trace(name, seed, actions)

            inner = build_inner(name)
            got = list(inner_trace_gen(inner, seed, actions))
            assert got == reference, (name, seed, 'inner vs reference')

            # outer env, seeded through the outer layer
            outer_a = build_outer(name)
            trace_a = list(outer_trace_gen(outer_a, seed, actions))
            # outer env, inner env seeded directly (pristine spelling)
            outer_b = build_outer(name)
            trace_b = list(
                outer_trace_gen(
                    outer_b,
                    seed,
                    actions,
                    seeder=lambda o, s: o.inner_env.set_seed(s),
                )
            )
            assert trace_a == trace_b, (name, seed, 'outer seeding path')

            # the arrays are the representation of the reference states
            rep_s = outer_a.state_representation
            rep_o = outer_a.observation_representation
            parts = build_parts(name)
            rng = rnd.default_rng(seed)
            state = parts['reset_function'](rng=rng)
            observation = parts['observation_function'](state, rng=rng)
            assert trace_a[0] == (
                'reset',
                snap_arrays(rep_s.convert(state)),
                snap_arrays(rep_o.convert(observation)),
            ), (name, seed, 'first outer record')

            # re-seeding the same (used) environment restarts the sequence
            again = list(outer_trace_gen(outer_a, seed, actions))
            assert again == trace_a, (name, seed, 're-seeding')
            other = list(outer_trace_gen(outer_a, seed + 1, actions))
            again = list(outer_trace_gen(outer_a, seed, actions))
            assert again == trace_a, (name, seed, 're-seeding after other seed')
            del other


def check_seed_none_is_fresh_and_private():
    """seed None: a fresh unpredictable private generator, globals untouched"""
    name = 'empty_5x8_stochastic'
    perturb_globals(5)
    before = global_rng_fingerprint()
    outer = build_outer(name)
    seed_outer(outer, None)
    rng_1 = outer.inner_env._rng
    seed_outer(outer, None)
    rng_2 = outer.inner_env._rng
    assert isinstance(rng_1, rnd.Generator) and isinstance(rng_2, rnd.Generator)
    assert rng_1 is not rng_2
    assert rng_1 is not gv_rng_module._gv_rng
    assert rng_2 is not gv_rng_module._gv_rng
    assert rng_1.bit_generator.state != rng_2.bit_generator.state
    outer.reset()
    outer.step(Action.MOVE_FORWARD)
    outer.observation
    assert global_rng_fingerprint() == before


def check_set_seed_draws_nothing_and_replaces_generator():
    """set_seed only installs a new private generator in the inner env"""
    for name in ['empty_4x4', 'dynamic_obstacles_7x9']:
        outer = build_outer(name)
        perturb_globals(11)
        before = global_rng_fingerprint()
        attrs_before = set(vars(outer))
        seed_outer(outer, 123)
        assert set(vars(outer)) == attrs_before, 'outer env grew random state'
        rng = outer.inner_env._rng
        assert isinstance(rng, rnd.Generator)
        assert rng is not gv_rng_module._gv_rng
        assert (
            rng.bit_generator.state == rnd.default_rng(123).bit_generator.state
        ), 'generator is not a pristine default_rng(seed)'
        # seeding does not reset / step / observe
        try:
            outer.inner_env.state
        except RuntimeError:
            pass
        else:
            raise AssertionError('set_seed must not reset the environment')
        assert global_rng_fingerprint() == before

        # seeding in the middle of an episode keeps state and observation
        outer.reset()
        outer.step(outer.action_space.actions[0])
        state = snap(outer.inner_env.state)
        observation = outer.inner_env.observation
        seed_outer(outer, 5)
        assert snap(outer.inner_env.state) == state
        assert outer.inner_env.observation is observation
        assert global_rng_fingerprint() == before


def check_isolation_and_interleaving():
    """several live environments, operations interleaved in odd orders, global
    sources hammered in between: traces unchanged, globals untouched by envs"""
    names = sorted(CONFIGS)
    jobs = []
    for i, name in enumerate(names):
        seed = SEEDS[i % len(SEEDS)]
        actions = actions_for(name, seed, LENGTH)
        expected = list(outer_trace_gen(build_outer(name), seed, actions))
        jobs.append((name, seed, actions, expected))

    # (1) globals are not perturbed by seeded environments
    perturb_globals(3)
    before = global_rng_fingerprint()
    for name, seed, actions, expected in jobs:
        got = list(outer_trace_gen(build_outer(name), seed, actions))
        assert got == expected, (name, 'sequential repeat')
    assert global_rng_fingerprint() == before, 'a global source was touched'

    # (2) interleaving, twins with the same seed alive at the same time, and
    #     global sources re-seeded / drawn from between any two operations
    schedule = rnd.default_rng(2024)
    live = []
    for name, seed, actions, expected in jobs:
        live.append(
            [name, outer_trace_gen(build_outer(name), seed, actions), [], expected]
        )
        live.append(
            [name, outer_trace_gen(build_outer(name), seed, actions), [], expected]
        )
        # a distractor with another seed and the same configuration
        live.append(
            [name, outer_trace_gen(build_outer(name), seed + 17, actions), [], None]
        )
    k = 0
    while live:
        i = int(schedule.integers(len(live)))
        burst = int(schedule.integers(1, 4))
        for _ in range(burst):
            k += 1
            perturb_globals(k)
            fingerprint = global_rng_fingerprint()
            try:
                record = next(live[i][1])
            except StopIteration:
                name, _, got, expected = live.pop(i)
                if expected is not None:
                    assert got == expected, (name, 'interleaved')
                break
            assert global_rng_fingerprint() == fingerprint, (
                live[i][0],
                'operation touched a global source',
            )
            live[i][2].append(record)


def check_debug_flag():
    reference = {}
    for flag in [True, False, None]:
        reset_gv_debug(flag)
        for name in sorted(CONFIGS):
            seed = 42
            actions = actions_for(name, seed, LENGTH)
            got = (
                list(inner_trace_gen(build_inner(name), seed, actions)),
                list(outer_trace_gen(build_outer(name), seed, actions)),
            )
            assert reference.setdefault(name, got) == got, (name, flag)
    reset_gv_debug(None)


def check_gym_layer():
    """GymEnvironment.seed hands the seed down;  same arrays as the outer env"""
    try:
        import gym  # noqa: F401
        from gym.utils import seeding

        from gym_gridverse.gym import GymEnvironment
    except Exception as error:  # gym is an optional dependency
        print(f'  (gym layer skipped: {type(error).__name__})')
        return

    if not hasattr(seeding, 'create_seed'):
        # recent gym releases dropped `create_seed`;  for integer seeds the
        # old function was the identity, which is all that is used below
        seeding.create_seed = lambda seed=None, max_bytes=8: seed

    for name in ['empty_5x8_stochastic', 'dynamic_obstacles_7x9', 'memory_5x7']:
        for seed in [0, 3, 2**31 - 1]:
            actions = actions_for(name, seed, 25)
            expected = list(outer_trace_gen(build_outer(name), seed, actions))

            gym_env = GymEnvironment(build_outer(name))
            perturb_globals(seed % 1000)
            before = global_rng_fingerprint()
            assert gym_env.seed(seed) == [seed]
            action_space = gym_env.outer_env.action_space
            observation = gym_env.reset()
            got = [
                (
                    'reset',
                    snap_arrays(gym_env.state),
                    snap_arrays(observation),
                )
            ]
            for t, action in enumerate(actions):
                observation, reward, done, info = gym_env.step(
                    action_space.action_to_int(action)
                )
                assert info == {}
                got.append(
                    (
                        'step',
                        action.name,
                        snap_arrays(gym_env.state),
                        snap_arrays(observation),
                        float(reward),
                        bool(done),
                    )
                )
                if done or t % 9 == 8:
                    observation = gym_env.reset()
                    got.append(
                        (
                            'reset',
                            snap_arrays(gym_env.state),
                            snap_arrays(observation),
                        )
                    )
            assert got == expected, (name, seed, 'gym layer')
            assert global_rng_fingerprint() == before


def check_processes():
    here = all_digests()
    for hashseed in ['0', '1', '4242', 'random']:
        env = dict(os.environ, PYTHONHASHSEED=hashseed)
        out = subprocess.run(
            [sys.executable, os.path.abspath(__file__), '--digests'],
            env=env,
            cwd=os.getcwd(),
            stdout=subprocess.PIPE,
            stderr=subprocess.DEVNULL,
            check=True,
            universal_newlines=True,
        ).stdout
        assert out.strip().splitlines()[-1] == repr(here), (
            'traces differ in a process with PYTHONHASHSEED=' + hashseed
        )


def main():
    if '--digests' in sys.argv:
        print(repr(all_digests()))
        return

    checks = [
        check_outer_seeding_equals_inner_seeding,
        check_seed_none_is_fresh_and_private,
        check_set_seed_draws_nothing_and_replaces_generator,
        check_isolation_and_interleaving,
        check_debug_flag,
        check_gym_layer,
        check_processes,
    ]
    for check in checks:
        print(check.__name__)
        check()
    print('OK', 'OuterEnv.set_seed present' if hasattr(OuterEnv, 'set_seed') else 'OuterEnv.set_seed absent (reference spelling used)')


if __name__ == '__main__':
    main()
