"""Check program for commit B (`Space.dtype`, `Space.tile`).

Run as:  cd /tmp/wt7-C15 && /venv/bin/python -W ignore _seed/B/demo.py

The declared spaces (library and gym level) of every representation are
compared with an independent reference (type, shape, dtype, bounds, freshness
of the returned arrays);  the new `Space.dtype` / `Space.tile` are compared
with `numpy.tile` when they are available (i.e. with the commit applied).

Exercises the numeric representations (default / no-overlap / compact) of
states and observations through the public API only
(`make_state_representation`, `make_observation_representation`, `OuterEnv`,
`GymEnvironment`) and compares every converted array with an INDEPENDENT
re-implementation written below (which knows nothing about the library's
helpers), and every array against its declared space (shape, dtype, bounds),
both at the library level and at the gym level.

It must exit 0 both on the clean tree and with the commit applied.
"""
import itertools
import os
import random
import sys

sys.path.insert(0, os.getcwd())

import numpy as np  # noqa: E402

from gym_gridverse.action import Action  # noqa: E402
from gym_gridverse.agent import Agent  # noqa: E402
from gym_gridverse.envs.yaml.factory import factory_env_from_data  # noqa: E402
from gym_gridverse.geometry import Orientation, Position, Shape  # noqa: E402
from gym_gridverse.grid import Grid  # noqa: E402
from gym_gridverse.grid_object import (  # noqa: E402
    Beacon,
    Box,
    Color,
    Door,
    Exit,
    Floor,
    GridObject,
    Hidden,
    Key,
    MovingObstacle,
    NoneGridObject,
    Telepod,
    Wall,
    grid_object_registry,
)
from gym_gridverse.gym import (  # noqa: E402
    GymEnvironment,
    GymStateWrapper,
    outer_space_to_gym_space,
)
from gym_gridverse.observation import Observation  # noqa: E402
from gym_gridverse.outer_env import OuterEnv  # noqa: E402
from gym_gridverse.representations.observation_representations import (  # noqa: E402
    make_observation_representation,
)
from gym_gridverse.representations.spaces import (  # noqa: E402
    Space,
    SpaceType,
)
from gym_gridverse.representations.state_representations import (  # noqa: E402
    make_state_representation,
)
from gym_gridverse.spaces import ObservationSpace, StateSpace  # noqa: E402
from gym_gridverse.state import State  # noqa: E402

REPRESENTATIONS = ['default', 'no-overlap', 'compact']


# user-defined grid-objects (public extension mechanism) whose state indices are
# not plain python ints:  a numpy integer, a bool, and an integer-valued float
class Lamp(GridObject):
    color = Color.NONE
    blocks_movement = False
    blocks_vision = False
    holdable = True

    def __init__(self, on: bool):
        self.on = on

    @property
    def state_index(self):
        return np.int8(1 if self.on else 0)

    @classmethod
    def can_be_represented_in_state(cls):
        return True

    @classmethod
    def num_states(cls):
        return 2


class Switch(GridObject):
    color = Color.NONE
    blocks_movement = False
    blocks_vision = False
    holdable = False

    def __init__(self, on: bool, color: Color):
        self.on = on
        self.color = color

    @property
    def state_index(self):
        return bool(self.on)

    @classmethod
    def can_be_represented_in_state(cls):
        return True

    @classmethod
    def num_states(cls):
        return 2


class Dial(GridObject):
    color = Color.NONE
    blocks_movement = False
    blocks_vision = False
    holdable = False

    def __init__(self, level: int):
        self.level = level

    @property
    def state_index(self):
        return float(self.level)

    @classmethod
    def can_be_represented_in_state(cls):
        return True

    @classmethod
    def num_states(cls):
        return 4


REGISTRY = list(grid_object_registry)
assert REGISTRY[-3:] == [Lamp, Switch, Dial]
ALL_COLORS = list(Color)
NUM_STATES = {
    NoneGridObject: 1,
    Hidden: 1,
    Floor: 1,
    Wall: 1,
    Exit: 1,
    Door: 3,
    Key: 1,
    MovingObstacle: 1,
    Box: 1,
    Telepod: 1,
    Beacon: 1,
    Lamp: 2,
    Switch: 2,
    Dial: 4,
}
COUNTS = {'arrays': 0, 'states': 0, 'observations': 0, 'steps': 0, 'spaces': 0, 'tiles': 0}


# ---------------------------------------------------------------------------
# independent reference implementation
# ---------------------------------------------------------------------------


def tindex(object_type) -> int:
    return REGISTRY.index(object_type)


def ref_types(kind, space):
    extra = [NoneGridObject] if kind == 'state' else [NoneGridObject, Hidden]
    types = list(space.object_types)
    for t in extra:
        if t not in types:
            types.append(t)
    return sorted(set(types), key=tindex)


def ref_colors(space):
    return sorted(set(space.colors) | {Color.NONE}, key=lambda c: c.value)


def ref_object(name, kind, space, obj):
    """expected 3-vector of a member object (python ints)"""
    types = ref_types(kind, space)
    colors = ref_colors(space)
    t, s, c = tindex(type(obj)), int(obj.state_index), obj.color.value
    T = max(tindex(x) for x in types)
    S = max(NUM_STATES[x] for x in types)

    if name == 'default':
        return [t, s, c]

    if name == 'no-overlap':
        return [t, T + 1 + s, T + S + 2 + c]

    assert name == 'compact'
    assert type(obj) in types and obj.color in colors
    n_types = len(types)
    n_states = sum(NUM_STATES[x] for x in types)
    rank = types.index(type(obj))
    return [
        rank,
        n_types + sum(NUM_STATES[x] for x in types[:rank]) + s,
        n_types + n_states + colors.index(obj.color),
    ]


def ref_object_upper(name, kind, space):
    types = ref_types(kind, space)
    colors = ref_colors(space)
    T = max(tindex(x) for x in types)
    S = max(NUM_STATES[x] for x in types)
    C = max(c.value for c in colors)
    if name == 'default':
        return [T, S, C]
    if name == 'no-overlap':
        return [T, T + S + 1, T + S + C + 2]
    n_types = len(types)
    n_states = sum(NUM_STATES[x] for x in types)
    return [n_types - 1, n_types + n_states - 1, n_types + n_states + len(colors) - 1]


def ref_convert(name, kind, space, x):
    """expected dictionary for a State / Observation"""
    grid, agent = x.grid, x.agent
    h, w = len(grid.objects), len(grid.objects[0])
    out = {}
    g = np.zeros((h, w, 3), dtype=np.int64)
    for y in range(h):
        for xx in range(w):
            g[y, xx, :] = ref_object(name, kind, space, grid.objects[y][xx])
    out['grid'] = g
    a = np.zeros((h, w), dtype=np.int64)
    a[agent.position.y, agent.position.x] = 1
    out['agent_id_grid'] = a
    out['item'] = np.array(
        ref_object(name, kind, space, agent.grid_object), dtype=np.int64
    )
    if kind == 'state':
        v = np.zeros(6, dtype=np.float64)
        v[0] = (2 * agent.position.y - h + 1) / (h - 1)
        v[1] = (2 * agent.position.x - w + 1) / (w - 1)
        v[2 + agent.orientation.value] = 1.0
        out['agent'] = v
    return ordered(out)


def ordered(out):
    """keys in the documented order: grid, agent_id_grid, [agent,] item"""
    keys = [k for k in ('grid', 'agent_id_grid', 'agent', 'item') if k in out]
    assert len(keys) == len(out)
    return {k: out[k] for k in keys}


def ref_space(name, kind, space):
    """expected (space type, lower, upper) per key"""
    h, w = space.grid_shape.height, space.grid_shape.width
    ub = np.array(ref_object_upper(name, kind, space), dtype=np.int64)
    out = {
        'grid': (
            SpaceType.CATEGORICAL,
            np.zeros((h, w, 3), np.int64),
            np.broadcast_to(ub, (h, w, 3)),
        ),
        'agent_id_grid': (
            SpaceType.DISCRETE,
            np.zeros((h, w), np.int64),
            np.ones((h, w), np.int64),
        ),
        'item': (SpaceType.CATEGORICAL, np.zeros(3, np.int64), ub),
    }
    if kind == 'state':
        out['agent'] = (
            SpaceType.CONTINUOUS,
            np.array([-1.0, -1, 0, 0, 0, 0]),
            np.ones(6),
        )
    return ordered(out)


# ---------------------------------------------------------------------------
# checks
# ---------------------------------------------------------------------------


def same_array(a, b):
    return (
        isinstance(a, np.ndarray)
        and a.shape == b.shape
        and a.dtype == b.dtype
        and np.array_equal(a, b)
    )


def check_space(name, kind, space, representation):
    """declared space (library and gym level) equals the reference"""
    declared = representation.space
    expected = ref_space(name, kind, space)
    assert list(declared.keys()) == list(expected.keys()), declared.keys()
    gym_space = outer_space_to_gym_space(declared)
    for key, (space_type, lower, upper) in expected.items():
        assert declared[key].space_type is space_type
        assert same_array(declared[key].lower_bound, np.array(lower)), key
        assert same_array(declared[key].upper_bound, np.array(upper)), key
        box = gym_space[key]
        dtype = np.float64 if space_type is SpaceType.CONTINUOUS else np.int64
        assert box.dtype == dtype and box.shape == lower.shape
        assert np.array_equal(box.low, lower) and np.array_equal(box.high, upper)
        assert box.low.dtype == dtype and box.high.dtype == dtype
        assert declared[key].shape == lower.shape
        if hasattr(Space, 'dtype'):
            assert declared[key].dtype is (
                float if space_type is SpaceType.CONTINUOUS else int
            )

    # every access builds new, independent spaces:  nothing is shared between
    # accesses, keys, lower and upper bounds, or with the gym boxes
    again = representation.space
    buffers = []
    for spaces in (declared, again):
        for key in spaces:
            buffers += [spaces[key].lower_bound, spaces[key].upper_bound]
    for key in gym_space.spaces:
        buffers += [gym_space[key].low, gym_space[key].high]
    for i, a in enumerate(buffers):
        assert a.flags.writeable
        for b in buffers[i + 1 :]:
            assert not np.shares_memory(a, b)
    # ... so that clobbering a returned space does not affect later ones
    for key in again:
        again[key].lower_bound[...] = -99
        again[key].upper_bound[...] = -98
    third = representation.space
    for key, (space_type, lower, upper) in expected.items():
        assert third[key] == declared[key]
        assert same_array(third[key].lower_bound, np.array(lower)), key
        assert same_array(third[key].upper_bound, np.array(upper)), key
    COUNTS['spaces'] += 1
    return declared, gym_space


def check_convert(name, kind, space, representation, declared, gym_space, x):
    """converted arrays equal the reference and lie in the declared spaces"""
    arrays = representation.convert(x)
    expected = ref_convert(name, kind, space, x)
    assert list(arrays.keys()) == list(expected.keys())
    for key, array in arrays.items():
        assert same_array(array, expected[key]), (name, kind, key, array, expected[key])
        sp = declared[key]
        # explicit membership: shape, dtype, bounds
        assert array.shape == sp.lower_bound.shape
        if sp.space_type is SpaceType.CONTINUOUS:
            assert array.dtype == np.float64
        else:
            assert array.dtype == np.int64
        assert np.all(sp.lower_bound <= array) and np.all(array <= sp.upper_bound)
        assert sp.contains(array)
        assert gym_space[key].contains(array)
        # result is a fresh, writable array owned by the caller
        assert array.flags.writeable
        COUNTS['arrays'] += 1
    assert gym_space.contains(arrays)

    # second conversion: equal but independent arrays (no caching / aliasing)
    again = representation.convert(x)
    for key in arrays:
        assert again[key] is not arrays[key]
        assert not np.shares_memory(again[key], arrays[key])
        assert same_array(again[key], arrays[key])
    arrays['grid'][...] = -7
    third = representation.convert(x)
    assert same_array(third['grid'], expected['grid'])
    return expected


def member_objects(object_types, colors, kind):
    """every member object (type x status x color) of the space"""
    colors = sorted(set(colors) | {Color.NONE}, key=lambda c: c.value)
    out = []
    for t in object_types:
        if t in (Floor, Wall, MovingObstacle, Hidden, NoneGridObject):
            out.append(t())
        elif t in (Exit, Key, Telepod, Beacon):
            out.extend(t(c) for c in colors)
        elif t is Door:
            out.extend(Door(s, c) for s in Door.Status for c in colors)
        elif t is Box:
            out.extend([Box(Floor()), Box(Key(colors[-1])), Box(Box(Wall()))])
        elif t is Lamp:
            out.extend([Lamp(False), Lamp(True)])
        elif t is Switch:
            out.extend(Switch(on, c) for on in (False, True) for c in colors)
        elif t is Dial:
            out.extend(Dial(level) for level in range(4))
        else:
            raise AssertionError(t)
    if kind == 'observation':
        out.append(Hidden())
    return out


def item_objects(object_types, colors):
    out = [NoneGridObject()]
    out.extend(member_objects(object_types, colors, 'state'))
    # (a held float-indexed object has always produced a float `item` array;
    # such objects are only checked as grid cells)
    return [obj for obj in out if not isinstance(obj, Dial)]


def make_grids(members, shape, rng, extra=2):
    """grids which, together, show every member object (also in the corners)"""
    h, w = shape
    n = h * w
    grids = []
    k = 0
    while True:
        cells = [members[(k + i) % len(members)] for i in range(n)]
        grids.append(Grid([cells[r * w : (r + 1) * w] for r in range(h)]))
        k += n
        if k >= len(members):
            break
    for _ in range(extra):
        cells = [rng.choice(members) for _ in range(n)]
        grids.append(Grid([cells[r * w : (r + 1) * w] for r in range(h)]))
    # uniform grid of the 'largest' object
    grids.append(Grid([[members[-1] for _ in range(w)] for _ in range(h)]))
    return grids


def poses(shape, rng, exhaustive):
    h, w = shape
    everything = [
        (Position(y, x), o)
        for y in range(h)
        for x in range(w)
        for o in Orientation
    ]
    if exhaustive:
        return everything
    corners = [
        (Position(y, x), rng.choice(list(Orientation)))
        for y in (0, h - 1)
        for x in (0, w - 1)
    ]
    return corners + rng.sample(everything, 2)


def check_float_index_rejected(kind, representation, shape, object_type):
    """the compact representation uses the indices for array look-ups, hence
    float and bool state indices fail;  for a whole grid exactly as for a
    single item"""
    h, w = shape
    make = State if kind == 'state' else Observation
    if object_type is Dial:
        a, b, c = Dial(1), Dial(0), Dial(2)
    else:
        a, b, c = (
            Switch(True, Color.NONE),
            Switch(False, Color.NONE),
            Switch(True, Color.NONE),
        )
    errors = []
    for grid in (
        Grid([[a] * w] * h),
        Grid([[b] * (w - 1) + [c]] * h),
    ):
        x = make(grid, Agent(Position(h - 1, w - 1), Orientation.F, None))
        try:
            representation.convert(x)
        except Exception as error:  # pylint: disable=broad-except
            errors.append((type(error), str(error)))
        else:
            raise AssertionError('float / bool index accepted as array index')
    # the same object held as item fails identically
    item_only = None
    try:
        representation.representations['item'].convert(
            make(Grid([[a] * w] * h), Agent(Position(0, 0), Orientation.F, a))
        )
    except Exception as error:  # pylint: disable=broad-except
        item_only = (type(error), str(error))
    assert item_only is not None
    assert all(e == item_only for e in errors), (errors, item_only)


def check_spaces(object_types, colors, shapes, rng, exhaustive_poses=False):
    for kind in ('state', 'observation'):
        if kind == 'state' and any(t in (Box, Hidden) for t in object_types):
            # not representable in state:  must be rejected
            space = StateSpace(Shape(3, 3), object_types, colors)
            for name in REPRESENTATIONS:
                try:
                    make_state_representation(name, space)
                except ValueError:
                    pass
                else:
                    raise AssertionError('unrepresentable space accepted')
            continue

        for shape in shapes:
            if kind == 'observation' and shape[1] % 2 == 0:
                continue
            cls = StateSpace if kind == 'state' else ObservationSpace
            space = cls(Shape(*shape), object_types, colors)
            members = member_objects(object_types, colors, kind)
            if not members:
                continue
            items = item_objects(object_types, colors)
            grids = make_grids(members, shape, rng, extra=0)[:2]
            for name in REPRESENTATIONS:
                make = (
                    make_state_representation
                    if kind == 'state'
                    else make_observation_representation
                )
                representation = make(name, space)
                declared, gym_space = check_space(
                    name, kind, space, representation
                )
                if name == 'compact' and (Dial in object_types or Switch in object_types):
                    check_float_index_rejected(kind, representation, shape, Dial if Dial in object_types else Switch)
                    continue
                n = 0
                for grid in grids:
                    for position, orientation in poses(
                        shape, rng, exhaustive_poses and grid is grids[0]
                    ):
                        item = items[n % len(items)]
                        n += 1
                        agent = Agent(position, orientation, item)
                        x = (
                            State(grid, agent)
                            if kind == 'state'
                            else Observation(grid, agent)
                        )
                        assert space.contains(x)
                        expected = check_convert(
                            name, kind, space, representation,
                            declared, gym_space, x,
                        )  # fmt: skip
                        COUNTS[kind + 's'] += 1

                        # every cell of the grid is represented exactly as the
                        # same object held by the agent (per-object conversion)
                        if n % 7 == 0:
                            y, xx = position.y, position.x
                            obj = grid[y, xx]
                            if type(obj) not in (Hidden, Dial):
                                held = (
                                    State(grid, Agent(position, orientation, obj))
                                    if kind == 'state'
                                    else Observation(
                                        grid, Agent(position, orientation, obj)
                                    )
                                )
                                if space.contains(held):
                                    arrays = representation.convert(held)
                                    assert same_array(
                                        arrays['item'], expected['grid'][y, xx]
                                    )
                                    assert same_array(
                                        arrays['grid'][y, xx], arrays['item']
                                    )

                # a second representation instance of the same space agrees
                other = make(name, space)
                x = (
                    State(grids[0], Agent(Position(0, 0), Orientation.F, items[0]))
                    if kind == 'state'
                    else Observation(
                        grids[0], Agent(Position(0, 0), Orientation.F, items[0])
                    )
                )
                a, b = representation.convert(x), other.convert(x)
                for key in a:
                    assert same_array(a[key], b[key])
                    assert not np.shares_memory(a[key], b[key])


def check_non_members():
    """non-member inputs are rejected exactly as before (debug checks on)"""
    space = StateSpace(Shape(3, 4), [Floor, Wall, Door], [Color.RED])
    ospace = ObservationSpace(Shape(3, 5), [Floor, Wall, Door], [Color.RED])
    for name in REPRESENTATIONS:
        srep = make_state_representation(name, space)
        orep = make_observation_representation(name, ospace)
        agent = Agent(Position(0, 0), Orientation.F)
        bad_states = [
            # object type not in the space
            State(Grid([[Key(Color.RED)] * 4] + [[Floor()] * 4] * 2), agent),
            # colour not in the space
            State(
                Grid(
                    [[Door(Door.Status.OPEN, Color.BLUE)] * 4]
                    + [[Floor()] * 4] * 2
                ),
                agent,
            ),
            # wrong shape (also the transposed one)
            State(Grid([[Floor()] * 3] * 4), agent),
            State(Grid([[Floor()] * 4] * 2), agent),
            # hidden cells are not part of states
            State(Grid([[Hidden()] * 4] * 3), agent),
        ]
        for state in bad_states:
            try:
                srep.convert(state)
            except ValueError:
                pass
            else:
                raise AssertionError('non-member state converted')
        bad_observations = [
            Observation(Grid([[Key(Color.RED)] * 5] + [[Floor()] * 5] * 2), agent),
            Observation(Grid([[Floor()] * 3] * 5), agent),
            Observation(Grid([[NoneGridObject()] * 5] * 3), agent),
        ]
        for observation in bad_observations:
            try:
                orep.convert(observation)
            except ValueError:
                pass
            else:
                raise AssertionError('non-member observation converted')


# ---------------------------------------------------------------------------
# shipped configurations (transcribed from gym_gridverse/registered_envs/*.yaml,
# PyYAML is not available) and some unusual (non-square) variations
# ---------------------------------------------------------------------------

MOVES = [
    'MOVE_FORWARD', 'MOVE_BACKWARD', 'MOVE_LEFT', 'MOVE_RIGHT',
    'TURN_LEFT', 'TURN_RIGHT',
]  # fmt: skip
ALL5 = ['NONE', 'RED', 'GREEN', 'BLUE', 'YELLOW']
REACH_EXIT = {'name': 'reach_exit', 'reward_on': 5.0, 'reward_off': 0.0}
CLOSER = {
    'name': 'getting_closer',
    'distance_function': 'manhattan',
    'object_type': 'Exit',
    'reward_closer': 0.2,
    'reward_further': -0.2,
}
LIVING = {'name': 'living_reward', 'reward': -0.05}


def config(objects, colors, reset, transitions, rewards, terminating,
           actions=MOVES, area=((-6, 0), (-3, 3)),
           observation='partially_occluded'):  # fmt: skip
    data = {
        'state_space': {'objects': list(objects), 'colors': list(colors)},
        'observation_space': {'objects': list(objects), 'colors': list(colors)},
        'reset_function': dict(reset),
        'transition_functions': [{'name': n} for n in transitions],
        'reward_functions': [dict(r) for r in rewards],
        'observation_function': {
            'name': observation,
            'area': [list(area[0]), list(area[1])],
        },
        'terminating_function': dict(terminating),
    }
    if actions is not None:
        data['action_space'] = list(actions)
    return data


def shipped_configs():
    exit_ = {'name': 'reach_exit'}
    out = {}
    for n in (5, 7):
        out[f'crossing{n}'] = config(
            ['Wall', 'Floor', 'Exit'], ['NONE'],
            {'name': 'crossing', 'shape': [n, n], 'num_rivers': (n - 3) // 2,
             'object_type': 'Wall'},
            ['move_agent', 'turn_agent'], [REACH_EXIT, CLOSER, LIVING], exit_,
        )  # fmt: skip
        out[f'dynamic_obstacles{n}'] = config(
            ['Wall', 'Floor', 'Exit', 'MovingObstacle'], ['NONE'],
            {'name': 'dynamic_obstacles', 'shape': [n, n],
             'num_obstacles': (n - 3) // 2, 'random_agent': False},
            ['move_agent', 'turn_agent', 'move_obstacles'],
            [REACH_EXIT, {'name': 'bump_moving_obstacle', 'reward': -1.0},
             {'name': 'bump_into_wall', 'reward': -1.0}, CLOSER, LIVING],
            {'name': 'reduce_any', 'terminating_functions': [
                {'name': 'reach_exit'}, {'name': 'bump_moving_obstacle'},
                {'name': 'bump_into_wall'}]},
        )  # fmt: skip
        out[f'teleport{n}'] = config(
            ['Wall', 'Floor', 'Exit', 'Telepod'], ['NONE', 'RED'],
            {'name': 'teleport', 'shape': [n, n], 'random_agent': True},
            ['move_agent', 'turn_agent', 'teleport'],
            [REACH_EXIT, CLOSER, LIVING], exit_,
        )  # fmt: skip
        out[f'keydoor{n}'] = config(
            ['Wall', 'Floor', 'Exit', 'Door', 'Key'], ['NONE', 'YELLOW'],
            {'name': 'keydoor', 'shape': [n, n]},
            ['move_agent', 'turn_agent', 'actuate_door', 'pickndrop'],
            [REACH_EXIT,
             {'name': 'pickndrop', 'object_type': 'Key', 'reward_pick': 1.0,
              'reward_drop': -1.0},
             {'name': 'actuate_door', 'reward_open': 1.0, 'reward_close': -1.0},
             CLOSER, LIVING],
            exit_, actions=None,
        )  # fmt: skip
    for n in (4, 8):
        out[f'empty{n}'] = config(
            ['Wall', 'Floor', 'Exit'], ['NONE'],
            {'name': 'empty', 'shape': [n, n], 'random_agent': True},
            ['move_agent', 'turn_agent'], [REACH_EXIT, CLOSER, LIVING], exit_,
        )  # fmt: skip
    memory_rewards = [
        {'name': 'reach_exit_memory', 'reward_good': 5.0, 'reward_bad': -5.0},
        LIVING,
    ]
    for n in (5, 9):
        out[f'memory{n}'] = config(
            ['Wall', 'Floor', 'Exit', 'Beacon'], ALL5,
            {'name': 'memory', 'shape': [n, n], 'colors': ALL5[1:]},
            ['move_agent', 'turn_agent'], memory_rewards, exit_,
        )  # fmt: skip
    for n, layout in ((7, [2, 2]), (10, [3, 3])):
        out[f'memory_rooms{n}'] = config(
            ['Wall', 'Floor', 'Exit', 'Beacon'], ALL5,
            {'name': 'memory_rooms', 'shape': [n, n], 'layout': layout,
             'colors': ALL5[1:], 'num_beacons': 1, 'num_exits': 2},
            ['move_agent', 'turn_agent'], memory_rewards, exit_,
        )  # fmt: skip
        out[f'rooms{n}'] = config(
            ['Wall', 'Floor', 'Exit'], ['NONE'],
            {'name': 'rooms', 'shape': [n, n], 'layout': layout},
            ['move_agent', 'turn_agent'], [REACH_EXIT, CLOSER, LIVING], exit_,
        )  # fmt: skip

    # unusual parameters: non-square worlds, narrow / wide / tall views, other
    # observation functions, superfluous object types and colours in the spaces
    out['empty_4x9_narrow_view'] = config(
        ['Wall', 'Floor', 'Exit', 'Door', 'Key', 'Beacon'], ALL5,
        {'name': 'empty', 'shape': [4, 9], 'random_agent': True,
         'random_exit': True},
        ['move_agent', 'turn_agent'], [REACH_EXIT, LIVING], exit_,
        area=((-3, 0), (0, 0)),
    )  # fmt: skip
    out['empty_9x4_wide_view'] = config(
        ['Wall', 'Floor', 'Exit'], ['NONE', 'BLUE'],
        {'name': 'empty', 'shape': [9, 4], 'random_agent': True},
        ['move_agent', 'turn_agent'], [REACH_EXIT, LIVING], exit_,
        area=((-1, 0), (-4, 4)), observation='fully_transparent',
    )  # fmt: skip
    out['keydoor_6x9_behind_view'] = config(
        ['Wall', 'Floor', 'Exit', 'Door', 'Key', 'MovingObstacle'],
        ['NONE', 'YELLOW', 'GREEN'],
        {'name': 'keydoor', 'shape': [6, 9]},
        ['move_agent', 'turn_agent', 'actuate_door', 'pickndrop'],
        [REACH_EXIT, LIVING], exit_, actions=None,
        area=((-2, 2), (-1, 1)), observation='raytracing',
    )  # fmt: skip
    out['dynamic_obstacles_5x8'] = config(
        ['Wall', 'Floor', 'Exit', 'MovingObstacle'], ['NONE'],
        {'name': 'dynamic_obstacles', 'shape': [5, 8], 'num_obstacles': 4,
         'random_agent': True},
        ['move_agent', 'turn_agent', 'move_obstacles'],
        [REACH_EXIT, LIVING], exit_,
        area=((-4, 0), (-2, 2)), observation='stochastic_raytracing',
    )  # fmt: skip
    out['teleport_8x5'] = config(
        ['Wall', 'Floor', 'Exit', 'Telepod'], ['NONE', 'RED', 'BLUE'],
        {'name': 'teleport', 'shape': [8, 5], 'random_agent': True},
        ['move_agent', 'turn_agent', 'teleport'],
        [REACH_EXIT, LIVING], exit_, area=((-6, 0), (-3, 3)),
    )  # fmt: skip
    return out


def check_trajectories(num_seeds, num_steps):
    import copy

    for config_name, data in shipped_configs().items():
        for name in REPRESENTATIONS:
            inner = factory_env_from_data(copy.deepcopy(data))
            srep = make_state_representation(name, inner.state_space)
            orep = make_observation_representation(
                name, inner.observation_space
            )
            outer = OuterEnv(
                inner,
                state_representation=srep,
                observation_representation=orep,
            )
            env = GymEnvironment(outer)
            wrapped = GymStateWrapper(env)
            sdecl, sgym = check_space(name, 'state', inner.state_space, srep)
            odecl, ogym = check_space(name, 'observation', inner.observation_space, orep)
            assert env.state_space == sgym and env.observation_space == ogym
            assert wrapped.observation_space == sgym
            # the gym-level setters advertise the same spaces
            env.set_state_representation(name)
            env.set_observation_representation(name)
            assert env.state_space == sgym and env.observation_space == ogym
            outer = env.outer_env
            srep, orep = outer.state_representation, outer.observation_representation

            for seed in range(num_seeds):
                rng = random.Random(1000 * seed + len(config_name))
                inner.set_seed(seed)
                observation = env.reset()
                for t in range(num_steps):
                    state = inner.state
                    expected_s = ref_convert(name, 'state', inner.state_space, state)
                    expected_o = ref_convert(
                        name, 'observation', inner.observation_space,
                        inner.observation,
                    )  # fmt: skip
                    got_s = env.state
                    got_o = env.observation
                    for key in expected_s:
                        assert same_array(got_s[key], expected_s[key]), (config_name, name, key)
                        assert sdecl[key].contains(got_s[key])
                    for key in expected_o:
                        assert same_array(got_o[key], expected_o[key]), (config_name, name, key)
                        assert same_array(observation[key], expected_o[key])
                        assert odecl[key].contains(got_o[key])
                    assert env.state_space.contains(got_s)
                    assert env.observation_space.contains(got_o)
                    assert wrapped.observation_space.contains(wrapped.observation)
                    COUNTS['steps'] += 1

                    action = rng.randrange(env.action_space.n)
                    if t % 2:
                        observation, _, done, _ = env.step(action)
                    else:
                        s, _, done, info = wrapped.step(action)
                        observation = info['observation']
                        assert env.state_space.contains(s)
                    if done:
                        observation = env.reset()


def check_determinism():
    """representations do not touch the random stream of the environment"""
    import copy

    data = shipped_configs()['dynamic_obstacles_5x8']
    records = []
    for convert in (False, True, True):
        inner = factory_env_from_data(copy.deepcopy(data))
        outer = OuterEnv(
            inner,
            state_representation=make_state_representation(
                'compact', inner.state_space
            ),
            observation_representation=make_observation_representation(
                'no-overlap', inner.observation_space
            ),
        )
        inner.set_seed(123)
        outer.reset()
        rng = random.Random(5)
        record = []
        for _ in range(60):
            if convert:
                outer.state
                outer.observation
                outer.observation
            else:
                # same accesses to the inner environment, no conversion
                inner.state
                inner.observation
                inner.observation
            action = inner.action_space.actions[
                rng.randrange(inner.action_space.num_actions)
            ]
            reward, done = outer.step(action)
            record.append(
                (reward, done, inner.state.agent.position.yx,
                 tuple(tuple(map(type, row)) for row in inner.state.grid.objects),
                 tuple(tuple(map(type, row)) for row in inner.observation.grid.objects))
            )  # fmt: skip
            if done:
                outer.reset()
        records.append(record)
    assert records[0] == records[1] == records[2]


def check_space_api():
    """the new helpers against numpy (only with the commit applied)"""
    if not (hasattr(Space, 'tile') and hasattr(Space, 'dtype')):
        print('Space.tile / Space.dtype not available (clean tree): skipped')
        return

    sources = [
        Space.make_categorical_space(np.array([3, 0, 7])),
        Space.make_categorical_space(np.array([[1, 2], [3, 4], [5, 6]])),
        Space.make_categorical_space(np.array(4)),
        Space.make_discrete_space(np.array([-3, 0]), np.array([-1, 0])),
        Space.make_discrete_space(np.zeros((2, 0), int), np.zeros((2, 0), int)),
        Space.make_continuous_space(np.array([-1.0, 0.5]), np.array([1.0, 0.5])),
        Space.make_continuous_space(
            np.array([[-np.inf, 0.0]]), np.array([[0.0, np.inf]])
        ),
        Space(SpaceType.DISCRETE, np.array([1, 2], np.int8), np.array([3, 4], np.int32)),
    ]
    all_reps = [
        1, 2, 0, (1,), (3,), (2, 3), (1, 1), (2, 3, 1), (5, 7, 1), (0, 2),
        (2, 0, 1), (1, 1, 1, 1), (2, 1, 3, 2), (), np.int64(2), [2, 2],
    ]  # fmt: skip
    for source in sources:
        assert source.dtype is (
            float if source.space_type is SpaceType.CONTINUOUS else int
        )
        assert np.dtype(source.dtype) == (
            np.float64
            if source.space_type is SpaceType.CONTINUOUS
            else np.int64
        )
        lower, upper = source.lower_bound.copy(), source.upper_bound.copy()
        for reps in all_reps:
            tiled = source.tile(reps)
            assert isinstance(tiled, Space) and tiled is not source
            assert tiled.space_type is source.space_type
            assert same_array(tiled.lower_bound, np.tile(lower, reps))
            assert same_array(tiled.upper_bound, np.tile(upper, reps))
            assert tiled.shape == np.tile(lower, reps).shape
            assert tiled.dtype is source.dtype
            # new bounds, source untouched
            for a in (tiled.lower_bound, tiled.upper_bound):
                for b in (source.lower_bound, source.upper_bound):
                    assert not np.shares_memory(a, b)
            assert not np.shares_memory(tiled.lower_bound, tiled.upper_bound)
            tiled.lower_bound[...] = 0
            tiled.upper_bound[...] = 0
            assert same_array(source.lower_bound, lower)
            assert same_array(source.upper_bound, upper)
            # members tile to members
            if source.space_type is not SpaceType.CONTINUOUS:
                fresh = source.tile(reps)
                for member in (lower, upper):
                    assert source.contains(member)
                    assert fresh.contains(np.tile(member, reps))
            COUNTS['tiles'] += 1
        # invalid repetitions fail like numpy.tile does
        for reps in [-1, (2, -1), 1.5, 'a']:
            try:
                np.tile(lower, reps)
            except Exception as error:  # pylint: disable=broad-except
                expected = type(error)
            else:
                expected = None
            try:
                source.tile(reps)
            except Exception as error:  # pylint: disable=broad-except
                assert type(error) is expected, (reps, error)
            else:
                assert expected is None


def main():
    check_space_api()
    rng = random.Random(0)
    representable = [Floor, Wall, Exit, Door, Key, MovingObstacle, Telepod, Beacon]
    everything = representable + [Box]
    color_choices = [
        [],
        [Color.NONE],
        [Color.YELLOW],
        [Color.RED, Color.BLUE],
        [Color.GREEN],
        list(Color),
    ]

    # (1) every subset of the registered object types, a rotating colour subset,
    #     a rotating (mostly non-square) shape
    shapes = [(2, 2), (2, 3), (3, 2), (5, 3), (3, 7), (7, 1 + 4), (4, 9), (2, 5)]
    n = 0
    for r in range(1, len(everything) + 1):
        for subset in itertools.combinations(everything, r):
            colors = color_choices[n % len(color_choices)]
            shape = shapes[n % len(shapes)]
            # an odd-width companion so that observations are always covered
            companion = (shape[0], shape[1] | 1)
            n += 1
            check_spaces(list(subset), colors, [shape, companion], rng)
    # also explicit hidden / none-object listings and duplicated entries
    check_spaces([Floor, Hidden, NoneGridObject, Door, Door], [Color.RED], [(3, 3)], rng)
    check_spaces([NoneGridObject], [], [(2, 3)], rng)

    # (2) every colour subset, for a few object subsets, all poses
    for r in range(0, len(ALL_COLORS) + 1):
        for colors in itertools.combinations(ALL_COLORS, r):
            for subset in (
                [Door],
                [Beacon, Floor],
                [Wall, Floor, Exit, Door, Key],
                everything,
            ):
                check_spaces(
                    subset, list(colors), [(2, 2), (3, 5), (6, 3)], rng,
                    exhaustive_poses=(r in (0, 5)),
                )  # fmt: skip

    # (3) larger and extreme shapes
    check_spaces(representable, list(Color), [(13, 13), (2, 17), (16, 3), (1 + 1, 1 + 2)], rng)

    # (4) user-defined grid-objects with unusual index types
    for subset in (
        [Lamp],
        [Switch, Floor],
        [Dial, Wall],
        [Lamp, Switch, Door, Key],
        [Lamp, Switch, Dial, Beacon, Box],
        representable + [Lamp, Switch, Dial],
    ):
        for colors in ([], [Color.GREEN], list(Color)):
            check_spaces(subset, colors, [(2, 3), (4, 5), (5, 2)], rng)

    check_non_members()
    check_trajectories(num_seeds=2, num_steps=25)
    check_determinism()
    print('OK', COUNTS)


if __name__ == '__main__':
    main()
