"""Demo / regression check for refactoring B (actuate_box, pickndrop).

Run as:  cd /tmp/wt5-C10 && /venv/bin/python -W ignore _seed/B/demo.py

The reference behaviour is computed by an independent re-implementation
(`Model`, plain tuples and dicts, no library code) of the transition functions
used by the key-door environments.  The library is then driven through its
public API (transition functions, registry factory, `chain`,
`transition_with_copy`, `factory_env_from_data`, `functional_step`) and every
single transition is compared with the model.  On top of the lock-step
comparison, the C10 property is asserted directly on the library states.
"""
import itertools
import os
import sys

sys.path.insert(0, os.getcwd())

import numpy.random as rnd  # noqa: E402

from gym_gridverse.action import Action  # noqa: E402
from gym_gridverse.agent import Agent  # noqa: E402
from gym_gridverse.envs import transition_functions as tf  # noqa: E402
from gym_gridverse.envs.yaml.factory import factory_env_from_data  # noqa: E402
from gym_gridverse.geometry import Orientation, Position  # noqa: E402
from gym_gridverse.grid import Grid  # noqa: E402
from gym_gridverse.grid_object import (  # noqa: E402
    Beacon,
    Box,
    Color,
    Door,
    Exit,
    Floor,
    Key,
    MovingObstacle,
    NoneGridObject,
    Telepod,
    Wall,
)
from gym_gridverse.state import State  # noqa: E402

# --------------------------------------------------------------------------
# independent model
# --------------------------------------------------------------------------

ORDER = ['FORWARD', 'RIGHT', 'BACKWARD', 'LEFT']  # clockwise
DELTA = {
    'FORWARD': (-1, 0),
    'RIGHT': (0, 1),
    'BACKWARD': (1, 0),
    'LEFT': (0, -1),
}
MOVE_OFFSET = {
    'MOVE_FORWARD': 0,
    'MOVE_RIGHT': 1,
    'MOVE_BACKWARD': 2,
    'MOVE_LEFT': 3,
}
NONE = ('None',)
FLOOR = ('Floor',)


def m_blocks(cell):
    if cell[0] in ('Wall', 'Box'):
        return True
    if cell[0] == 'Door':
        return cell[1] != 'OPEN'
    return False


def m_holdable(cell):
    return cell[0] == 'Key'


class Model:
    """cells: dict (y, x) -> tuple;  pos: (y, x);  ori: str;  held: tuple"""

    def __init__(self, h, w, cells, pos, ori, held):
        self.h, self.w = h, w
        self.cells = dict(cells)
        self.pos, self.ori, self.held = pos, ori, held

    def copy(self):
        return Model(self.h, self.w, self.cells, self.pos, self.ori, self.held)

    def key(self):
        return (
            tuple(sorted(self.cells.items())),
            self.pos,
            self.ori,
            self.held,
        )

    def inside(self, p):
        return 0 <= p[0] < self.h and 0 <= p[1] < self.w

    def front(self):
        dy, dx = DELTA[self.ori]
        return (self.pos[0] + dy, self.pos[1] + dx)

    # -- the individual mechanisms -----------------------------------------
    def move_agent(self, a):
        if a not in MOVE_OFFSET:
            return
        d = ORDER[(ORDER.index(self.ori) + MOVE_OFFSET[a]) % 4]
        p = (self.pos[0] + DELTA[d][0], self.pos[1] + DELTA[d][1])
        if self.inside(p) and not m_blocks(self.cells[p]):
            self.pos = p

    def turn_agent(self, a):
        if a == 'TURN_LEFT':
            self.ori = ORDER[(ORDER.index(self.ori) - 1) % 4]
        elif a == 'TURN_RIGHT':
            self.ori = ORDER[(ORDER.index(self.ori) + 1) % 4]

    def actuate_door(self, a):
        if a != 'ACTUATE':
            return
        p = self.front()
        if not self.inside(p):
            return
        c = self.cells[p]
        if c[0] != 'Door':
            return
        _, status, color = c
        if status == 'CLOSED':
            self.cells[p] = ('Door', 'OPEN', color)
        elif status == 'LOCKED' and self.held == ('Key', color):
            self.cells[p] = ('Door', 'OPEN', color)

    def actuate_box(self, a):
        if a != 'ACTUATE':
            return
        p = self.front()
        if self.inside(p) and self.cells[p][0] == 'Box':
            self.cells[p] = self.cells[p][1]

    def pickndrop(self, a):
        if a != 'PICK_N_DROP':
            return
        p = self.front()
        if not self.inside(p):
            return
        c = self.cells[p]
        if not (c == FLOOR or m_holdable(c)):
            return
        self.cells[p] = FLOOR if self.held == NONE else self.held
        self.held = c if m_holdable(c) else NONE

    def apply(self, names, a):
        for n in names:
            getattr(self, n)(a)


# --------------------------------------------------------------------------
# encoding / decoding of library objects
# --------------------------------------------------------------------------


def enc(obj):
    if isinstance(obj, NoneGridObject):
        return NONE
    if isinstance(obj, Door):
        return ('Door', obj.state.name, obj.color.name)
    if isinstance(obj, Key):
        return ('Key', obj.color.name)
    if isinstance(obj, Box):
        return ('Box', enc(obj.content))
    if isinstance(obj, (Telepod, Beacon)):
        return (type(obj).__name__, obj.color.name)
    for t in (Floor, Wall, Exit, MovingObstacle):
        if isinstance(obj, t):
            return (t.__name__,)
    raise AssertionError(f'unexpected object {obj!r}')


def dec(cell):
    n = cell[0]
    if n == 'None':
        return NoneGridObject()
    if n == 'Door':
        return Door(Door.Status[cell[1]], Color[cell[2]])
    if n == 'Key':
        return Key(Color[cell[1]])
    if n == 'Box':
        return Box(dec(cell[1]))
    if n == 'Telepod':
        return Telepod(Color[cell[1]])
    if n == 'Beacon':
        return Beacon(Color[cell[1]])
    return {
        'Floor': Floor,
        'Wall': Wall,
        'Exit': Exit,
        'MovingObstacle': MovingObstacle,
    }[n]()


def enc_state(state):
    h, w = state.grid.shape.height, state.grid.shape.width
    cells = {
        (y, x): enc(state.grid[y, x]) for y in range(h) for x in range(w)
    }
    return Model(
        h,
        w,
        cells,
        state.agent.position.yx,
        state.agent.orientation.name,
        enc(state.agent.grid_object),
    )


def dec_state(m):
    objects = [[dec(m.cells[y, x]) for x in range(m.w)] for y in range(m.h)]
    return State(
        Grid(objects),
        Agent(Position(*m.pos), Orientation[m.ori], dec(m.held)),
    )


# --------------------------------------------------------------------------
# property C10 asserted directly on a (before, after) pair of library states
# --------------------------------------------------------------------------

COUNT = {'transitions': 0, 'door_opened': 0, 'locked_opened': 0, 'boxes': 0}


def check_c10(before_m, objs_before, held_before, state, action, names):
    """`before_m`: model encoding of the state before, `objs_before` the very
    python objects that were in the grid before, `state` the state after."""
    front = before_m.front()
    for p, c in before_m.cells.items():
        obj_after = state.grid[p]
        if c[0] == 'Door':
            faced = p == front and action is Action.ACTUATE
            faced = faced and 'actuate_door' in names
            moved_in = False
            if obj_after is not objs_before[p]:
                # a door is not holdable and is never replaced
                moved_in = True
            assert not moved_in, (p, c, action)
            new = obj_after.state.name
            assert obj_after.color.name == c[2]
            if new != c[1]:
                assert faced, ('door changed without faced ACTUATE', p, c)
                assert new == 'OPEN', ('door moved away from open', p, c, new)
                assert c[1] in ('CLOSED', 'LOCKED')
                COUNT['door_opened'] += 1
                if c[1] == 'LOCKED':
                    assert before_m.held == ('Key', c[2]), (c, before_m.held)
                    COUNT['locked_opened'] += 1
            elif faced:
                # unchanged although faced + actuated: open stays open,
                # locked without the right key stays locked
                assert c[1] == 'OPEN' or (
                    c[1] == 'LOCKED' and before_m.held != ('Key', c[2])
                ), (c, before_m.held)
        elif c[0] == 'Box':
            faced = p == front and action is Action.ACTUATE
            faced = faced and 'actuate_box' in names
            if faced:
                assert obj_after is objs_before[p].content
                COUNT['boxes'] += 1
            else:
                assert obj_after is objs_before[p]
                assert enc(obj_after) == c
    # keys are never consumed: the held item only changes with PICK_N_DROP
    if action is not Action.PICK_N_DROP or 'pickndrop' not in names:
        assert state.agent.grid_object is held_before
        assert enc(state.agent.grid_object) == before_m.held


def run_one(m, function, names, action, rng):
    """Runs `function` (library) on decoded `m`, compares with model `names`"""
    state = dec_state(m)
    objs_before = {p: state.grid[p] for p in m.cells}
    held_before = state.agent.grid_object
    rng_state = rng.bit_generator.state

    ret = function(state, action, rng=rng)
    assert ret is None
    assert rng.bit_generator.state == rng_state, 'random numbers consumed'

    expected = m.copy()
    expected.apply(names, action.name)
    got = enc_state(state)
    assert got.key() == expected.key(), (
        names,
        action,
        m.key(),
        got.key(),
        expected.key(),
    )
    check_c10(m, objs_before, held_before, state, action, names)
    COUNT['transitions'] += 1
    return state


# --------------------------------------------------------------------------
# object identity / aliasing of pickndrop and actuate_box
# --------------------------------------------------------------------------

COUNT.update({'picked': 0, 'dropped': 0, 'swapped': 0})


def check_identity(m, objs_before, held_before, state, action, names):
    front = m.front()
    if not m.inside(front):
        return
    c = m.cells[front]
    if action is Action.PICK_N_DROP and names == ['pickndrop']:
        applies = c == FLOOR or m_holdable(c)
        if not applies:
            assert state.grid[front] is objs_before[front]
            assert state.agent.grid_object is held_before
            return
        # what ends up in the grid: the very object that was held, or a
        # brand new floor
        if m.held == NONE:
            assert isinstance(state.grid[front], Floor)
            assert state.grid[front] is not objs_before[front]
        else:
            assert state.grid[front] is held_before
        # what ends up in the hand: the very object that was in front, or a
        # brand new none-object
        if m_holdable(c):
            assert state.agent.grid_object is objs_before[front]
            COUNT['swapped' if m.held != NONE else 'picked'] += 1
        else:
            assert isinstance(state.agent.grid_object, NoneGridObject)
            assert state.agent.grid_object is not held_before
            if m.held != NONE:
                COUNT['dropped'] += 1
    if action is Action.ACTUATE and names == ['actuate_box']:
        if c[0] == 'Box':
            assert state.grid[front] is objs_before[front].content
            # the opened box itself is left untouched
            assert enc(objs_before[front]) == c
        else:
            assert state.grid[front] is objs_before[front]


def run_one_b(m, function, names, action, rng):
    state = dec_state(m)
    objs_before = {p: state.grid[p] for p in m.cells}
    held_before = state.agent.grid_object
    rng_state = rng.bit_generator.state

    ret = function(state, action, rng=rng)
    assert ret is None
    assert rng.bit_generator.state == rng_state, 'random numbers consumed'

    expected = m.copy()
    expected.apply(names, action.name)
    got = enc_state(state)
    assert got.key() == expected.key(), (
        names,
        action,
        m.key(),
        got.key(),
        expected.key(),
    )
    check_c10(m, objs_before, held_before, state, action, names)
    check_identity(m, objs_before, held_before, state, action, names)
    # every other cell holds the very same object as before
    front = m.front()
    for p in m.cells:
        if p != front:
            assert state.grid[p] is objs_before[p]
    COUNT['transitions'] += 1


# --------------------------------------------------------------------------
# part 1: exhaustive sweep on small hand-made grids
# --------------------------------------------------------------------------

COLORS = [c.name for c in Color]
STATUSES = ['OPEN', 'CLOSED', 'LOCKED']


def part1():
    rng = rnd.default_rng(11)
    h, w = 3, 3
    target_pos = (1, 1)
    other_pos = (2, 0)  # a corner: can be faced from two cells only

    targets = [('Box', FLOOR), ('Box', ('Wall',)), ('Box', ('Exit',))]
    targets += [('Box', ('Key', c)) for c in COLORS]
    targets += [('Box', ('Door', s, 'GREEN')) for s in STATUSES]
    targets += [
        ('Box', ('Box', ('Key', 'BLUE'))),
        ('Box', ('Box', ('Box', FLOOR))),
        ('Box', ('MovingObstacle',)),
        ('Box', ('Telepod', 'RED')),
        ('Box', ('Beacon', 'BLUE')),
    ]
    targets += [('Key', c) for c in COLORS]
    targets += [('Door', s, 'BLUE') for s in STATUSES]
    targets += [
        FLOOR,
        ('Wall',),
        ('Exit',),
        ('MovingObstacle',),
        ('Telepod', 'GREEN'),
        ('Beacon', 'NONE'),
    ]
    others = [
        ('Box', ('Key', 'YELLOW')),
        ('Key', 'BLUE'),
        ('Door', 'LOCKED', 'BLUE'),
    ]
    helds = [NONE] + [('Key', c) for c in COLORS]
    helds += [
        ('MovingObstacle',),
        ('Door', 'LOCKED', 'BLUE'),
        ('Box', ('Key', 'RED')),
        FLOOR,
        ('Wall',),
    ]

    chain_names = [
        ['move_agent', 'turn_agent', 'actuate_door', 'pickndrop'],  # keydoor
        ['move_agent', 'turn_agent', 'actuate_door', 'actuate_box', 'pickndrop'],
    ]
    functions = [
        (tf.actuate_box, ['actuate_box']),
        (tf.factory('actuate_box'), ['actuate_box']),
        (tf.pickndrop, ['pickndrop']),
        (tf.factory('pickndrop'), ['pickndrop']),
    ]
    for names in chain_names:
        functions.append(
            (
                tf.factory(
                    'chain',
                    transition_functions=[tf.factory(n) for n in names],
                ),
                names,
            )
        )

    positions = [(y, x) for y in range(h) for x in range(w)]
    combos = itertools.product(enumerate(targets), enumerate(helds))
    for (i, target), (j, held) in combos:
        other = others[(i + j) % len(others)]
        cells = {p: FLOOR for p in positions}
        cells[target_pos] = target
        cells[other_pos] = other
        for pos, ori in itertools.product(positions, ORDER):
            m = Model(h, w, cells, pos, ori, held)
            for action in Action:
                for function, names in functions:
                    run_one_b(m, function, names, action, rng)


# --------------------------------------------------------------------------
# part 2: unusual inputs
# --------------------------------------------------------------------------


class Crate(Box):
    """a user-defined box: the mechanism works through isinstance"""


class Gem(Key):
    """a user-defined holdable object"""


def part2():
    # registered names are intact (private helpers must not be registered)
    assert sorted(tf.transition_function_registry.keys()) == [
        'actuate_box',
        'actuate_door',
        'chain',
        'move_agent',
        'move_obstacles',
        'pickndrop',
        'teleport',
        'turn_agent',
    ]
    assert tf.transition_function_registry['actuate_door'] is tf.actuate_door
    assert tf.transition_function_registry['actuate_box'] is tf.actuate_box
    assert tf.transition_function_registry['pickndrop'] is tf.pickndrop

    # 1x1 grid: every faced cell is outside the grid
    for ori in Orientation:
        for action in Action:
            box = Box(Key(Color.RED))
            key = Key(Color.RED)
            state = State(Grid([[box]]), Agent(Position(0, 0), ori, key))
            tf.actuate_box(state, action)
            tf.pickndrop(state, action)
            assert state.grid[0, 0] is box
            assert state.agent.grid_object is key

    # subclasses
    for action in Action:
        content = Gem(Color.GREEN)
        crate = Crate(content)
        state = State(
            Grid([[crate], [Floor()]]),
            Agent(Position(1, 0), Orientation.F),
        )
        tf.actuate_box(state, action)
        if action is Action.ACTUATE:
            assert state.grid[0, 0] is content
        else:
            assert state.grid[0, 0] is crate
        assert crate.content is content
        tf.pickndrop(state, action)
        if action is Action.PICK_N_DROP:
            assert state.grid[0, 0] is crate
            assert isinstance(state.agent.grid_object, NoneGridObject)

    # picking up the content of a just opened box, with and without swap
    for held in [None, Key(Color.BLUE)]:
        content = Gem(Color.GREEN)
        state = State(
            Grid([[Floor()], [Crate(content)], [Floor()]]),
            Agent(Position(2, 0), Orientation.F, held),
        )
        tf.actuate_box(state, Action.ACTUATE)
        tf.pickndrop(state, Action.PICK_N_DROP)
        assert state.agent.grid_object is content
        if held is None:
            assert type(state.grid[1, 0]) is Floor
        else:
            assert state.grid[1, 0] is held

    # holding something which is not a grid-object: the grid refuses it, and
    # nothing is modified
    state = State(
        Grid([[Key(Color.RED)], [Floor()]]),
        Agent(Position(1, 0), Orientation.F),
    )
    key = state.grid[0, 0]
    state.agent.grid_object = 'not a grid object'
    try:
        tf.pickndrop(state, Action.PICK_N_DROP)
    except TypeError:
        pass
    else:
        raise AssertionError('expected TypeError')
    assert state.grid[0, 0] is key
    assert state.agent.grid_object == 'not a grid object'

    # rng keyword may be omitted or None;  positional rng is not accepted
    for function in (tf.actuate_box, tf.pickndrop):
        state = State(
            Grid([[Box(Floor())], [Floor()]]),
            Agent(Position(1, 0), Orientation.F),
        )
        function(state, Action.ACTUATE, rng=None)
        try:
            function(state, Action.ACTUATE, None)
        except TypeError:
            pass
        else:
            raise AssertionError('rng must be keyword-only')

    # transition_with_copy leaves the input untouched
    state = State(
        Grid([[Box(Key(Color.RED))], [Floor()]]),
        Agent(Position(1, 0), Orientation.F, Key(Color.BLUE)),
    )
    nxt = tf.transition_with_copy(tf.actuate_box, state, Action.ACTUATE)
    assert enc(state.grid[0, 0]) == ('Box', ('Key', 'RED'))
    assert enc(nxt.grid[0, 0]) == ('Key', 'RED')
    nxt2 = tf.transition_with_copy(tf.pickndrop, nxt, Action.PICK_N_DROP)
    assert enc(nxt.grid[0, 0]) == ('Key', 'RED')
    assert enc(nxt2.grid[0, 0]) == ('Key', 'BLUE')
    assert enc(nxt2.agent.grid_object) == ('Key', 'RED')


# --------------------------------------------------------------------------
# part 3: exhaustive reachability of a hand-made world with boxes, keys, doors
# --------------------------------------------------------------------------

BOX_NAMES = ['move_agent', 'turn_agent', 'actuate_door', 'actuate_box', 'pickndrop']


def part3_boxworld():
    """
        ..bD..      b = box with yellow key, D = locked yellow door
        .B.#d.      B = box with a box with a red key, d = locked red door
        @###.E      @ = agent, E = exit, # = wall, . = floor
    """
    layouts = []
    h, w = 3, 6
    cells = {(y, x): FLOOR for y in range(h) for x in range(w)}
    cells[0, 2] = ('Box', ('Key', 'YELLOW'))
    cells[1, 1] = ('Box', ('Box', ('Key', 'RED')))
    cells[0, 3] = ('Door', 'LOCKED', 'YELLOW')
    cells[1, 3] = ('Wall',)
    cells[2, 3] = ('Wall',)
    cells[2, 1] = ('Wall',)
    cells[2, 2] = ('Wall',)
    cells[1, 4] = ('Door', 'LOCKED', 'RED')
    cells[2, 5] = ('Exit',)
    layouts.append(Model(h, w, cells, (2, 0), 'FORWARD', NONE))

    h, w = 2, 4
    cells = {(y, x): FLOOR for y in range(h) for x in range(w)}
    cells[0, 1] = ('Box', ('Door', 'LOCKED', 'BLUE'))
    cells[1, 2] = ('Box', ('Key', 'BLUE'))
    cells[0, 3] = ('Door', 'CLOSED', 'BLUE')
    layouts.append(Model(h, w, cells, (1, 0), 'RIGHT', ('Key', 'GREEN')))

    function = tf.factory(
        'chain', transition_functions=[tf.factory(n) for n in BOX_NAMES]
    )
    total = 0
    for m0 in layouts:
        start = dec_state(m0)
        # "history" flags: which locked doors (by colour) were legitimately
        # unlocked, and which boxes (by depth-first id) were legitimately opened
        seen = {(m0.key(), frozenset())}
        frontier = [(start, m0, frozenset())]
        while frontier:
            state, m, unlocked = frontier.pop()
            total += 1
            for action in Action:
                nxt = tf.transition_with_copy(function, state, action)
                expected = m.copy()
                expected.apply(BOX_NAMES, action.name)
                got = enc_state(nxt)
                assert got.key() == expected.key(), (action, m.key())
                assert enc_state(state).key() == m.key()

                front = m.front()
                nxt_unlocked = unlocked
                if action is Action.ACTUATE and m.inside(front):
                    c = m.cells[front]
                    if c[0] == 'Door' and c[1] == 'LOCKED':
                        if m.held == ('Key', c[2]):
                            nxt_unlocked = unlocked | {c[2]}
                # a locked door is never found open unless its key was used
                for p, c in m0.cells.items():
                    if c[0] == 'Door' and c[1] == 'LOCKED':
                        now = got.cells[p]
                        assert now[0] == 'Door' and now[2] == c[2]
                        assert (now[1] == 'OPEN') == (c[2] in nxt_unlocked)
                        assert now[1] in ('OPEN', 'LOCKED')
                # boxes only disappear when faced and actuated
                for p, c in m.cells.items():
                    if c[0] == 'Box':
                        if action is Action.ACTUATE and p == front:
                            assert got.cells[p] == c[1]
                        else:
                            assert got.cells[p] == c
                # conservation: keys (also those still inside boxes) are
                # never created nor consumed
                assert all_keys(got) == all_keys(m0)
                COUNT['transitions'] += 1

                k = (got.key(), nxt_unlocked)
                if k not in seen:
                    seen.add(k)
                    frontier.append((nxt, got, nxt_unlocked))
    return total


def keys_in(cell):
    if cell[0] == 'Key':
        return [cell[1]]
    if cell[0] == 'Box':
        return keys_in(cell[1])
    return []


def all_keys(m):
    keys = keys_in(m.held)
    for c in m.cells.values():
        keys += keys_in(c)
    return sorted(keys)


# --------------------------------------------------------------------------
# part 4: the key-door environment (pickndrop is part of its dynamics)
# --------------------------------------------------------------------------

KEYDOOR_NAMES = ['move_agent', 'turn_agent', 'actuate_door', 'pickndrop']


def keydoor_env(height, width):
    data = {
        'state_space': {
            'objects': ['Wall', 'Floor', 'Exit', 'Door', 'Key'],
            'colors': ['NONE', 'YELLOW'],
        },
        'observation_space': {
            'objects': ['Wall', 'Floor', 'Exit', 'Door', 'Key'],
            'colors': ['NONE', 'YELLOW'],
        },
        'reset_function': {'name': 'keydoor', 'shape': [height, width]},
        'transition_functions': [{'name': n} for n in KEYDOOR_NAMES],
        'reward_functions': [
            {'name': 'reach_exit', 'reward_on': 5.0, 'reward_off': 0.0},
            {
                'name': 'pickndrop',
                'object_type': 'Key',
                'reward_pick': 1.0,
                'reward_drop': -1.0,
            },
            {'name': 'living_reward', 'reward': -0.05},
        ],
        'observation_function': {
            'name': 'partially_occluded',
            'area': [[-6, 0], [-3, 3]],
        },
        'terminating_function': {'name': 'reach_exit'},
    }
    return factory_env_from_data(data)


def part4_bfs(height, width, seeds):
    env = keydoor_env(height, width)
    n_states = 0
    for seed in seeds:
        env.set_seed(seed)
        start = env.functional_reset()
        m0 = enc_state(start)
        (door_pos,) = [p for p, c in m0.cells.items() if c[0] == 'Door']
        assert m0.cells[door_pos] == ('Door', 'LOCKED', 'YELLOW')
        seen = {(m0.key(), False)}
        frontier = [(start, m0, False)]
        while frontier:
            state, m, unlocked = frontier.pop()
            n_states += 1
            for action in Action:
                nxt, reward, done = env.functional_step(state, action)
                expected = m.copy()
                expected.apply(KEYDOOR_NAMES, action.name)
                got = enc_state(nxt)
                assert got.key() == expected.key(), (seed, action, m.key())
                assert enc_state(state).key() == m.key()

                used_key = (
                    action is Action.ACTUATE
                    and m.front() == door_pos
                    and m.held == ('Key', 'YELLOW')
                )
                nxt_unlocked = unlocked or used_key
                status = got.cells[door_pos][1]
                assert (status == 'OPEN') == nxt_unlocked, (seed, action)
                assert status in ('OPEN', 'LOCKED')

                # reward of the pickndrop reward function: +1 on picking up
                # the key, -1 on dropping it
                had, has = m.held[0] == 'Key', got.held[0] == 'Key'
                reach = got.cells[got.pos][0] == 'Exit'
                want = -0.05 + (5.0 if reach else 0.0)
                want += 1.0 if (has and not had) else 0.0
                want -= 1.0 if (had and not has) else 0.0
                assert abs(reward - want) < 1e-9, (reward, want, action)
                assert done == reach
                assert all_keys(got) == ['YELLOW']
                COUNT['transitions'] += 1

                k = (got.key(), nxt_unlocked)
                if k not in seen and not done:
                    seen.add(k)
                    frontier.append((nxt, got, nxt_unlocked))
    return n_states


def part4_rollouts(height, width, seeds, steps):
    env = keydoor_env(height, width)
    actions = list(Action)
    for seed in seeds:
        env.set_seed(seed)
        env.reset()
        policy = rnd.default_rng(2000 + seed)
        m = enc_state(env.state)
        for _ in range(steps):
            # biased towards the interesting actions
            i = policy.integers(len(actions) + 2)
            action = actions[i] if i < len(actions) else Action.PICK_N_DROP
            reward, done = env.step(action)
            m.apply(KEYDOOR_NAMES, action.name)
            got = enc_state(env.state)
            assert got.key() == m.key(), (seed, action)
            assert all_keys(got) == ['YELLOW']
            COUNT['transitions'] += 1
            if done:
                env.reset()
                m = enc_state(env.state)


def main():
    part1()
    print('part1 ok', COUNT)
    part2()
    print('part2 ok')
    n = part3_boxworld()
    print('part3 box world ok, states expanded:', n)
    n = part4_bfs(5, 6, seeds=range(4))
    n += part4_bfs(4, 5, seeds=range(4))
    print('part4 bfs ok, states expanded:', n)
    part4_rollouts(7, 7, seeds=range(8), steps=400)
    part4_rollouts(6, 10, seeds=range(4), steps=400)
    print('part4 rollouts ok', COUNT)
    for k in ('door_opened', 'locked_opened', 'boxes', 'picked', 'dropped',
              'swapped'):
        assert COUNT[k] > 0, k
    print('ALL OK')


if __name__ == '__main__':
    main()
