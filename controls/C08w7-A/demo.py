"""Checks agent kinematics (C08) against an independent re-implementation.

Run as:  cd /tmp/wt7-C08 && /venv/bin/python -W ignore _seed/A/demo.py

Exits 0 on the clean tree and with commit A applied (displacement table built
at import time in gym_gridverse.envs.utils.get_next_position).
"""
import hashlib
import os
import sys

sys.path.insert(0, os.getcwd())

import numpy.random as rnd  # noqa: E402

from gym_gridverse.action import Action  # noqa: E402
from gym_gridverse.agent import Agent  # noqa: E402
from gym_gridverse.envs import reset_functions as reset_fs  # noqa: E402
from gym_gridverse.envs import reward_functions as reward_fs  # noqa: E402
from gym_gridverse.envs import terminating_functions as terminating_fs  # noqa: E402
from gym_gridverse.envs import transition_functions as transition_fs  # noqa: E402
from gym_gridverse.envs.utils import get_next_position  # noqa: E402
from gym_gridverse.geometry import Orientation, Position, Shape  # noqa: E402
from gym_gridverse.grid import Grid  # noqa: E402
from gym_gridverse.grid_object import (  # noqa: E402
    Beacon,
    Box,
    Color,
    Door,
    Exit,
    Floor,
    Hidden,
    Key,
    MovingObstacle,
    NoneGridObject,
    Telepod,
    Wall,
)
from gym_gridverse.state import State  # noqa: E402

# ---------------------------------------------------------------------------
# independent reference model:  compass headings, clockwise N, E, S, W
# ---------------------------------------------------------------------------

COMPASS = [(-1, 0), (0, 1), (1, 0), (0, -1)]  # N, E, S, W as (dy, dx)
HEADING = {'FORWARD': 0, 'RIGHT': 1, 'BACKWARD': 2, 'LEFT': 3}
MOVE_QUARTERS = {  # clockwise quarter turns between heading and displacement
    'MOVE_FORWARD': 0,
    'MOVE_RIGHT': 1,
    'MOVE_BACKWARD': 2,
    'MOVE_LEFT': 3,
}
TURN_QUARTERS = {'TURN_RIGHT': 1, 'TURN_LEFT': 3}
ORIENTATIONS = [
    Orientation.FORWARD,
    Orientation.RIGHT,
    Orientation.BACKWARD,
    Orientation.LEFT,
]  # indexed by clockwise heading
ALL_ACTIONS = list(Action)
assert len(ALL_ACTIONS) == 8 and len(list(Orientation)) == 4


def ref_next_yx(y, x, orientation, action):
    """tentative next coordinates, ignoring the grid"""
    if action.name not in MOVE_QUARTERS:
        return y, x
    h = (HEADING[orientation.name] + MOVE_QUARTERS[action.name]) % 4
    dy, dx = COMPASS[h]
    return y + dy, x + dx


def ref_blocks(obj):
    """movement blocking, from the documented object semantics"""
    if isinstance(obj, (Wall, Box)):
        return True
    if isinstance(obj, Door):
        return obj.state is not Door.Status.OPEN
    return False


def ref_move(height, width, cells, y, x, orientation, action):
    """reference move on a height x width world (cells[y][x] are objects)"""
    ny, nx = ref_next_yx(y, x, orientation, action)
    if (ny, nx) == (y, x):
        return y, x
    if not (0 <= ny < height and 0 <= nx < width):
        return y, x
    if ref_blocks(cells[ny][nx]):
        return y, x
    return ny, nx


def ref_turn(orientation, action):
    if action.name not in TURN_QUARTERS:
        return orientation
    h = (HEADING[orientation.name] + TURN_QUARTERS[action.name]) % 4
    return ORIENTATIONS[h]


def rng_state(rng):
    return repr(rng.bit_generator.state)


# ---------------------------------------------------------------------------
# 1. get_next_position, everywhere (negative coordinates included)
# ---------------------------------------------------------------------------


def check_get_next_position():
    count = 0
    for y in range(-4, 9):
        for x in range(-4, 9):
            for orientation in Orientation:
                for action in ALL_ACTIONS:
                    position = Position(y, x)
                    result = get_next_position(position, orientation, action)
                    assert type(result) is Position
                    assert result.yx == ref_next_yx(y, x, orientation, action)
                    assert position.yx == (y, x)  # argument untouched
                    if action.is_move():
                        # a fresh object at distance exactly one
                        assert result is not position
                        assert abs(result.y - y) + abs(result.x - x) == 1
                    else:
                        # documented behaviour: the very same position
                        assert result is position
                    count += 1

    # aliases of the orientations are the same members
    for alias, member in [
        (Orientation.F, Orientation.FORWARD),
        (Orientation.B, Orientation.BACKWARD),
        (Orientation.L, Orientation.LEFT),
        (Orientation.R, Orientation.RIGHT),
    ]:
        assert alias is member
        for action in ALL_ACTIONS:
            assert get_next_position(
                Position(2, 3), alias, action
            ) == get_next_position(Position(2, 3), member, action)

    # big coordinates
    big = 10**12
    assert get_next_position(
        Position(big, -big), Orientation.L, Action.MOVE_LEFT
    ) == Position(big + 1, -big)

    # results do not alias each other, nor any shared table entry
    a = get_next_position(Position(0, 0), Orientation.F, Action.MOVE_FORWARD)
    b = get_next_position(Position(0, 0), Orientation.F, Action.MOVE_FORWARD)
    assert a == b == Position(-1, 0) and a is not b
    return count


def raised(function, *args):
    try:
        function(*args)
    except Exception as error:  # pylint: disable=broad-except
        return type(error)
    return None


def check_unusual_arguments():
    """arguments outside the annotated types behave as they always have"""
    position = Position(3, 3)
    moves = [a for a in ALL_ACTIONS if a.is_move()]
    others = [a for a in ALL_ACTIONS if not a.is_move()]

    for orientation in [None, 0, 'FORWARD', [Orientation.F], (0, 1), 1.5]:
        for action in moves:
            assert (
                raised(get_next_position, position, orientation, action)
                is TypeError
            ), (orientation, action)
        for action in others:
            # orientation is not even looked at
            assert (
                get_next_position(position, orientation, action) is position
            )

    # a position in place of the orientation is rotated and then rejected
    for action in moves:
        assert (
            raised(get_next_position, position, Position(0, 1), action)
            is TypeError
        )

    # things which are not actions are `not a movement`
    for action in [None, 0, 'MOVE_FORWARD', (Action.MOVE_FORWARD,), 2.0]:
        for orientation in Orientation:
            assert get_next_position(position, orientation, action) is position
    # ... unless they cannot be looked up at all
    for action in [[Action.MOVE_FORWARD], {}, set()]:
        for orientation in Orientation:
            assert (
                raised(get_next_position, position, orientation, action)
                is TypeError
            )

    # positions which are not positions
    for bad in [(3, 3), [3, 3], None, 3]:
        for action in moves:
            assert (
                raised(get_next_position, bad, Orientation.F, action)
                is TypeError
            )
        for action in others:
            assert get_next_position(bad, Orientation.F, action) is bad


# ---------------------------------------------------------------------------
# 2. move_agent / turn_agent on every cell of small worlds, every target kind
# ---------------------------------------------------------------------------

CELL_FACTORIES = [
    Floor,
    Wall,
    Exit,
    lambda: Exit(Color.GREEN),
    lambda: Door(Door.Status.OPEN, Color.RED),
    lambda: Door(Door.Status.CLOSED, Color.RED),
    lambda: Door(Door.Status.LOCKED, Color.BLUE),
    lambda: Key(Color.YELLOW),
    MovingObstacle,
    lambda: Box(Floor()),
    lambda: Box(Key(Color.RED)),
    lambda: Telepod(Color.RED),
    lambda: Beacon(Color.GREEN),
    Hidden,
    NoneGridObject,
]

SHAPES = [(1, 1), (1, 4), (4, 1), (2, 3), (3, 2), (3, 5), (6, 4)]


def identity_map(grid):
    return [[id(obj) for obj in row] for row in grid.objects]


def check_single_transitions():
    move_agent = transition_fs.factory('move_agent')
    turn_agent = transition_fs.factory('turn_agent')
    both = transition_fs.factory(
        'chain', transition_functions=[move_agent, turn_agent]
    )
    bump_reward = reward_fs.factory('bump_into_wall', reward=-3.5)
    bump_done = terminating_fs.factory('bump_into_wall')
    count = 0

    for height, width in SHAPES:
        for make in CELL_FACTORIES:
            grid = Grid.from_shape((height, width), factory=make)
            assert grid.shape == Shape(height, width)
            ids = identity_map(grid)
            rows = [id(row) for row in grid.objects]
            held = Key(Color.GREEN)
            rng = rnd.default_rng(7)
            before_rng = rng_state(rng)

            for y in range(height):
                for x in range(width):
                    for orientation in Orientation:
                        for action in ALL_ACTIONS:
                            expected_yx = ref_move(
                                height,
                                width,
                                grid.objects,
                                y,
                                x,
                                orientation,
                                action,
                            )
                            expected_o = ref_turn(orientation, action)

                            # move_agent alone
                            state = State(
                                grid, Agent(Position(y, x), orientation, held)
                            )
                            assert move_agent(state, action, rng=rng) is None
                            assert state.agent.position.yx == expected_yx
                            assert state.agent.orientation is orientation
                            assert state.agent.grid_object is held
                            assert type(state.agent.position) is Position
                            moved = expected_yx != (y, x)
                            if moved:
                                assert action.is_move()
                                target = grid[expected_yx]
                                assert not target.blocks_movement
                            elif action.is_move():
                                ny, nx = ref_next_yx(y, x, orientation, action)
                                inside = 0 <= ny < height and 0 <= nx < width
                                assert (
                                    not inside
                                    or grid[ny, nx].blocks_movement
                                )

                            # turn_agent alone
                            state = State(
                                grid, Agent(Position(y, x), orientation, held)
                            )
                            start = state.agent.position
                            assert turn_agent(state, action, rng=rng) is None
                            assert state.agent.position is start
                            assert state.agent.orientation is expected_o

                            # the chain, through the copying helper
                            state = State(
                                grid, Agent(Position(y, x), orientation, held)
                            )
                            next_state = transition_fs.transition_with_copy(
                                both, state, action, rng=rng
                            )
                            assert state.agent.position.yx == (y, x)
                            assert state.agent.orientation is orientation
                            assert next_state.agent.position.yx == expected_yx
                            assert next_state.agent.orientation is expected_o
                            assert next_state.grid == grid

                            # the other users of the tentative position
                            ty, tx = ref_next_yx(y, x, orientation, action)
                            bumps = (
                                0 <= ty < height
                                and 0 <= tx < width
                                and isinstance(grid.objects[ty][tx], Wall)
                            )
                            r = bump_reward(state, action, next_state, rng=rng)
                            assert r == (-3.5 if bumps else 0.0)
                            d = bump_done(state, action, next_state, rng=rng)
                            assert d is bumps

                            # without an rng at all
                            state = State(
                                grid, Agent(Position(y, x), orientation)
                            )
                            both(state, action)
                            assert state.agent.position.yx == expected_yx
                            assert state.agent.orientation is expected_o

                            count += 1

            # kinematics never touch the grid, nor draw random numbers
            assert identity_map(grid) == ids
            assert [id(row) for row in grid.objects] == rows
            assert rng_state(rng) == before_rng

    return count


def check_turn_algebra():
    turn_agent = transition_fs.factory('turn_agent')
    grid = Grid.from_shape((2, 3))
    for orientation in Orientation:
        for y, x in [(0, 0), (1, 2), (0, 1)]:
            state = State(grid, Agent(Position(y, x), orientation))
            turn_agent(state, Action.TURN_LEFT)
            assert state.agent.orientation is not orientation
            turn_agent(state, Action.TURN_RIGHT)
            assert state.agent.orientation is orientation
            turn_agent(state, Action.TURN_RIGHT)
            turn_agent(state, Action.TURN_LEFT)
            assert state.agent.orientation is orientation
            for action in [Action.TURN_LEFT, Action.TURN_RIGHT]:
                seen = []
                for _ in range(4):
                    turn_agent(state, action)
                    seen.append(state.agent.orientation)
                assert seen[-1] is orientation
                assert len(set(seen)) == 4
                assert state.agent.position == Position(y, x)


# ---------------------------------------------------------------------------
# 3. rollouts in the shipped configurations (and non-square variants)
# ---------------------------------------------------------------------------

KINEMATICS = ['move_agent', 'turn_agent']
COLORS = {Color.RED, Color.GREEN, Color.BLUE, Color.YELLOW}
SIX = ALL_ACTIONS[:6]
assert [a.name for a in SIX] == [
    'MOVE_FORWARD',
    'MOVE_BACKWARD',
    'MOVE_LEFT',
    'MOVE_RIGHT',
    'TURN_LEFT',
    'TURN_RIGHT',
]

CONFIGS = [
    # (reset name, reset kwargs, transition function names, actions)
    ('crossing', dict(shape=Shape(5, 5), num_rivers=1, object_type=Wall), KINEMATICS, SIX),
    ('crossing', dict(shape=Shape(7, 7), num_rivers=2, object_type=Wall), KINEMATICS, SIX),
    ('crossing', dict(shape=Shape(7, 9), num_rivers=2, object_type=Wall), KINEMATICS, ALL_ACTIONS),
    ('dynamic_obstacles', dict(shape=Shape(5, 5), num_obstacles=1, random_agent=False), KINEMATICS + ['move_obstacles'], SIX),
    ('dynamic_obstacles', dict(shape=Shape(7, 7), num_obstacles=2, random_agent=False), KINEMATICS + ['move_obstacles'], SIX),
    ('dynamic_obstacles', dict(shape=Shape(5, 8), num_obstacles=3, random_agent=True), KINEMATICS + ['move_obstacles'], ALL_ACTIONS),
    ('empty', dict(shape=Shape(4, 4), random_agent=True), KINEMATICS, SIX),
    ('empty', dict(shape=Shape(8, 8), random_agent=True), KINEMATICS, SIX),
    ('empty', dict(shape=Shape(4, 9), random_agent=True, random_exit=True), KINEMATICS, ALL_ACTIONS),
    ('empty', dict(shape=Shape(10, 4), random_agent=True), KINEMATICS, ALL_ACTIONS),
    ('rooms', dict(shape=Shape(7, 7), layout=(2, 2)), KINEMATICS, SIX),
    ('rooms', dict(shape=Shape(9, 9), layout=(2, 2)), KINEMATICS, SIX),
    ('rooms', dict(shape=Shape(10, 10), layout=(3, 3)), KINEMATICS, SIX),
    ('rooms', dict(shape=Shape(13, 13), layout=(3, 3)), KINEMATICS, SIX),
    ('rooms', dict(shape=Shape(7, 13), layout=(2, 3)), KINEMATICS, ALL_ACTIONS),
    ('keydoor', dict(shape=Shape(5, 5)), KINEMATICS + ['actuate_door', 'pickndrop'], ALL_ACTIONS),
    ('keydoor', dict(shape=Shape(7, 7)), KINEMATICS + ['actuate_door', 'pickndrop'], ALL_ACTIONS),
    ('keydoor', dict(shape=Shape(9, 9)), KINEMATICS + ['actuate_door', 'pickndrop'], ALL_ACTIONS),
    ('keydoor', dict(shape=Shape(6, 9)), KINEMATICS + ['actuate_door', 'pickndrop'], ALL_ACTIONS),
    ('memory', dict(shape=Shape(5, 5), colors=COLORS), KINEMATICS, SIX),
    ('memory', dict(shape=Shape(9, 9), colors=COLORS), KINEMATICS, SIX),
    ('memory', dict(shape=Shape(6, 9), colors=COLORS), KINEMATICS, ALL_ACTIONS),
    ('memory_rooms', dict(shape=Shape(7, 7), layout=(2, 2), colors=COLORS, num_beacons=1, num_exits=2), KINEMATICS, SIX),
    ('memory_rooms', dict(shape=Shape(9, 9), layout=(2, 2), colors=COLORS, num_beacons=1, num_exits=2), KINEMATICS, SIX),
    ('memory_rooms', dict(shape=Shape(10, 10), layout=(3, 3), colors=COLORS, num_beacons=1, num_exits=2), KINEMATICS, SIX),
    ('memory_rooms', dict(shape=Shape(13, 13), layout=(3, 3), colors=COLORS, num_beacons=1, num_exits=2), KINEMATICS, SIX),
    ('teleport', dict(shape=Shape(5, 5)), KINEMATICS + ['teleport'], SIX),
    ('teleport', dict(shape=Shape(7, 7)), KINEMATICS + ['teleport'], SIX),
    ('teleport', dict(shape=Shape(5, 9)), KINEMATICS + ['teleport'], ALL_ACTIONS),
]


def encode(state):
    cells = ';'.join(
        ','.join(
            f'{type(obj).__name__}.{obj.state_index}.{obj.color.name}'
            for obj in row
        )
        for row in state.grid.objects
    )
    held = state.agent.grid_object
    return (
        f'{state.agent.position.y},{state.agent.position.x},'
        f'{state.agent.orientation.name},'
        f'{type(held).__name__}.{held.color.name}|{cells}'
    )


def check_rollouts(num_seeds=12, num_steps=80):
    digest = hashlib.sha256()
    count = 0

    for name, kwargs, transition_names, actions in CONFIGS:
        reset = reset_fs.factory(name, **kwargs)
        transition = transition_fs.factory(
            'chain',
            transition_functions=[
                transition_fs.factory(n) for n in transition_names
            ],
        )
        teleports = 'teleport' in transition_names

        for seed in range(num_seeds):
            rng = rnd.default_rng(seed)
            action_rng = rnd.default_rng(1000 + seed)
            state = reset(rng=rng)
            height, width = state.grid.shape.as_tuple
            assert (height, width) == kwargs['shape'].as_tuple
            digest.update(encode(state).encode())

            for _ in range(num_steps):
                # the property, in every reachable state
                position = state.agent.position
                assert 0 <= position.y < height and 0 <= position.x < width
                assert not state.grid[position].blocks_movement
                assert not ref_blocks(state.grid[position])

                action = actions[action_rng.integers(len(actions))]
                expected_yx = ref_move(
                    height,
                    width,
                    state.grid.objects,
                    position.y,
                    position.x,
                    state.agent.orientation,
                    action,
                )
                expected_o = ref_turn(state.agent.orientation, action)

                pods = {}
                if teleports:
                    for pos in state.grid.area.positions():
                        if isinstance(state.grid[pos], Telepod):
                            pods[pos.yx] = state.grid[pos].color

                state = transition_fs.transition_with_copy(
                    transition, state, action, rng=rng
                )

                assert state.agent.orientation is expected_o
                if expected_yx in pods:
                    others = [
                        yx
                        for yx, color in pods.items()
                        if yx != expected_yx and color == pods[expected_yx]
                    ]
                    if others:
                        assert state.agent.position.yx in others
                    else:
                        assert state.agent.position.yx == expected_yx
                else:
                    assert state.agent.position.yx == expected_yx

                digest.update(action.name.encode())
                digest.update(encode(state).encode())
                count += 1

            # the random stream ends where it always has
            digest.update(rng_state(rng).encode())

    return count, digest.hexdigest()


# recorded on the clean tree (before any change)
RECORDED_ROLLOUT_DIGEST = (
    'da33ce736315d4ca1c210066526a845ca0961c55863642109ee9d6fdd7298a72'
)


def main():
    for run in range(2):  # twice in one process: nothing may depend on history
        n_positions = check_get_next_position()
        check_unusual_arguments()
        n_single = check_single_transitions()
        check_turn_algebra()
        n_steps, digest = check_rollouts()
        print(
            f'run {run}: get_next_position cases={n_positions} '
            f'single transitions={n_single} rollout steps={n_steps} '
            f'digest={digest}'
        )
        assert digest == RECORDED_ROLLOUT_DIGEST, digest

    print('OK')


if __name__ == '__main__':
    main()
