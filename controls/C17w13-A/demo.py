#!/usr/bin/env python
"""Demo for change A (component `factory` functions query the registry once).

Run from the worktree root:  /venv/bin/python _seed/A/demo.py

Exits 0 on the pristine tree and with the change applied.  Checks, against a
reference spelled in this file (the pristine factory, and an independent
hand-assembly which binds registered functions with functools.partial):

* `factory(name, **kwargs)` of all six component modules, on every registered
  name x systematic keyword sets (missing / extra / protocol-named / reordered
  keywords), and on functions with unusual signatures registered on the fly;
* that a component obtained by name behaves like the underlying function
  called with the same parameters (non-square grids, agent in corners, all
  headings, asymmetric areas, empty lists, extreme values, repeated calls);
* that every shipped configuration builds the environment assembled by hand
  (seeds x action sequences), leaves its input unchanged, is repeatable;
* that systematic corruptions are rejected with SchemaError / ValueError.
"""

# --------------------------------------------------------------------------
# shared harness: shipped configurations, hand-assembled reference, runs
# --------------------------------------------------------------------------
import copy
import functools
import glob
import hashlib
import inspect
import itertools as itt
import json
import os
import sys
import warnings

warnings.filterwarnings('ignore')

ROOT = os.getcwd()
sys.path.insert(0, ROOT)
sys.path.insert(0, os.path.join(ROOT, 'examples'))  # coin_env:... components

import numpy as np  # noqa: E402
from schema import SchemaError  # noqa: E402

from gym_gridverse.action import Action  # noqa: E402
from gym_gridverse.envs import observation_functions as observation_fs  # noqa: E402
from gym_gridverse.envs import reset_functions as reset_fs  # noqa: E402
from gym_gridverse.envs import reward_functions as reward_fs  # noqa: E402
from gym_gridverse.envs import terminating_functions as terminating_fs  # noqa: E402
from gym_gridverse.envs import transition_functions as transition_fs  # noqa: E402
from gym_gridverse.envs import visibility_functions as visibility_fs  # noqa: E402
from gym_gridverse.envs.gridworld import GridWorld  # noqa: E402
from gym_gridverse.envs.yaml import factory as yaml_factory  # noqa: E402
from gym_gridverse.geometry import Area, Orientation, Position, Shape  # noqa: E402
from gym_gridverse.grid import Grid  # noqa: E402
from gym_gridverse.grid_object import (  # noqa: E402
    Color,
    Exit,
    Floor,
    Key,
    Wall,
    grid_object_registry,
)
from gym_gridverse.rng import make_rng, reset_gv_rng  # noqa: E402
from gym_gridverse.spaces import (  # noqa: E402
    ActionSpace,
    ObservationSpace,
    StateSpace,
)
from gym_gridverse.state import State  # noqa: E402
from gym_gridverse.agent import Agent  # noqa: E402

CHECKS = 0


def check(condition, message):
    global CHECKS
    CHECKS += 1
    if not condition:
        print('FAILED:', message)
        sys.exit(1)


# ---- a tiny reader for the YAML subset used by the shipped configurations --


def _scalar(text):
    text = text.strip()
    if len(text) >= 2 and text[0] == text[-1] and text[0] in '\'"':
        return text[1:-1]
    if text in ('true', 'True'):
        return True
    if text in ('false', 'False'):
        return False
    if text in ('null', '~', ''):
        return None
    try:
        return int(text)
    except ValueError:
        pass
    try:
        return float(text)
    except ValueError:
        return text


def _flow(text):
    """parses `[ a, [ b, c ] ]`"""
    pos = 0

    def skip():
        nonlocal pos
        while pos < len(text) and text[pos] in ' \t':
            pos += 1

    def value():
        nonlocal pos
        skip()
        if text[pos] == '[':
            pos += 1
            items = []
            skip()
            if text[pos] == ']':
                pos += 1
                return items
            while True:
                items.append(value())
                skip()
                if text[pos] == ',':
                    pos += 1
                    continue
                assert text[pos] == ']', text
                pos += 1
                return items
        start = pos
        while pos < len(text) and text[pos] not in ',]':
            pos += 1
        return _scalar(text[start:pos])

    result = value()
    skip()
    assert pos == len(text), text
    return result


def _value(text):
    text = text.strip()
    return _flow(text) if text.startswith('[') else _scalar(text)


def _split_key(text):
    """`key: value` or `key:` -> (key, value-text or None); else None"""
    if text.endswith(':'):
        return text[:-1].strip(), None
    if ': ' in text:
        key, rest = text.split(': ', 1)
        return key.strip(), rest.strip()
    return None


def mini_yaml(source):
    lines = []
    for raw in source.splitlines():
        if '#' in raw:
            i = raw.index('#')
            if i == 0 or raw[i - 1] in ' \t':
                raw = raw[:i]
        if raw.strip():
            lines.append((len(raw) - len(raw.lstrip(' ')), raw.strip()))

    def block(i, indent):
        """parses the block starting at line i whose indentation is indent"""
        if lines[i][1].startswith('- ') or lines[i][1] == '-':
            items = []
            while i < len(lines) and lines[i][0] == indent:
                ind, text = lines[i]
                assert text.startswith('-'), text
                rest = text[1:].lstrip(' ')
                inner = indent + (len(text) - len(rest))
                if _split_key(rest) is not None and not rest.startswith('['):
                    # a mapping which starts on the dash line
                    lines[i] = (inner, rest)
                    item, i = block(i, inner)
                else:
                    item, i = _value(rest), i + 1
                items.append(item)
            assert i == len(lines) or lines[i][0] < indent, lines[i]
            return items, i

        mapping = {}
        while i < len(lines) and lines[i][0] == indent:
            key, rest = _split_key(lines[i][1])
            assert key not in mapping
            if rest is None:
                assert lines[i + 1][0] > indent
                mapping[key], i = block(i + 1, lines[i + 1][0])
            else:
                mapping[key], i = _value(rest), i + 1
        assert i == len(lines) or lines[i][0] < indent, lines[i]
        return mapping, i

    data, end = block(0, lines[0][0])
    assert end == len(lines)
    return data


# sha256 prefixes of json.dumps(yaml.safe_load(file)) computed with PyYAML
PYYAML_DIGESTS = {
    'examples/coin_env.yaml': '08d6fd7761a83653',
    'yaml/gv_crossing.5x5.yaml': 'cb4279054122b0d2',
    'yaml/gv_crossing.7x7.yaml': 'c04a09693abed6f0',
    'yaml/gv_dynamic_obstacles.5x5.yaml': '771552d2a50af28a',
    'yaml/gv_dynamic_obstacles.7x7.yaml': '554737088890e673',
    'yaml/gv_empty.4x4.yaml': 'ce476532c136298a',
    'yaml/gv_empty.8x8.yaml': '93d30080530baa6f',
    'yaml/gv_four_rooms.7x7.yaml': '4eca814029b5eed3',
    'yaml/gv_four_rooms.9x9.yaml': '2ffb74627ae025cc',
    'yaml/gv_keydoor.5x5.yaml': '6ed73c0b1ac596e8',
    'yaml/gv_keydoor.7x7.yaml': 'a994231c677ae7c6',
    'yaml/gv_keydoor.9x9.yaml': '72e38863b462cb4f',
    'yaml/gv_memory.5x5.yaml': 'efb69cb8db082a98',
    'yaml/gv_memory.9x9.yaml': '8f4ff4e536fb7659',
    'yaml/gv_memory_four_rooms.7x7.yaml': '23033c880f70bbaa',
    'yaml/gv_memory_four_rooms.9x9.yaml': 'c5aa83992e9d9d27',
    'yaml/gv_memory_nine_rooms.10x10.yaml': 'b3711cfd8700c492',
    'yaml/gv_memory_nine_rooms.13x13.yaml': 'b09773a5dc1e3998',
    'yaml/gv_nine_rooms.10x10.yaml': 'eeb83bc01cb97b1d',
    'yaml/gv_nine_rooms.13x13.yaml': '69f4a71a0efe3d0d',
    'yaml/gv_teleport.5x5.yaml': '4fb8f9731e498a0a',
    'yaml/gv_teleport.7x7.yaml': '3f0b136b5fc93116',
}


def load_shipped_configurations():
    """{relative path: data}; packaged copies are checked to be identical"""
    configurations = {}
    for path in sorted(PYYAML_DIGESTS):
        with open(os.path.join(ROOT, path)) as f:
            source = f.read()
        data = mini_yaml(source)
        digest = hashlib.sha256(json.dumps(data).encode()).hexdigest()[:16]
        check(digest == PYYAML_DIGESTS[path], f'mini-yaml reading of {path}')
        configurations[path] = data

    shipped = sorted(
        os.path.relpath(p, ROOT)
        for p in glob.glob(os.path.join(ROOT, 'yaml', '*.yaml'))
        + glob.glob(os.path.join(ROOT, 'examples', '*.yaml'))
    )
    check(shipped == sorted(PYYAML_DIGESTS), 'all shipped files are covered')

    packaged = sorted(
        glob.glob(os.path.join(ROOT, 'gym_gridverse', 'registered_envs', '*'))
    )
    check(
        [os.path.basename(p) for p in packaged]
        == [os.path.basename(p) for p in shipped if p.startswith('yaml')],
        'packaged copies <-> yaml/',
    )
    for p in packaged:
        with open(p, 'rb') as f, open(
            os.path.join(ROOT, 'yaml', os.path.basename(p)), 'rb'
        ) as g:
            check(f.read() == g.read(), f'packaged copy {p} is identical')
    return configurations


# ---- reference: assembling the environment by hand --------------------------
# (uses neither gym_gridverse.envs.yaml.factory nor the `factory` functions of
# the component modules: the registered function is looked up in its table and
# bound with functools.partial to the parameters its signature accepts)

KINDS = {
    # kind: (module, registry, number of positional protocol parameters)
    'reset': (reset_fs, reset_fs.reset_function_registry, 0),
    'transition': (transition_fs, transition_fs.transition_function_registry, 2),
    'reward': (reward_fs, reward_fs.reward_function_registry, 3),
    'observation': (
        observation_fs,
        observation_fs.observation_function_registry,
        1,
    ),
    'terminating': (
        terminating_fs,
        terminating_fs.terminating_function_registry,
        3,
    ),
    'visibility': (visibility_fs, visibility_fs.visibility_function_registry, 2),
}


def hand_name(name):
    if ':' in name:
        module_name, name = name.split(':')
        __import__(module_name)
    return name


def hand_accepted_names(kind, function):
    """names of the parameters of function which are not protocol ones"""
    _, _, n = KINDS[kind]
    names = list(inspect.signature(function).parameters)
    return [name for name in names[n:] if name != 'rng']


def hand_convert(key, value):
    """the documented meaning of the reserved keys"""
    if key == 'transition_functions':
        return [hand_component('transition', d) for d in value]
    if key == 'reward_functions':
        return [hand_component('reward', d) for d in value]
    if key == 'terminating_functions':
        return [hand_component('terminating', d) for d in value]
    if key == 'reward_function':
        return hand_component('reward', value)
    if key == 'visibility_function':
        return hand_component('visibility', value)
    if key == 'distance_function':
        return {
            'manhattan': Position.manhattan_distance,
            'euclidean': Position.euclidean_distance,
        }[value]
    if key == 'shape':
        height, width = value
        return Shape(height, width)
    if key == 'layout':
        return (value[0], value[1])
    if key == 'area':
        return Area((value[0][0], value[0][1]), (value[1][0], value[1][1]))
    if key == 'object_type':
        return {t.__name__: t for t in grid_object_registry}[value]
    if key == 'colors':
        return {Color[name] for name in value}
    return value


def hand_component(kind, data):
    _, registry, _ = KINDS[kind]
    function = registry[hand_name(data['name'])]
    accepted = hand_accepted_names(kind, function)
    kwargs = {
        key: hand_convert(key, value)
        for key, value in data.items()
        if key != 'name' and key in accepted
    }
    return functools.partial(function, **kwargs)


def hand_object_types(names):
    by_name = {}
    result = []
    for name in names:
        name = hand_name(name)
        by_name = {t.__name__: t for t in grid_object_registry}
        result.append(by_name[name])
    return result


def hand_env(data):
    reset_function = hand_component('reset', data['reset_function'])
    transition_function = functools.partial(
        transition_fs.chain,
        transition_functions=[
            hand_component('transition', d)
            for d in data['transition_functions']
        ],
    )
    reward_function = functools.partial(
        reward_fs.reduce_sum,
        reward_functions=[
            hand_component('reward', d) for d in data['reward_functions']
        ],
    )
    observation_function = hand_component(
        'observation', data['observation_function']
    )
    terminating_function = hand_component(
        'terminating', data['terminating_function']
    )
    action_space = ActionSpace(
        [Action[name] for name in data['action_space']]
        if 'action_space' in data
        else list(Action)
    )
    state = reset_function()
    state_space = StateSpace(
        state.grid.shape,
        hand_object_types(data['state_space']['objects']),
        [Color[name] for name in data['state_space']['colors']],
    )
    observation = observation_function(state)
    observation_space = ObservationSpace(
        observation.grid.shape,
        hand_object_types(data['observation_space']['objects']),
        [Color[name] for name in data['observation_space']['colors']],
    )
    return GridWorld(
        state_space,
        action_space,
        observation_space,
        reset_function,
        transition_function,
        observation_function,
        reward_function,
        terminating_function,
    )


# ---- comparing behaviours ---------------------------------------------------


def space_facts(env):
    s, o, a = env.state_space, env.observation_space, env.action_space
    return (
        (s.grid_shape, list(s.object_types), list(s.colors)),
        (o.grid_shape, list(o.object_types), list(o.colors)),
        list(a.actions),
    )


def trajectory(env, seed, actions):
    """everything observable along an episode driven by the given actions"""
    reset_gv_rng(seed + 1000)  # library-level generator (rng-less calls)
    env.set_seed(seed)
    env.reset()
    trace = [(env.state, env.observation)]
    for action in actions:
        reward, done = env.step(action)
        trace.append((action, reward, done, env.state, env.observation))
        if done:
            env.reset()
            trace.append((env.state, env.observation))
    return trace


def action_sequences(env, seed, length):
    actions = list(env.action_space.actions)
    rng = np.random.default_rng(seed)
    return [actions[i] for i in rng.integers(len(actions), size=length)]


def canon(value):
    """structural form of (nested) partials, so that they can be compared"""
    if isinstance(value, functools.partial):
        return (
            'partial',
            value.func,
            canon(value.args),
            # keyword order is immaterial to the behaviour of a partial
            sorted((k, canon(v)) for k, v in value.keywords.items()),
        )
    if isinstance(value, Area):
        # Area(*[[y0, y1], [x0, x1]]) keeps lists, Area((y0, y1), (x0, x1)) not
        return ('Area', tuple(value.ys), tuple(value.xs))
    if isinstance(value, list):
        return ('list', [canon(v) for v in value])
    if type(value) is tuple:
        return ('tuple', [canon(v) for v in value])
    if isinstance(value, dict):
        return ('dict', [(k, canon(v)) for k, v in value.items()])
    return (type(value), value)


def same_partial(x, y):
    return (
        type(x) is type(y) is functools.partial
        and x.func is y.func
        and x.args == y.args
        and list(x.keywords.items()) == list(y.keywords.items())
    )


def outcome(f, *args, **kwargs):
    """('ok', value) or ('error', type, message)"""
    try:
        return ('ok', f(*args, **kwargs))
    except Exception as error:  # pylint: disable=broad-except
        return ('error', type(error), str(error))


def rejected(f, *args, **kwargs):
    try:
        f(*args, **kwargs)
    except (SchemaError, ValueError):
        return True
    except Exception as error:  # pylint: disable=broad-except
        print('unexpected', type(error), error)
        return False
    return False


def check_configurations(configurations, seeds=(0, 1, 7), length=40):
    """built == hand-assembled, input unchanged, repeatable"""
    digest = hashlib.sha256()
    for path, data in configurations.items():
        before = copy.deepcopy(data)
        env = yaml_factory.factory_env_from_data(data)
        check(data == before, f'{path}: input data unchanged')
        env_again = yaml_factory.factory_env_from_data(data)
        check(data == before, f'{path}: input data unchanged (2nd build)')
        env_hand = hand_env(before)

        check(
            space_facts(env) == space_facts(env_hand) == space_facts(env_again),
            f'{path}: spaces',
        )
        for seed in seeds:
            actions = action_sequences(env_hand, seed, length)
            expected = trajectory(env_hand, seed, actions)
            check(
                trajectory(env, seed, actions) == expected,
                f'{path}: seed {seed}: built != hand-assembled',
            )
            check(
                trajectory(env_again, seed, actions) == expected,
                f'{path}: seed {seed}: second build != hand-assembled',
            )
            # re-seeding the same environment reproduces the episode
            check(
                trajectory(env, seed, actions) == expected,
                f'{path}: seed {seed}: re-seeding',
            )
            digest.update(repr((path, seed, expected)).encode())
    return digest.hexdigest()[:16]


def check_corruptions(configurations):
    """systematic corruptions of the shipped configurations are rejected"""
    build = yaml_factory.factory_env_from_data
    count = 0
    for path, data in configurations.items():

        def corrupt(edit):
            nonlocal count
            corrupted = copy.deepcopy(data)
            if edit(corrupted) is False:
                return
            frozen = copy.deepcopy(corrupted)
            check(rejected(build, corrupted), f'{path}: corruption accepted')
            check(corrupted == frozen, f'{path}: corrupted input was modified')
            count += 1

        # unknown component names
        def rename(section, index=None):
            def edit(d):
                target = d[section] if index is None else d[section][index]
                target['name'] = 'no_such_component'

            return edit

        corrupt(rename('reset_function'))
        corrupt(rename('observation_function'))
        corrupt(rename('terminating_function'))
        for i in range(len(data['transition_functions'])):
            corrupt(rename('transition_functions', i))
        for i in range(len(data['reward_functions'])):
            corrupt(rename('reward_functions', i))

        def nested_rename(d):
            nested = d['terminating_function'].get('terminating_functions')
            if not nested:
                return False
            nested[-1]['name'] = 'no_such_component'

        corrupt(nested_rename)

        # unknown object types / colours / actions
        corrupt(lambda d: d['state_space']['objects'].append('Unicorn'))
        corrupt(lambda d: d['observation_space']['objects'].append('Unicorn'))
        corrupt(lambda d: d['state_space']['colors'].append('PURPLE'))
        corrupt(lambda d: d['observation_space']['colors'].append('none'))
        corrupt(lambda d: d['state_space']['colors'].append(3))
        corrupt(lambda d: d['state_space'].update(colors=[]))
        corrupt(lambda d: d['state_space'].update(objects=[]))
        corrupt(lambda d: d['state_space'].update(colors='NONE'))
        corrupt(
            lambda d: d['state_space']['colors'].append(
                d['state_space']['colors'][0]
            )
        )
        corrupt(
            lambda d: d['observation_space']['objects'].append(
                d['observation_space']['objects'][0]
            )
        )
        corrupt(lambda d: d.update(action_space=['JUMP']))
        corrupt(lambda d: d.update(action_space=[]))
        corrupt(lambda d: d.update(action_space=['TURN_LEFT', 'TURN_LEFT']))
        corrupt(lambda d: d.update(action_space=['move_forward']))
        corrupt(lambda d: d.update(action_space='TURN_LEFT'))
        corrupt(lambda d: d.update(action_space=[0, 1]))

        # missing / additional sections
        for section in [
            'state_space',
            'observation_space',
            'reset_function',
            'transition_functions',
            'reward_functions',
            'observation_function',
            'terminating_function',
        ]:
            corrupt(lambda d, section=section: d.pop(section) and None)
        corrupt(lambda d: d.update(no_such_section=1))
        corrupt(lambda d: d.update(transition_functions=[]))
        corrupt(lambda d: d.update(reward_functions=[]))
        corrupt(lambda d: d['reset_function'].pop('name') and None)
        corrupt(lambda d: d['observation_function'].pop('name') and None)
        corrupt(lambda d: d['reward_functions'][0].pop('name') and None)
        corrupt(lambda d: d['state_space'].pop('colors') and None)
        corrupt(lambda d: d['observation_space'].pop('objects') and None)

        # missing required parameters
        for key in ['shape', 'layout', 'colors', 'num_obstacles', 'num_rivers']:

            def drop(d, key=key):
                if key not in d['reset_function']:
                    return False
                del d['reset_function'][key]

            corrupt(drop)
        corrupt(lambda d: d['observation_function'].pop('area') and None)

        def drop_object_type(d):
            for r in d['reward_functions']:
                if 'object_type' in r:
                    del r['object_type']
                    return None
            return False

        corrupt(drop_object_type)

        # malformed shapes, layouts, colours, object types
        for shape in [
            [0, 5],
            [5, 0],
            [-3, 5],
            [5],
            [],
            [5, 5, 5],
            [5.0, 5],
            ['5', '5'],
            '55',
            [[5, 5]],
        ]:

            def reshape(d, shape=shape):
                if 'shape' not in d['reset_function']:
                    return False
                d['reset_function']['shape'] = shape

            corrupt(reshape)

            def relayout(d, shape=shape):
                if 'layout' not in d['reset_function']:
                    return False
                d['reset_function']['layout'] = shape

            corrupt(relayout)

        for colors in [[], ['PURPLE'], ['RED', 'RED'], ['red'], 'RED', [1]]:

            def recolor(d, colors=colors):
                if 'colors' not in d['reset_function']:
                    return False
                d['reset_function']['colors'] = colors

            corrupt(recolor)

        for object_type in ['Unicorn', 'wall', 3, ['Wall']]:

            def retype(d, object_type=object_type):
                for r in d['reward_functions']:
                    if 'object_type' in r:
                        r['object_type'] = object_type
                        return None
                return False

            corrupt(retype)

        def bad_distance(d):
            for r in d['reward_functions']:
                if 'distance_function' in r:
                    r['distance_function'] = 'chebyshev'
                    return None
            return False

        corrupt(bad_distance)

        # reserved keys are validated even where the component ignores them
        corrupt(lambda d: d['transition_functions'][0].update(shape=[0, 1]))
        corrupt(lambda d: d['reward_functions'][0].update(colors=['PURPLE']))
        corrupt(lambda d: d['reward_functions'][0].update(colors=[]))
        corrupt(lambda d: d['terminating_function'].update(layout=[1]))
        corrupt(lambda d: d['observation_function'].update(object_type=1))
        corrupt(
            lambda d: d['observation_function'].update(
                reward_function={'name': 'no_such_component'}
            )
        )
        corrupt(
            lambda d: d['reset_function'].update(
                transition_functions=[{'name': 'no_such_component'}]
            )
        )
        corrupt(
            lambda d: d['reset_function'].update(
                terminating_functions=[{'nome': 'reach_exit'}]
            )
        )
        corrupt(lambda d: d['reset_function'].update(reward_functions=[]))
    return count


def check_ignored_parameters(configurations, seeds=(3,), length=25):
    """parameters a component does not accept (but which are well formed) are
    ignored: the environment is the one described without them"""
    for path, data in configurations.items():
        noisy = copy.deepcopy(data)
        noisy['reset_function']['reward'] = 3.0
        noisy['reset_function']['object_type'] = noisy['reset_function'].get(
            'object_type', 'Wall'
        )
        noisy['transition_functions'][0]['shape'] = [2, 3]
        noisy['transition_functions'][-1]['colors'] = ['RED', 'NONE']
        noisy['reward_functions'][0]['layout'] = [3, 1]
        noisy['reward_functions'][0]['area'] = [[0, 1], [2, 3]]
        noisy['reward_functions'][-1]['rng'] = 4
        noisy['observation_function']['distance_function'] = 'euclidean'
        noisy['observation_function']['reward_function'] = {
            'name': 'living_reward',
            'reward': 100.0,
        }
        noisy['terminating_function']['visibility_function'] = {
            'name': 'raytracing',
            'threshold': 2,
        }
        noisy['terminating_function']['transition_functions'] = [
            {'name': 'move_agent'}
        ]
        frozen = copy.deepcopy(noisy)
        env = yaml_factory.factory_env_from_data(noisy)
        check(noisy == frozen, f'{path}: noisy input unchanged')
        env_hand = hand_env(data)
        check(space_facts(env) == space_facts(env_hand), f'{path}: spaces')
        for seed in seeds:
            actions = action_sequences(env_hand, seed, length)
            check(
                trajectory(env, seed, actions)
                == trajectory(env_hand, seed, actions),
                f'{path}: ignored parameters changed the environment',
            )


# --------------------------------------------------------------------------
# specific to change A: the `factory` function of every component module
# --------------------------------------------------------------------------


def reference_factory(kind, name, **kwargs):
    """the component factory as spelled on the pristine tree"""
    _, registry, _ = KINDS[kind]
    name = hand_name(name)
    try:
        function = registry[name]
    except KeyError as error:
        raise ValueError(f'invalid {kind} function name {name}') from error

    signature = inspect.signature(function)
    required_keys = [
        parameter.name
        for parameter in registry.get_nonprotocol_parameters(signature)
        if parameter.default is inspect.Parameter.empty
    ]
    optional_keys = [
        parameter.name
        for parameter in registry.get_nonprotocol_parameters(signature)
        if parameter.default is not inspect.Parameter.empty
    ]
    for key in required_keys:
        if key not in kwargs:
            raise ValueError(f'missing keyword argument `{key}`')
    keys = required_keys + optional_keys
    kwargs = {key: value for key, value in kwargs.items() if key in keys}
    return functools.partial(function, **kwargs)


def same_outcome(x, y):
    if x[0] != y[0]:
        return False
    if x[0] == 'error':
        return x == y
    return canon(x[1]) == canon(y[1]) and list(x[1].keywords) == list(
        y[1].keywords
    )


def parameter_sets(kind, function):
    """systematic keyword sets, built from the signature, values are opaque"""
    _, registry, n = KINDS[kind]
    signature = inspect.signature(function)
    names = list(signature.parameters)
    protocol = names[:n] + ['rng']
    specific = [name for name in names[n:] if name != 'rng']
    required = [
        name
        for name in specific
        if signature.parameters[name].default is inspect.Parameter.empty
    ]
    optional = [name for name in specific if name not in required]
    value = {name: ('value-of', name) for name in names + ['bogus']}

    def pick(keys):
        return {key: value[key] for key in keys}

    sets = [
        {},
        pick(required),
        pick(optional),
        pick(required + optional),
        pick(optional + required),
        pick(list(reversed(required + optional))),
        pick(['bogus'] + required + protocol + optional),
        pick(protocol),
        pick(list(reversed(protocol + ['bogus'] + optional + required))),
    ]
    for missing in required:
        sets.append(pick([k for k in required + optional if k != missing]))
        sets.append(pick([k for k in required if k != missing] + protocol))
    for extra in optional:
        sets.append(pick(required + [extra]))
    return sets, required, optional


def check_factory_structure():
    """factory(name, **kwargs) binds exactly the accepted keywords, in the
    order they were given, or raises ValueError -- on every registered name"""
    count = 0
    for kind, (module, registry, _) in KINDS.items():
        for name, function in list(registry.items()):
            sets, required, optional = parameter_sets(kind, function)
            for kwargs in sets:
                got = outcome(module.factory, name, **kwargs)
                expected = outcome(reference_factory, kind, name, **kwargs)
                check(
                    same_outcome(got, expected),
                    f'{kind} {name} {list(kwargs)}: {got} != {expected}',
                )
                # independent statement of the same thing
                if all(key in kwargs for key in required):
                    check(got[0] == 'ok', f'{kind} {name}: rejected {kwargs}')
                    bound = got[1]
                    check(bound.func is function, f'{kind} {name}: function')
                    check(bound.args == (), f'{kind} {name}: args')
                    check(
                        list(bound.keywords.items())
                        == [
                            (k, v)
                            for k, v in kwargs.items()
                            if k in required + optional
                        ],
                        f'{kind} {name}: keywords {bound.keywords}',
                    )
                else:
                    first = next(k for k in required if k not in kwargs)
                    check(
                        got
                        == (
                            'error',
                            ValueError,
                            f'missing keyword argument `{first}`',
                        ),
                        f'{kind} {name}: {got}',
                    )
                count += 1

        # unknown names (also the names of the other kinds' parameters)
        for name in ['no_such_component', '', 'Chain', 'rng', 'factory']:
            if name in registry:
                continue
            got = outcome(module.factory, name, shape=Shape(3, 3))
            check(
                got[0] == 'error' and got[1] is ValueError,
                f'{kind}: unknown name {name!r}: {got}',
            )
            expected = outcome(reference_factory, kind, name, shape=Shape(3, 3))
            check(got == expected, f'{kind}: unknown name {name!r}: message')
    return count


def check_awkward_signatures():
    """functions registered on the fly, with unusual signatures"""

    def reward_kwonly(state, action, next_state, *, scale, bonus=2.0, rng=None):
        return scale * 10 + bonus

    def reward_positional(s, a, ns, scale, bonus=2.0, rng=None):
        return scale * 10 + bonus

    def reward_varkw(state, action, next_state, *, rng=None, **extra):
        return float(len(extra))

    def reward_varpos(state, action, next_state, *rest, rng=None, tail=1.0):
        return tail

    def reward_none_default(state, action, next_state, *, x=None, rng=None):
        return -1.0 if x is None else float(x)

    def reward_named_like_protocol(st, ac, ns, *, state, action=3.0, rng=None):
        return state + action

    def reset_plain(a, b=2, *, c, d=4, rng=None):
        return (a, b, c, d)

    def transition_optional_only(state, action, *, p=0.5, q='q', rng=None):
        return None

    def visibility_positional_rng(grid, position, rng=None, radius=1):
        return radius

    registrations = [
        ('reward', reward_kwonly),
        ('reward', reward_positional),
        ('reward', reward_varkw),
        ('reward', reward_varpos),
        ('reward', reward_none_default),
        ('reward', reward_named_like_protocol),
        ('reset', reset_plain),
        ('transition', transition_optional_only),
        ('visibility', visibility_positional_rng),
        ('terminating', reward_kwonly),
        ('observation', reset_plain),
    ]
    count = 0
    for kind, function in registrations:
        module, registry, _ = KINDS[kind]
        name = f'_demo_{function.__name__}'
        if name not in registry:
            registry.data[name] = function
        try:
            sets, _, _ = parameter_sets(kind, function)
            sets.append({'extra': 1, 'rest': 2, 'tail': 3, 'x': None})
            sets.append({'x': None})
            sets.append({'state': 1.0, 'action': 2.0})
            sets.append({'a': 1, 'c': 3, 'd': 5, 'b': 7, 'rng': 9})
            for kwargs in sets:
                got = outcome(module.factory, name, **kwargs)
                expected = outcome(reference_factory, kind, name, **kwargs)
                check(
                    same_outcome(got, expected),
                    f'{kind} {name} {kwargs}: {got} != {expected}',
                )
                count += 1
        finally:
            del registry.data[name]

    # behaviour of some of those, through the factory and directly
    registry = reward_fs.reward_function_registry
    registry.data['_demo_kwonly'] = reward_kwonly
    registry.data['_demo_protocol_names'] = reward_named_like_protocol
    registry.data['_demo_none'] = reward_none_default
    try:
        f = reward_fs.factory('_demo_kwonly', scale=3, junk=1, rng=5, state=0)
        check(f(None, None, None) == 32.0 == reward_kwonly(0, 0, 0, scale=3), 'kwonly')
        f = reward_fs.factory('_demo_kwonly', bonus=0.5, scale=1)
        check(f(None, None, None, rng=None) == 10.5, 'kwonly, optional given')
        f = reward_fs.factory('_demo_protocol_names', state=1.0, action=2.5)
        check(f(None, None, None) == 3.5, 'parameters named like protocol ones')
        f = reward_fs.factory('_demo_none', x=None)
        check(f.keywords == {'x': None} and f(0, 0, 0) == -1.0, 'None value kept')
        f = reward_fs.factory('_demo_none')
        check(f.keywords == {} and f(0, 0, 0) == -1.0, 'no parameters at all')
        check(
            rejected(reward_fs.factory, '_demo_kwonly', bonus=1.0),
            'missing required parameter',
        )
    finally:
        del registry.data['_demo_kwonly']
        del registry.data['_demo_protocol_names']
        del registry.data['_demo_none']
    return count


def demo_states():
    """states on non-square grids, agent in corners / on borders, all headings"""
    states = []
    for seed, (name, kwargs) in enumerate(
        [
            ('empty', dict(shape=Shape(4, 7), random_agent=True, random_exit=True)),
            ('empty', dict(shape=Shape(6, 4))),
            ('keydoor', dict(shape=Shape(5, 8))),
            ('dynamic_obstacles', dict(shape=Shape(6, 9), num_obstacles=3)),
            ('teleport', dict(shape=Shape(7, 5))),
            ('rooms', dict(shape=Shape(7, 9), layout=(2, 2))),
            ('crossing', dict(shape=Shape(7, 9), num_rivers=2, object_type=Wall)),
            ('memory', dict(shape=Shape(5, 7), colors={Color.RED, Color.BLUE})),
        ]
    ):
        function = reset_fs.reset_function_registry[name]
        states.append(function(**kwargs, rng=make_rng(seed)))

    base = states[0]
    height, width = base.grid.shape.height, base.grid.shape.width
    for (y, x), orientation in zip(
        [(0, 0), (0, width - 1), (height - 1, 0), (height - 1, width - 1),
         (0, 3), (2, 0), (height - 1, 2), (1, width - 1)],
        itt.cycle(Orientation),
    ):
        states.append(
            State(
                copy.deepcopy(base.grid),
                Agent(Position(y, x), orientation, Key(Color.YELLOW)),
            )
        )
    return states


def check_factory_behaviour():
    """a component obtained by name with parameters behaves like the
    underlying function called with those parameters"""
    states = demo_states()
    count = 0

    def both(kind, name, kwargs, call):
        """call(f) must agree for f from the factory and for the function"""
        nonlocal count
        module, registry, _ = KINDS[kind]
        function = registry[name]
        accepted = hand_accepted_names(kind, function)
        noise = {'bogus': 1, 'rng': 'not-a-generator'}
        noise = {k: v for k, v in noise.items() if k not in accepted}
        from_factory = module.factory(name, **noise, **kwargs)
        again = module.factory(name, **kwargs)
        direct = functools.partial(function, **kwargs)
        expected = outcome(call, direct)
        check(
            outcome(call, from_factory) == expected,
            f'{kind} {name} {kwargs}: factory != direct call',
        )
        check(
            outcome(call, again) == expected,
            f'{kind} {name} {kwargs}: second factory call != direct call',
        )
        count += 1

    # reset functions: several seeds, legal and illegal parameters
    reset_cases = [
        ('empty', dict(shape=Shape(4, 7))),
        ('empty', dict(shape=Shape(3, 3), random_agent=True)),
        ('empty', dict(shape=Shape(5, 4), random_exit=True, random_agent=True)),
        ('empty', dict(shape=Shape(2, 2))),
        ('rooms', dict(shape=Shape(7, 9), layout=(2, 2))),
        ('rooms', dict(shape=Shape(9, 5), layout=(2, 1))),
        ('rooms', dict(shape=Shape(5, 5), layout=(3, 3))),
        ('dynamic_obstacles', dict(shape=Shape(6, 9), num_obstacles=3)),
        ('dynamic_obstacles', dict(shape=Shape(5, 5), num_obstacles=0, random_agent=True)),
        ('dynamic_obstacles', dict(shape=Shape(3, 3), num_obstacles=50)),
        ('keydoor', dict(shape=Shape(5, 8))),
        ('keydoor', dict(shape=Shape(3, 3))),
        ('crossing', dict(shape=Shape(7, 9), num_rivers=2, object_type=Wall)),
        ('crossing', dict(shape=Shape(9, 5), num_rivers=1, object_type=Floor)),
        ('crossing', dict(shape=Shape(6, 6), num_rivers=1, object_type=Wall)),
        ('teleport', dict(shape=Shape(7, 5))),
        ('memory', dict(shape=Shape(5, 7), colors={Color.RED, Color.BLUE})),
        ('memory', dict(shape=Shape(5, 5), colors={Color.NONE})),
        ('memory', dict(shape=Shape(5, 5), colors=set())),
        (
            'memory_rooms',
            dict(
                shape=Shape(7, 9),
                layout=(2, 2),
                colors={Color.RED, Color.GREEN, Color.BLUE},
                num_beacons=2,
                num_exits=2,
            ),
        ),
    ]
    for name, kwargs in reset_cases:
        for seed in (0, 5):
            both('reset', name, kwargs, lambda f: f(rng=make_rng(seed)))

    # transition functions
    move = transition_fs.transition_function_registry['move_agent']
    turn = transition_fs.transition_function_registry['turn_agent']
    transition_cases = [
        (name, {})
        for name in transition_fs.transition_function_registry
        if name != 'chain'
    ] + [
        ('chain', dict(transition_functions=[move, turn])),
        ('chain', dict(transition_functions=[])),
        ('chain', dict(transition_functions=(turn, move, move))),
    ]
    for name, kwargs in transition_cases:
        for i, state in enumerate(states):
            for action in Action:

                def call(f):
                    s = copy.deepcopy(state)
                    result = f(s, action, rng=make_rng(i))
                    return (result, s)

                both('transition', name, kwargs, call)

    # triples for reward and terminating functions
    triples = []
    for i, state in enumerate(states):
        for action in Action:
            next_state = copy.deepcopy(state)
            transition_fs.chain(
                next_state,
                action,
                transition_functions=[
                    move,
                    turn,
                    transition_fs.transition_function_registry['pickndrop'],
                    transition_fs.transition_function_registry['actuate_door'],
                ],
                rng=make_rng(i),
            )
            triples.append((state, action, next_state))

    living = reward_fs.reward_function_registry['living_reward']
    reach = reward_fs.reward_function_registry['reach_exit']
    reward_cases = [
        ('reduce', dict(reward_functions=[living, reach], reduction=max)),
        ('reduce_sum', dict(reward_functions=[living, reach, living])),
        ('reduce_sum', dict(reward_functions=[])),
        ('overlap', dict(object_type=Exit)),
        ('overlap', dict(object_type=Floor, reward_on=0.25, reward_off=-4.0)),
        ('living_reward', {}),
        ('living_reward', dict(reward=0.0)),
        ('living_reward', dict(reward=1e300)),
        ('reach_exit', dict(reward_on=7.0)),
        ('reach_exit', dict(reward_off=-7.0, reward_on=0.0)),
        ('bump_moving_obstacle', dict(reward=-3.0)),
        ('proportional_to_distance', dict(object_type=Exit)),
        (
            'proportional_to_distance',
            dict(
                object_type=Exit,
                distance_function=Position.euclidean_distance,
                reward_per_unit_distance=0.5,
            ),
        ),
        ('getting_closer', dict(object_type=Exit)),
        (
            'getting_closer',
            dict(
                reward_further=-2.0,
                object_type=Exit,
                distance_function=Position.euclidean_distance,
                reward_closer=3.0,
            ),
        ),
        ('getting_closer_shortest_path', dict(object_type=Exit)),
        ('bump_into_wall', {}),
        ('bump_into_wall', dict(reward=-0.5)),
        ('actuate_door', dict(reward_open=2.0, reward_close=-2.0)),
        ('pickndrop', dict(object_type=Key, reward_pick=2.0)),
        ('pickndrop', dict(object_type=Wall)),
        ('reach_exit_memory', dict(reward_good=4.0, reward_bad=-4.0)),
    ]
    check(
        {name for name, _ in reward_cases}
        >= set(reward_fs.reward_function_registry),
        'all registered reward functions are exercised',
    )
    for name, kwargs in reward_cases:
        for triple in triples[::3]:
            both('reward', name, kwargs, lambda f: f(*triple))

    t_reach = terminating_fs.terminating_function_registry['reach_exit']
    t_wall = terminating_fs.terminating_function_registry['bump_into_wall']
    terminating_cases = [
        ('reduce', dict(terminating_functions=[t_reach, t_wall], reduction=all)),
        ('reduce_any', dict(terminating_functions=[t_reach, t_wall])),
        ('reduce_any', dict(terminating_functions=[])),
        ('reduce_all', dict(terminating_functions=[t_wall, t_wall])),
        ('reduce_all', dict(terminating_functions=[])),
        ('overlap', dict(object_type=Exit)),
        ('overlap', dict(object_type=Floor)),
        ('reach_exit', {}),
        ('bump_moving_obstacle', {}),
        ('bump_into_wall', {}),
    ]
    check(
        {name for name, _ in terminating_cases}
        >= set(terminating_fs.terminating_function_registry),
        'all registered terminating functions are exercised',
    )
    for name, kwargs in terminating_cases:
        for triple in triples[::3]:
            both('terminating', name, kwargs, lambda f: f(*triple))

    # observation functions: symmetric and asymmetric areas
    areas = [
        Area((-6, 0), (-3, 3)),
        Area((-2, 1), (-1, 3)),
        Area((0, 0), (0, 0)),
        Area((-1, 4), (-2, 0)),
        Area((-3, 0), (0, 0)),
    ]
    partially = visibility_fs.visibility_function_registry['partially_occluded']
    for name in observation_fs.observation_function_registry:
        for area in areas:
            kwargs = dict(area=area)
            if name == 'from_visibility':
                kwargs['visibility_function'] = partially
            for i, state in enumerate(states):
                both(
                    'observation',
                    name,
                    kwargs,
                    lambda f: f(state, rng=make_rng(i)),
                )

    # visibility functions
    visibility_cases = [
        (name, {}) for name in visibility_fs.visibility_function_registry
    ] + [
        ('raytracing', dict(absolute_counts=False, threshold=0.5)),
        ('raytracing', dict(threshold=3)),
        ('raytracing', dict(absolute_counts=True)),
    ]
    for name, kwargs in visibility_cases:
        for i, state in enumerate(states):
            grid = state.grid
            for position in [
                Position(0, 0),
                Position(grid.shape.height - 1, grid.shape.width - 1),
                Position(grid.shape.height - 1, grid.shape.width // 2),
                state.agent.position,
            ]:

                def call(f):
                    return f(grid, position, rng=make_rng(i)).tolist()

                both('visibility', name, kwargs, call)
    return count


def check_components_of_configurations(configurations):
    """each component described in a shipped configuration is the registered
    function bound to the accepted, converted parameters"""
    count = 0
    for path, data in configurations.items():
        pairs = [
            ('reset', yaml_factory.factory_reset_function, data['reset_function']),
            (
                'observation',
                yaml_factory.factory_observation_function,
                data['observation_function'],
            ),
            (
                'terminating',
                yaml_factory.factory_terminating_function,
                data['terminating_function'],
            ),
        ]
        pairs += [
            ('transition', yaml_factory.factory_transition_function, d)
            for d in data['transition_functions']
        ]
        pairs += [
            ('reward', yaml_factory.factory_reward_function, d)
            for d in data['reward_functions']
        ]
        for kind, factory, d in pairs:
            frozen = copy.deepcopy(d)
            check(
                canon(factory(d)) == canon(hand_component(kind, frozen)),
                f'{path}: component {d}',
            )
            check(d == frozen, f'{path}: component data {d} was modified')
            count += 1
    return count


EXPECTED_TRAJECTORY_DIGEST = '7421f748c8472dd3'


def main():
    configurations = load_shipped_configurations()
    print('configurations read:', len(configurations))

    print('factory structure cases:', check_factory_structure())
    print('awkward signature cases:', check_awkward_signatures())
    print('factory behaviour cases:', check_factory_behaviour())
    print(
        'configured components:',
        check_components_of_configurations(configurations),
    )

    digest = check_configurations(configurations)
    print('trajectory digest:', digest)
    check(
        digest == EXPECTED_TRAJECTORY_DIGEST,
        f'trajectories differ from the recorded ones ({digest})',
    )
    print('rejected corruptions:', check_corruptions(configurations))
    check_ignored_parameters(configurations)
    print('checks passed:', CHECKS)


if __name__ == '__main__':
    main()
