"""Demo for change A (C20): table-driven gym box dtypes in ``gym_gridverse/gym.py``.

Run from the worktree root:  /venv/bin/python _seed/A/demo.py

The script checks, on the pristine tree and on the patched tree alike, that the gym
adapter is a faithful view of the wrapped environment:

* every shipped configuration (wrapped directly and through the registered ids), plus
  a few awkward hand-made ones (non-square grid, asymmetric / degenerate view areas,
  reordered and single-element action spaces, colour NONE only), is driven in lockstep
  with an independent reference built from the inner-env *functional* API;
* the advertised gym spaces are compared, key by key / bound by bound / dtype by dtype,
  with a reference implementation of the space conversion embedded below;
* the conversion is also exercised on synthetic representation spaces of the three
  kinds (categorical, discrete, continuous) and odd shapes;
* a hard-coded digest of one trajectory pins the behaviour across trees.

It exits 0 when everything holds.
"""
import copy
import glob
import hashlib
import os
import random
import re
import sys
import types
import warnings

warnings.filterwarnings('ignore')
sys.path.insert(0, os.getcwd())

# --------------------------------------------------------------------------------------
# minimal YAML loader (PyYAML may be missing;  only the subset used by the shipped files)
# --------------------------------------------------------------------------------------


def _scalar(tok):
    tok = tok.strip()
    if tok in ('True', 'true'):
        return True
    if tok in ('False', 'false'):
        return False
    if tok in ('null', '~', ''):
        return None
    if re.fullmatch(r'[-+]?\d+', tok):
        return int(tok)
    if re.fullmatch(r'[-+]?(\d+\.\d*|\.\d+)([eE][-+]?\d+)?', tok):
        return float(tok)
    if len(tok) >= 2 and tok[0] == tok[-1] and tok[0] in '\'"':
        return tok[1:-1]
    return tok


def _flow(text):
    pos = 0

    def parse():
        nonlocal pos
        assert text[pos] == '['
        pos += 1
        items, tok = [], ''
        while True:
            c = text[pos]
            if c == '[':
                items.append(parse())
                tok = None
            elif c in ',]':
                if tok is not None and tok.strip():
                    items.append(_scalar(tok))
                tok = ''
                pos += 1
                if c == ']':
                    return items
            else:
                if tok is None:
                    assert c.isspace(), text
                else:
                    tok += c
                pos += 1

    value = parse()
    assert not text[pos:].strip(), text
    return value


def _value(text):
    text = text.strip()
    return _flow(text) if text.startswith('[') else _scalar(text)


def mini_yaml_load(stream):
    text = stream if isinstance(stream, str) else stream.read()
    lines = []
    for raw in text.splitlines():
        raw = re.sub(r'(^|\s)#.*$', '', raw).rstrip()
        if raw.strip() and raw.strip() != '---':
            lines.append((len(raw) - len(raw.lstrip()), raw.strip()))

    def block(i, indent):
        if lines[i][1].startswith('-'):
            seq = []
            while i < len(lines) and lines[i][0] == indent:
                assert lines[i][1].startswith('-'), lines[i]
                body = lines[i][1][1:]
                inner = indent + 1 + (len(body) - len(body.lstrip()))
                body = body.strip()
                if re.match(r'^[A-Za-z_][\w-]*:(\s|$)', body):
                    lines[i] = (inner, body)
                    item, i = block(i, inner)
                else:
                    item, i = _value(body), i + 1
                seq.append(item)
            assert i == len(lines) or lines[i][0] < indent, lines[i]
            return seq, i

        mapping = {}
        while i < len(lines) and lines[i][0] == indent:
            m = re.match(r'^([A-Za-z_][\w-]*):(\s+(.*))?$', lines[i][1])
            assert m, lines[i]
            key, rest = m.group(1), (m.group(3) or '').strip()
            assert key not in mapping
            if rest:
                mapping[key], i = _value(rest), i + 1
            else:
                assert i + 1 < len(lines) and lines[i + 1][0] > indent, lines[i]
                mapping[key], i = block(i + 1, lines[i + 1][0])
        assert i == len(lines) or lines[i][0] < indent, lines[i]
        return mapping, i

    data, end = block(0, lines[0][0])
    assert end == len(lines)
    return data


try:
    import yaml
except ImportError:  # pragma: no cover
    yaml = types.ModuleType('yaml')
    sys.modules['yaml'] = yaml
if not hasattr(yaml, 'safe_load'):
    # the worktree's `yaml/` data directory shadows PyYAML as a namespace package
    yaml.safe_load = mini_yaml_load

import gym  # noqa: E402
import numpy as np  # noqa: E402

import gym_gridverse.gym as gv_gym  # noqa: E402
from gym_gridverse.action import Action  # noqa: E402
from gym_gridverse.envs.yaml.factory import factory_env_from_data  # noqa: E402
from gym_gridverse.gym import (  # noqa: E402
    STRING_TO_YAML_FILE,
    GymEnvironment,
    GymStateWrapper,
    outer_env_factory,
    outer_space_to_gym_space,
)
from gym_gridverse.outer_env import OuterEnv  # noqa: E402
from gym_gridverse.representations.observation_representations import (  # noqa: E402
    make_observation_representation,
)
from gym_gridverse.representations.spaces import Space, SpaceType  # noqa: E402
from gym_gridverse.representations.state_representations import (  # noqa: E402
    make_state_representation,
)

assert os.path.realpath(gv_gym.__file__).startswith(
    os.path.realpath(os.getcwd())
), 'run me from the worktree root'

N_CHECKS = 0


def check(condition, *message):
    global N_CHECKS
    N_CHECKS += 1
    if not condition:
        raise AssertionError(' '.join(str(m) for m in message))


# --------------------------------------------------------------------------------------
# reference implementations (independent of gym_gridverse/gym.py)
# --------------------------------------------------------------------------------------


def ref_box(space):
    """the pristine conversion of one representation space, spelled out"""
    if space.space_type is SpaceType.CONTINUOUS:
        dtype = float
    elif space.space_type is SpaceType.DISCRETE:
        dtype = int
    elif space.space_type is SpaceType.CATEGORICAL:
        dtype = int
    else:  # pragma: no cover
        raise AssertionError(space.space_type)
    return gym.spaces.Box(
        low=space.lower_bound, high=space.upper_bound, dtype=dtype
    )


def ref_gym_space(space_dict):
    return gym.spaces.Dict({k: ref_box(v) for k, v in space_dict.items()})


EXPECTED_DTYPES = {
    # hard-coded: what the adapter has always advertised
    'grid': np.dtype('int64'),
    'agent_id_grid': np.dtype('int64'),
    'item': np.dtype('int64'),
    'agent': np.dtype('float64'),
}


def check_same_gym_space(actual, expected, where):
    check(type(actual) is gym.spaces.Dict, where, type(actual))
    check(
        list(actual.spaces.keys()) == list(expected.spaces.keys()),
        where,
        list(actual.spaces.keys()),
    )
    for key, box in actual.spaces.items():
        ref = expected.spaces[key]
        check(type(box) is gym.spaces.Box, where, key)
        check(box.dtype == ref.dtype, where, key, box.dtype, ref.dtype)
        check(box.shape == ref.shape, where, key, box.shape, ref.shape)
        check(box.low.dtype == ref.low.dtype, where, key)
        check(box.high.dtype == ref.high.dtype, where, key)
        check(np.array_equal(box.low, ref.low), where, key, 'low')
        check(np.array_equal(box.high, ref.high), where, key, 'high')
        check(
            np.array_equal(box.bounded_below, ref.bounded_below), where, key
        )
        check(
            np.array_equal(box.bounded_above, ref.bounded_above), where, key
        )
        check(box == ref and ref == box, where, key, 'box equality')
    check(actual == expected, where, 'dict equality')


def check_same_arrays(actual, expected, where):
    check(isinstance(actual, dict), where)
    check(list(actual.keys()) == list(expected.keys()), where, list(actual))
    for key, array in actual.items():
        ref = expected[key]
        check(isinstance(array, np.ndarray), where, key)
        check(array.dtype == ref.dtype, where, key, array.dtype, ref.dtype)
        check(array.shape == ref.shape, where, key, array.shape, ref.shape)
        check(np.array_equal(array, ref), where, key, 'values')


def check_in_space(space, arrays, where):
    check(space.contains(arrays), where, 'not in advertised space')
    for key, array in arrays.items():
        box = space.spaces[key]
        check(array.dtype == EXPECTED_DTYPES[key], where, key, array.dtype)
        check(box.dtype == EXPECTED_DTYPES[key], where, key, box.dtype)
        check(array.shape == box.shape, where, key)
        check(bool(np.all(box.low <= array)), where, key, 'below low')
        check(bool(np.all(array <= box.high)), where, key, 'above high')


# --------------------------------------------------------------------------------------
# configurations
# --------------------------------------------------------------------------------------

REGISTERED_DIR = os.path.join('gym_gridverse', 'registered_envs')


def load_data(path):
    with open(path) as f:
        return mini_yaml_load(f)


def _custom(state_objects, colors, reset, transitions, rewards, obs, term, actions):
    data = {
        'state_space': {'objects': state_objects, 'colors': colors},
        'observation_space': {'objects': state_objects, 'colors': colors},
        'reset_function': reset,
        'transition_functions': transitions,
        'reward_functions': rewards,
        'observation_function': obs,
        'terminating_function': term,
    }
    if actions is not None:
        data['action_space'] = actions
    return data


CUSTOM_CONFIGS = {
    # non-square grid, random agent (borders/corners, all headings), asymmetric view
    # area whose agent cell is not centred, reordered subset of the actions
    'custom-nonsquare-asymmetric': _custom(
        ['Wall', 'Floor', 'Exit'],
        ['NONE'],
        {
            'name': 'empty',
            'shape': [4, 9],
            'random_agent': True,
            'random_exit': True,
        },
        [{'name': 'move_agent'}, {'name': 'turn_agent'}],
        [
            {'name': 'reach_exit', 'reward_on': 3.0, 'reward_off': -0.25},
            {'name': 'bump_into_wall', 'reward': -1.5},
        ],
        {'name': 'fully_transparent', 'area': [[-2, 1], [-1, 3]]},
        {'name': 'reach_exit'},
        ['TURN_RIGHT', 'MOVE_FORWARD', 'MOVE_RIGHT', 'TURN_LEFT'],
    ),
    # degenerate 2x1 view, the eight actions in reverse order
    'custom-keydoor-tiny-view': _custom(
        ['Wall', 'Floor', 'Exit', 'Door', 'Key'],
        ['NONE', 'YELLOW'],
        {'name': 'keydoor', 'shape': [5, 7]},
        [
            {'name': 'move_agent'},
            {'name': 'turn_agent'},
            {'name': 'actuate_door'},
            {'name': 'pickndrop'},
        ],
        [{'name': 'living_reward', 'reward': -1.0}],
        {'name': 'partially_occluded', 'area': [[-1, 0], [0, 0]]},
        {'name': 'reach_exit'},
        [a.name for a in reversed(list(Action))],
    ),
    # wide 1x7 view looking sideways only, single action
    'custom-single-action': _custom(
        ['Wall', 'Floor', 'Exit', 'MovingObstacle'],
        ['NONE'],
        {
            'name': 'dynamic_obstacles',
            'shape': [6, 5],
            'num_obstacles': 2,
            'random_agent': True,
        },
        [
            {'name': 'move_agent'},
            {'name': 'turn_agent'},
            {'name': 'move_obstacles'},
        ],
        [{'name': 'bump_moving_obstacle', 'reward': -2.0}],
        {'name': 'raytracing', 'area': [[0, 0], [-3, 3]]},
        {
            'name': 'reduce_any',
            'terminating_functions': [
                {'name': 'reach_exit'},
                {'name': 'bump_moving_obstacle'},
            ],
        },
        ['TURN_LEFT'],
    ),
}

REPRESENTATIONS = ('default', 'no-overlap', 'compact')


def make_gym_from_data(data):
    inner = factory_env_from_data(copy.deepcopy(data))
    return GymEnvironment(
        OuterEnv(
            inner,
            observation_representation=make_observation_representation(
                'default', inner.observation_space
            ),
        )
    )


def reference_actions(data):
    if 'action_space' in data:
        return [Action[name] for name in data['action_space']]
    return [
        Action.MOVE_FORWARD,
        Action.MOVE_BACKWARD,
        Action.MOVE_LEFT,
        Action.MOVE_RIGHT,
        Action.TURN_LEFT,
        Action.TURN_RIGHT,
        Action.ACTUATE,
        Action.PICK_N_DROP,
    ]


# --------------------------------------------------------------------------------------
# lockstep driver
# --------------------------------------------------------------------------------------


def drive(name, data, env, seed, obs_name, state_name, n_steps, digest=None):
    """drives a GymEnvironment (and a GymStateWrapper around it) against a reference"""
    where = f'{name} seed={seed} obs={obs_name} state={state_name}'
    g = env.unwrapped
    check(type(g) is GymEnvironment, where)

    ref = factory_env_from_data(copy.deepcopy(data))
    actions = reference_actions(data)
    ref_obs_rep = make_observation_representation(
        obs_name, ref.observation_space
    )
    ref_state_rep = make_state_representation(state_name, ref.state_space)

    # switching representations updates the advertised spaces consistently
    if obs_name != 'default' or seed % 2:
        g.set_observation_representation(obs_name)
    g.set_state_representation(state_name)
    check_same_gym_space(
        g.observation_space, ref_gym_space(ref_obs_rep.space), where + ' O'
    )
    check_same_gym_space(
        g.state_space, ref_gym_space(ref_state_rep.space), where + ' S'
    )
    check_same_gym_space(
        g.observation_space,
        ref_gym_space(g.outer_env.observation_representation.space),
        where + ' O-own',
    )
    check_same_gym_space(
        g.state_space,
        ref_gym_space(g.outer_env.state_representation.space),
        where + ' S-own',
    )
    check(env.observation_space is g.observation_space, where)
    check(type(g.action_space) is gym.spaces.Discrete, where)
    check(g.action_space.n == len(actions), where, g.action_space.n)
    check(env.action_space is g.action_space, where)

    w = GymStateWrapper(env)
    check(w.observation_space is g.state_space, where, 'wrapper space')
    check(w.action_space is g.action_space, where)

    g.outer_env.inner_env.set_seed(seed)
    ref.set_seed(seed)

    def reference_reset():
        state = ref.functional_reset()
        return state, ref.functional_observation(state)

    def compare_reset(t):
        state, obs = reference_reset()
        if t % 2:
            s = w.reset()
            check_same_arrays(s, ref_state_rep.convert(state), where + ' Wreset')
            check_in_space(w.observation_space, s, where + ' Wreset')
        else:
            o = env.reset()
            check_same_arrays(o, ref_obs_rep.convert(obs), where + ' reset')
            check_in_space(g.observation_space, o, where + ' reset')
        # repeated reads are stable and agree with the inner env
        check_same_arrays(g.observation, ref_obs_rep.convert(obs), where)
        check_same_arrays(g.state, ref_state_rep.convert(state), where)
        check(g.outer_env.inner_env.state == state, where, 'inner state')
        check(g.outer_env.inner_env.observation == obs, where, 'inner obs')
        return state

    state = compare_reset(seed)
    rnd = random.Random(seed * 7919 + len(name))
    indices = list(range(len(actions))) + [
        rnd.randrange(len(actions)) for _ in range(n_steps)
    ]
    for t, i in enumerate(indices):
        # numpy integers are what `action_space.sample()` hands out
        index = np.int64(i) if t % 3 == 2 else i
        state, reward, done = ref.functional_step(state, actions[i])
        obs = ref.functional_observation(state)
        expected_o = ref_obs_rep.convert(obs)
        expected_s = ref_state_rep.convert(state)

        if t % 2:
            result = w.step(index)
            check(type(result) is tuple and len(result) == 4, where)
            s, reward_, done_, info = result
            check_same_arrays(s, expected_s, where + f' Wstep{t}')
            check_in_space(w.observation_space, s, where + f' Wstep{t}')
            check(list(info.keys()) == ['observation'], where, info.keys())
            check_same_arrays(info['observation'], expected_o, where + ' info')
            check_in_space(g.observation_space, info['observation'], where)
        else:
            result = env.step(index)
            check(type(result) is tuple and len(result) == 4, where)
            o, reward_, done_, info = result
            check_same_arrays(o, expected_o, where + f' step{t}')
            check_in_space(g.observation_space, o, where + f' step{t}')
            check(info == {}, where, info)

        check(type(reward_) is type(reward), where, type(reward_))
        check(reward_ == reward, where, reward_, reward)
        check(type(done_) is type(done) and done_ == done, where, done_, done)
        check(g.outer_env.inner_env.state == state, where, 'inner state')
        check_same_arrays(g.state, expected_s, where + ' state')
        check_same_arrays(g.observation, expected_o, where + ' observation')

        if digest is not None:
            for key in sorted(expected_o):
                digest.update(expected_o[key].tobytes())
            for key in sorted(expected_s):
                digest.update(expected_s[key].tobytes())
            digest.update(repr((i, float(reward_), bool(done_))).encode())

        if done:
            state = compare_reset(t)


# --------------------------------------------------------------------------------------
# 1. shipped configurations, directly and through the registered ids
# --------------------------------------------------------------------------------------


def check_shipped():
    check(len(STRING_TO_YAML_FILE) == 21, len(STRING_TO_YAML_FILE))
    check(gv_gym.env_ids == list(STRING_TO_YAML_FILE), 'env_ids')
    shipped = sorted(
        os.path.basename(p) for p in glob.glob(f'{REGISTERED_DIR}/*.yaml')
    )
    check(shipped == sorted(STRING_TO_YAML_FILE.values()), 'registered files')

    for n, (env_id, filename) in enumerate(STRING_TO_YAML_FILE.items()):
        path = os.path.join(REGISTERED_DIR, filename)
        data = load_data(path)
        # the second copy of the configurations means the same
        check(load_data(os.path.join('yaml', filename)) == data, filename)

        for k, seed in enumerate((0, 1337 + n)):
            obs_name = REPRESENTATIONS[(n + k) % 3]
            state_name = REPRESENTATIONS[(n + 2 * k + 1) % 3]
            # through the registered id
            env = gym.make(env_id, disable_env_checker=True)
            drive(env_id, data, env, seed, obs_name, state_name, 14)
            # wrapped directly
            env = GymEnvironment(outer_env_factory(path))
            drive(
                filename,
                data,
                env,
                seed + 1,
                REPRESENTATIONS[(n + k + 1) % 3],
                REPRESENTATIONS[(n + 2 * k + 2) % 3],
                14,
            )
            # through the registered factory
            env = gv_gym.from_factory(
                gym.envs.registry[env_id].kwargs['factory']
            )
            drive(env_id, data, env, seed + 2, 'default', 'default', 6)


# --------------------------------------------------------------------------------------
# 2. awkward hand-made configurations, every representation pair
# --------------------------------------------------------------------------------------


def check_custom():
    for name, data in CUSTOM_CONFIGS.items():
        for seed in (0, 3, 0xDEADBEEF):
            for obs_name in REPRESENTATIONS:
                for state_name in REPRESENTATIONS:
                    env = make_gym_from_data(data)
                    drive(name, data, env, seed, obs_name, state_name, 20)


# --------------------------------------------------------------------------------------
# 3. several environments in one process, re-seeding, repeated switching
# --------------------------------------------------------------------------------------


def check_interleaved_and_reseeding():
    filename = STRING_TO_YAML_FILE['GV-DynamicObstacles-7x7-v0']
    path = os.path.join(REGISTERED_DIR, filename)
    data = load_data(path)

    envs = [GymEnvironment(outer_env_factory(path)) for _ in range(3)]
    refs = [factory_env_from_data(copy.deepcopy(data)) for _ in range(3)]
    actions = reference_actions(data)
    reps = [
        make_observation_representation(name, ref.observation_space)
        for name, ref in zip(REPRESENTATIONS, refs)
    ]
    for env, name in zip(envs, REPRESENTATIONS):
        env.set_observation_representation(name)
    # same seed for 0 and 1, another one for 2
    for env, ref, seed in zip(envs, refs, (11, 11, 12)):
        env.outer_env.inner_env.set_seed(seed)
        ref.set_seed(seed)

    states = []
    for env, ref, rep in zip(envs, refs, reps):
        state = ref.functional_reset()
        obs = ref.functional_observation(state)
        check_same_arrays(env.reset(), rep.convert(obs), 'interleaved reset')
        states.append(state)

    rnd = random.Random(5)
    for t in range(40):
        i = rnd.randrange(len(actions))
        for k in (t % 3, (t + 1) % 3, (t + 2) % 3):
            env, ref, rep = envs[k], refs[k], reps[k]
            states[k], reward, done = ref.functional_step(states[k], actions[i])
            obs = ref.functional_observation(states[k])
            o, reward_, done_, info = env.step(i)
            check_same_arrays(o, rep.convert(obs), f'interleaved {t} {k}')
            check_in_space(env.observation_space, o, f'interleaved {t} {k}')
            check(reward_ == reward and done_ == done and info == {}, t, k)
            if done:
                states[k] = ref.functional_reset()
                obs = ref.functional_observation(states[k])
                check_same_arrays(env.reset(), rep.convert(obs), 'interleaved')
        # same seed, same actions => same inner states
        check(
            envs[0].outer_env.inner_env.state
            == envs[1].outer_env.inner_env.state,
            'same seed',
        )

    # re-seeding replays the same trajectory;  switching back and forth between
    # representations gives the same spaces and values every time
    env = envs[0]
    trajectories = []
    for _ in range(3):
        env.outer_env.inner_env.set_seed(99)
        env.set_observation_representation('compact')
        space_compact = env.observation_space
        env.set_observation_representation('default')
        check(env.observation_space is not space_compact, 'fresh space')
        trajectory = [env.reset()]
        for i in (0, 4, 0, 5, 1, 3, 2, 0, 0):
            trajectory.append(env.step(i))
        trajectories.append(trajectory)
        env.set_observation_representation('compact')
        check_same_gym_space(env.observation_space, space_compact, 'again')
    for trajectory in trajectories[1:]:
        check_same_arrays(trajectory[0], trajectories[0][0], 'reseed reset')
        for a, b in zip(trajectory[1:], trajectories[0][1:]):
            check_same_arrays(a[0], b[0], 'reseed step')
            check(a[1:] == b[1:], 'reseed step')


# --------------------------------------------------------------------------------------
# 4. the space conversion on synthetic representation spaces
# --------------------------------------------------------------------------------------


def check_conversion():
    i64 = np.int64
    spaces = {
        'categorical-vector': Space.make_categorical_space(np.array([3, 0, 7])),
        'categorical-scalar': Space.make_categorical_space(np.array(5)),
        'categorical-grid': Space.make_categorical_space(
            np.arange(24).reshape(2, 4, 3)
        ),
        'categorical-int32': Space.make_categorical_space(
            np.array([1, 2], dtype=np.int32)
        ),
        'discrete-negative': Space.make_discrete_space(
            np.array([[-5, 0], [-1, 2]]), np.array([[5, 0], [0, 2]])
        ),
        'discrete-extreme': Space.make_discrete_space(
            np.array([np.iinfo(i64).min + 1]), np.array([np.iinfo(i64).max])
        ),
        'discrete-empty': Space.make_discrete_space(
            np.zeros((0, 3), dtype=int), np.ones((0, 3), dtype=int)
        ),
        'continuous-unit': Space.make_continuous_space(
            np.array([-1.0, -1.0, 0.0]), np.array([1.0, 1.0, 1.0])
        ),
        'continuous-unbounded': Space.make_continuous_space(
            np.array([-np.inf, 0.5]), np.array([np.inf, 0.5])
        ),
        'continuous-float32': Space.make_continuous_space(
            np.zeros((2, 2), dtype=np.float32), np.ones((2, 2), dtype=np.float32)
        ),
    }
    expected_dtype = {
        SpaceType.CATEGORICAL: np.dtype('int64'),
        SpaceType.DISCRETE: np.dtype('int64'),
        SpaceType.CONTINUOUS: np.dtype('float64'),
    }
    check(set(expected_dtype) == set(SpaceType), 'every kind of space is covered')
    check({s.space_type for s in spaces.values()} == set(SpaceType), 'kinds')

    # one at a time, all together, in both key orders, and the empty dictionary
    groups = [{k: v} for k, v in spaces.items()]
    groups.append(dict(spaces))
    groups.append(dict(reversed(list(spaces.items()))))
    groups.append({})
    for group in groups:
        where = 'conversion ' + ','.join(group)
        bounds = {
            k: (v.lower_bound.copy(), v.upper_bound.copy())
            for k, v in group.items()
        }
        actual = outer_space_to_gym_space(group)
        check_same_gym_space(actual, ref_gym_space(group), where)
        for key, box in actual.spaces.items():
            check(box.dtype == expected_dtype[group[key].space_type], where, key)
            check(box.shape == group[key].shape, where, key)
        # repeated calls: equal but independent results, inputs untouched
        again = outer_space_to_gym_space(group)
        check_same_gym_space(again, actual, where + ' again')
        check(again is not actual, where)
        for key, (low, high) in bounds.items():
            check(np.array_equal(group[key].lower_bound, low), where, key)
            check(np.array_equal(group[key].upper_bound, high), where, key)
            check(group[key].lower_bound.dtype == low.dtype, where, key)

    # members of the advertised boxes keep their kind
    sample = outer_space_to_gym_space(spaces)
    check(sample.spaces['continuous-unit'].contains(np.array([0.5, -1.0, 1.0])))
    check(not sample.spaces['continuous-unit'].contains(np.array([0.5, -1.5, 1.0])))
    check(sample.spaces['categorical-vector'].contains(np.array([3, 0, 0])))
    check(not sample.spaces['categorical-vector'].contains(np.array([4, 0, 0])))

    # if the tree offers the dtype table / helper, they agree with the reference
    table = getattr(gv_gym, 'GYM_BOX_DTYPES', None)
    if table is not None:
        check(set(table.keys()) == set(SpaceType), 'table covers every kind')
        for kind, dtype in table.items():
            check(np.dtype(dtype) == expected_dtype[kind], kind)
        try:
            table[SpaceType.CONTINUOUS] = int
        except TypeError:
            pass
        else:
            raise AssertionError('the dtype table must be read-only')
    helper = getattr(gv_gym, 'space_to_gym_box', None)
    if helper is not None:
        for key, space in spaces.items():
            box, ref = helper(space), ref_box(space)
            check(box == ref and box.dtype == ref.dtype, key)
            check(np.array_equal(box.low, ref.low), key)
            check(np.array_equal(box.high, ref.high), key)


# --------------------------------------------------------------------------------------
# 5. hard-coded expectations
# --------------------------------------------------------------------------------------

EXPECTED_DIGEST = (
    'd76085f9cd66415d121ed47671f02b0901c183283b9bd3489e17c2efe1a06293'
)


def check_hard_coded():
    path = os.path.join(REGISTERED_DIR, STRING_TO_YAML_FILE['GV-Keydoor-7x7-v0'])
    data = load_data(path)
    digest = hashlib.sha256()
    for seed, obs_name, state_name in (
        (2, 'default', 'compact'),
        (3, 'no-overlap', 'default'),
        (4, 'compact', 'no-overlap'),
    ):
        env = gym.make('GV-Keydoor-7x7-v0', disable_env_checker=True)
        drive('digest', data, env, seed, obs_name, state_name, 30, digest)
    check(digest.hexdigest() == EXPECTED_DIGEST, 'digest', digest.hexdigest())

    env = GymEnvironment(outer_env_factory(path))
    check(env.state_space is None, 'no state representation by default')
    check(env.action_space == gym.spaces.Discrete(8), env.action_space)
    space = env.observation_space
    check(list(space.spaces) == ['agent_id_grid', 'grid', 'item'], list(space.spaces))
    check(space['grid'].shape == (7, 7, 3) and space['grid'].dtype == np.int64)
    check(space['agent_id_grid'].shape == (7, 7), space['agent_id_grid'])
    check(space['item'].shape == (3,), space['item'])
    check(space['grid'].low.min() == 0 and space['agent_id_grid'].high.max() == 1)
    env.set_state_representation('default')
    space = env.state_space
    check(
        list(space.spaces) == ['agent', 'agent_id_grid', 'grid', 'item'],
        list(space.spaces),
    )
    check(space['agent'].dtype == np.float64 and space['agent'].shape == (6,))
    check(space['agent'].low.tolist() == [-1.0, -1.0, 0.0, 0.0, 0.0, 0.0])
    check(space['agent'].high.tolist() == [1.0] * 6)
    check(space['grid'].shape == (7, 7, 3) and space['grid'].dtype == np.int64)


def main():
    check_conversion()
    check_hard_coded()
    check_shipped()
    check_custom()
    check_interleaved_and_reseeding()
    print(f'OK ({N_CHECKS} checks)')


if __name__ == '__main__':
    main()
