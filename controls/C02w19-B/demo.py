#!/usr/bin/env python
"""C02 demo (change B): the state / observation bookkeeping of InnerEnv.

Seeded environments are reproducible and isolated from every global RNG.  The
part of that guarantee which lives in ``InnerEnv`` is *when* the functional
methods are called (each of them draws from the private generator): exactly one
``functional_reset`` per ``reset``, one ``functional_step`` per ``step``, and at
most one ``functional_observation`` per state, on request only.  The traces of
the environment are compared with a reference loop written on the bare
functions that follows the same calling discipline.

Runs on the pristine tree and with the change applied (``InnerEnv.done`` is
checked only if present).

Run from the worktree root:  /venv/bin/python _seed/B/demo.py
"""
import hashlib
import os
import random
import subprocess
import sys
import warnings

sys.path.insert(0, os.getcwd())
warnings.simplefilter('ignore')

import numpy as np  # noqa: E402
import numpy.random as rnd  # noqa: E402

import gym_gridverse.rng as gv_rng_module  # noqa: E402
from gym_gridverse.action import Action  # noqa: E402
from gym_gridverse.debugging import reset_gv_debug  # noqa: E402
from gym_gridverse.envs import observation_functions as observation_fs  # noqa: E402
from gym_gridverse.envs import reset_functions as reset_fs  # noqa: E402
from gym_gridverse.envs import reward_functions as reward_fs  # noqa: E402
from gym_gridverse.envs import terminating_functions as terminating_fs  # noqa: E402
from gym_gridverse.envs import transition_functions as transition_fs  # noqa: E402
from gym_gridverse.envs.gridworld import GridWorld  # noqa: E402
from gym_gridverse.geometry import Area, Shape  # noqa: E402
from gym_gridverse.grid_object import (  # noqa: E402
    Beacon,
    Color,
    Door,
    Exit,
    Floor,
    Key,
    MovingObstacle,
    Telepod,
    Wall,
)
from gym_gridverse.outer_env import OuterEnv  # noqa: E402
from gym_gridverse.representations.observation_representations import (  # noqa: E402
    make_observation_representation,
)
from gym_gridverse.representations.state_representations import (  # noqa: E402
    make_state_representation,
)
from gym_gridverse.spaces import (  # noqa: E402
    ActionSpace,
    ObservationSpace,
    StateSpace,
)
from gym_gridverse.utils.fast_copy import fast_copy  # noqa: E402

MOVES = [
    Action.MOVE_FORWARD,
    Action.MOVE_BACKWARD,
    Action.MOVE_LEFT,
    Action.MOVE_RIGHT,
    Action.TURN_LEFT,
    Action.TURN_RIGHT,
]

# ---------------------------------------------------------------------------
# configurations, built through the Python API only
# ---------------------------------------------------------------------------


def _tf(*names):
    return transition_fs.factory(
        'chain',
        transition_functions=[transition_fs.factory(name) for name in names],
    )


def _rf(*specs):
    return reward_fs.factory(
        'reduce_sum',
        reward_functions=[
            reward_fs.factory(name, **kwargs) for name, kwargs in specs
        ],
    )


def _term_any(*names):
    return terminating_fs.factory(
        'reduce_any',
        terminating_functions=[terminating_fs.factory(n) for n in names],
    )


CONFIGS = {
    # non-square, random agent / exit, stochastic observations, asymmetric view
    'empty_5x8_stochastic': dict(
        objects=[Wall, Floor, Exit],
        colors=[Color.NONE],
        actions=list(Action),
        reset=lambda: reset_fs.factory(
            'empty', shape=Shape(5, 8), random_agent=True, random_exit=True
        ),
        transition=lambda: _tf('move_agent', 'turn_agent'),
        reward=lambda: _rf(
            ('reach_exit', dict(reward_on=5.0, reward_off=0.0)),
            ('bump_into_wall', dict(reward=-1.0)),
            ('living_reward', dict(reward=-0.05)),
        ),
        observation=lambda: observation_fs.factory(
            'stochastic_raytracing', area=Area((-4, 1), (-1, 3))
        ),
        terminating=lambda: _term_any('reach_exit'),
    ),
    # smallest legal grid, deterministic layout, agent in a corner
    'empty_4x4': dict(
        objects=[Wall, Floor, Exit],
        colors=[Color.NONE],
        actions=MOVES,
        reset=lambda: reset_fs.factory('empty', shape=Shape(4, 4)),
        transition=lambda: _tf('move_agent', 'turn_agent'),
        reward=lambda: _rf(('living_reward', dict(reward=-1.0))),
        observation=lambda: observation_fs.factory(
            'partially_occluded', area=Area((-6, 0), (-3, 3))
        ),
        terminating=lambda: _term_any('reach_exit', 'bump_into_wall'),
    ),
    # random transitions (obstacles), never terminating on walls
    'dynamic_obstacles_7x9': dict(
        objects=[Wall, Floor, Exit, MovingObstacle],
        colors=[Color.NONE],
        actions=MOVES,
        reset=lambda: reset_fs.factory(
            'dynamic_obstacles',
            shape=Shape(7, 9),
            num_obstacles=4,
            random_agent=True,
        ),
        transition=lambda: _tf('move_agent', 'turn_agent', 'move_obstacles'),
        reward=lambda: _rf(
            ('reach_exit', dict(reward_on=5.0, reward_off=0.0)),
            ('bump_moving_obstacle', dict(reward=-1.0)),
            ('living_reward', dict(reward=-0.05)),
        ),
        observation=lambda: observation_fs.factory(
            'raytracing', area=Area((-3, 3), (-3, 3))
        ),
        terminating=lambda: _term_any('reach_exit', 'bump_moving_obstacle'),
    ),
    'keydoor_6x9': dict(
        objects=[Wall, Floor, Exit, Door, Key],
        colors=[Color.NONE, Color.YELLOW],
        actions=list(Action),
        reset=lambda: reset_fs.factory('keydoor', shape=Shape(6, 9)),
        transition=lambda: _tf(
            'move_agent', 'turn_agent', 'actuate_door', 'pickndrop'
        ),
        reward=lambda: _rf(
            ('reach_exit', dict(reward_on=5.0, reward_off=0.0)),
            (
                'pickndrop',
                dict(object_type=Key, reward_pick=1.0, reward_drop=-1.0),
            ),
            ('actuate_door', dict(reward_open=1.0, reward_close=-1.0)),
            ('living_reward', dict(reward=-0.05)),
        ),
        observation=lambda: observation_fs.factory(
            'partially_occluded', area=Area((-6, 0), (-3, 3))
        ),
        terminating=lambda: _term_any('reach_exit'),
    ),
    'crossing_7x9': dict(
        objects=[Wall, Floor, Exit],
        colors=[Color.NONE],
        actions=MOVES,
        reset=lambda: reset_fs.factory(
            'crossing', shape=Shape(7, 9), num_rivers=3, object_type=Wall
        ),
        transition=lambda: _tf('move_agent', 'turn_agent'),
        reward=lambda: _rf(
            ('reach_exit', dict(reward_on=5.0, reward_off=0.0)),
            ('living_reward', dict(reward=-0.05)),
        ),
        observation=lambda: observation_fs.factory(
            'fully_transparent', area=Area((-2, 0), (-1, 1))
        ),
        terminating=lambda: _term_any('reach_exit'),
    ),
    'teleport_7x6': dict(
        objects=[Wall, Floor, Exit, Telepod],
        colors=[Color.NONE, Color.RED],
        actions=MOVES,
        reset=lambda: reset_fs.factory('teleport', shape=Shape(7, 6)),
        transition=lambda: _tf('move_agent', 'turn_agent', 'teleport'),
        reward=lambda: _rf(
            ('reach_exit', dict(reward_on=5.0, reward_off=0.0)),
            ('living_reward', dict(reward=-0.05)),
        ),
        observation=lambda: observation_fs.factory(
            'stochastic_raytracing', area=Area((-6, 0), (-3, 3))
        ),
        terminating=lambda: _term_any('reach_exit'),
    ),
    # the set of colours is iterated by the reset function: hash-order bait
    'memory_rooms_9x11': dict(
        objects=[Wall, Floor, Exit, Beacon],
        colors=[Color.NONE, Color.RED, Color.GREEN, Color.BLUE, Color.YELLOW],
        actions=MOVES,
        reset=lambda: reset_fs.factory(
            'memory_rooms',
            shape=Shape(9, 11),
            layout=(2, 2),
            colors={Color.RED, Color.GREEN, Color.BLUE, Color.YELLOW},
            num_beacons=2,
            num_exits=3,
        ),
        transition=lambda: _tf('move_agent', 'turn_agent'),
        reward=lambda: _rf(
            ('reach_exit_memory', dict(reward_good=5.0, reward_bad=-5.0)),
            ('living_reward', dict(reward=-0.05)),
        ),
        observation=lambda: observation_fs.factory(
            'partially_occluded', area=Area((-6, 0), (-3, 3))
        ),
        terminating=lambda: _term_any('reach_exit'),
    ),
    'memory_5x7': dict(
        objects=[Wall, Floor, Exit, Beacon],
        colors=[Color.NONE, Color.RED, Color.GREEN, Color.BLUE],
        actions=MOVES,
        reset=lambda: reset_fs.factory(
            'memory',
            shape=Shape(5, 7),
            colors={Color.RED, Color.GREEN, Color.BLUE},
        ),
        transition=lambda: _tf('move_agent', 'turn_agent'),
        reward=lambda: _rf(
            ('reach_exit_memory', dict(reward_good=5.0, reward_bad=-5.0)),
        ),
        observation=lambda: observation_fs.factory(
            'raytracing', area=Area((-6, 0), (-3, 3))
        ),
        terminating=lambda: _term_any('reach_exit'),
    ),
}


def build_parts(name):
    cfg = CONFIGS[name]
    reset_function = cfg['reset']()
    observation_function = cfg['observation']()
    # shapes are discovered with a private generator: nothing global is drawn
    probe_rng = rnd.default_rng(0)
    state = reset_function(rng=probe_rng)
    observation = observation_function(state, rng=probe_rng)
    return dict(
        state_space=StateSpace(
            state.grid.shape, cfg['objects'], cfg['colors']
        ),
        action_space=ActionSpace(list(cfg['actions'])),
        observation_space=ObservationSpace(
            observation.grid.shape, cfg['objects'], cfg['colors']
        ),
        reset_function=reset_function,
        transition_function=cfg['transition'](),
        observation_function=observation_function,
        reward_function=cfg['reward'](),
        termination_function=cfg['terminating'](),
    )


def build_inner(name):
    return GridWorld(**build_parts(name))


def build_outer(name):
    inner = build_inner(name)
    return OuterEnv(
        inner,
        state_representation=make_state_representation(
            'default', inner.state_space
        ),
        observation_representation=make_observation_representation(
            'default', inner.observation_space
        ),
    )


# ---------------------------------------------------------------------------
# snapshots and traces
# ---------------------------------------------------------------------------


def snap_object(obj):
    return (type(obj).__name__, int(obj.state_index), obj.color.name)


def snap(state_or_observation):
    grid, agent = state_or_observation.grid, state_or_observation.agent
    return (
        (grid.shape.height, grid.shape.width),
        tuple(
            snap_object(grid[position]) for position in grid.area.positions()
        ),
        (agent.position.y, agent.position.x),
        agent.orientation.name,
        snap_object(agent.grid_object),
    )


def snap_arrays(arrays):
    return tuple(
        (key, value.dtype.str, value.shape, value.tobytes())
        for key, value in sorted(arrays.items())
    )


def actions_for(name, seed, length):
    """action sequence from a private generator (never a global one)"""
    actions = CONFIGS[name]['actions']
    prng = rnd.default_rng([seed, length, 977])
    return [actions[int(i)] for i in prng.integers(len(actions), size=length)]


def inner_trace_gen(env, seed, actions, *, reset_every=9):
    """yields one record per operation;  a generator, so that the operations of
    several live environments can be interleaved at will"""
    env.set_seed(seed)
    env.reset()
    yield ('reset', snap(env.state), snap(env.observation))
    for t, action in enumerate(actions):
        reward, done = env.step(action)
        yield (
            'step',
            action.name,
            snap(env.state),
            snap(env.observation),
            float(reward),
            bool(done),
        )
        if done or t % reset_every == reset_every - 1:
            env.reset()
            yield ('reset', snap(env.state), snap(env.observation))


def seed_outer(outer, seed):
    """`OuterEnv.set_seed` when it exists, else the reference spelling"""
    if hasattr(outer, 'set_seed'):
        result = outer.set_seed(seed)
        assert result is None, result
    else:
        outer.inner_env.set_seed(seed)


def outer_trace_gen(outer, seed, actions, *, reset_every=9, seeder=seed_outer):
    seeder(outer, seed)
    outer.reset()
    yield ('reset', snap_arrays(outer.state), snap_arrays(outer.observation))
    for t, action in enumerate(actions):
        reward, done = outer.step(action)
        yield (
            'step',
            action.name,
            snap_arrays(outer.state),
            snap_arrays(outer.observation),
            float(reward),
            bool(done),
        )
        if done or t % reset_every == reset_every - 1:
            outer.reset()
            yield (
                'reset',
                snap_arrays(outer.state),
                snap_arrays(outer.observation),
            )


def reference_trace(name, seed, actions, *, reset_every=9):
    """reference implementation: the seeded loop written out on the bare
    functions with one private generator, no InnerEnv / OuterEnv involved"""
    parts = build_parts(name)
    rng = rnd.default_rng(seed)
    records = []

    def observe(state):
        return parts['observation_function'](state, rng=rng)

    state = parts['reset_function'](rng=rng)
    records.append(('reset', snap(state), snap(observe(state))))
    for t, action in enumerate(actions):
        next_state = fast_copy(state)
        parts['transition_function'](next_state, action, rng=rng)
        reward = parts['reward_function'](state, action, next_state)
        done = parts['termination_function'](state, action, next_state)
        state = next_state
        records.append(
            (
                'step',
                action.name,
                snap(state),
                snap(observe(state)),
                float(reward),
                bool(done),
            )
        )
        if done or t % reset_every == reset_every - 1:
            state = parts['reset_function'](rng=rng)
            records.append(('reset', snap(state), snap(observe(state))))
    return records


def digest(records):
    return hashlib.sha256(repr(records).encode()).hexdigest()


# ---------------------------------------------------------------------------
# global random sources
# ---------------------------------------------------------------------------


def global_rng_fingerprint():
    gv = gv_rng_module._gv_rng
    return repr(
        (
            random.getstate(),
            [
                x.tolist() if hasattr(x, 'tolist') else x
                for x in np.random.get_state()
            ],
            None if gv is None else gv.bit_generator.state,
            id(gv),
        )
    )


def perturb_globals(k):
    random.seed(k)
    random.random()
    np.random.seed(k % (2**32))
    np.random.random(3)
    gv_rng_module.reset_gv_rng(k)
    gv_rng_module.get_gv_rng().random(2)


SEEDS = [0, 1, 7, 2**31 - 1, 2**63 + 5]
LENGTH = 40


def all_digests():
    """digest of inner and outer traces of every configuration and seed"""
    out = []
    for name in sorted(CONFIGS):
        for seed in SEEDS[:3]:
            actions = actions_for(name, seed, LENGTH)
            out.append(
                (
                    name,
                    seed,
                    digest(list(inner_trace_gen(build_inner(name), seed, actions))),
                    digest(list(outer_trace_gen(build_outer(name), seed, actions))),
                )
            )
    return out




# ---------------------------------------------------------------------------
# lazy observations: the calling discipline decides the random stream
# ---------------------------------------------------------------------------


def observe_mask(seed, n):
    """which records ask for the observation (private generator)"""
    return [bool(b) for b in rnd.default_rng([seed, n, 31]).integers(2, size=n)]


def lazy_inner_trace(env, seed, actions, *, reset_every=9, bad_action=None):
    """like `inner_trace_gen`, but observations are requested only at some
    records (sometimes twice), and illegal steps are attempted now and then"""
    mask = iter(observe_mask(seed, 3 * len(actions) + 3))
    records = []

    def look():
        if not next(mask):
            return None
        first = env.observation
        assert env.observation is first, 'observation generated twice'
        return snap(first)

    env.set_seed(seed)
    env.reset()
    records.append(('reset', snap(env.state), look()))
    for t, action in enumerate(actions):
        if bad_action is not None and t % 5 == 2:
            # an illegal step raises and must leave everything as it was
            state, memo = env._state, env._observation
            rng_state = env._rng.bit_generator.state
            try:
                env.step(bad_action)
            except ValueError:
                pass
            else:
                raise AssertionError('illegal action accepted')
            assert env._state is state and env.state is state
            assert env._observation is memo
            assert env._rng.bit_generator.state == rng_state
        previous = env.state
        reward, done = env.step(action)
        assert env.state is not previous
        if hasattr(type(env), 'done'):
            assert env.done is done
        records.append(
            ('step', action.name, snap(env.state), look(), float(reward), bool(done))
        )
        if done or t % reset_every == reset_every - 1:
            env.reset()
            if hasattr(type(env), 'done'):
                assert env.done is False
            records.append(('reset', snap(env.state), look()))
    return records


def lazy_reference_trace(name, seed, actions, *, reset_every=9):
    """the same calling discipline on the bare functions, one private rng"""
    parts = build_parts(name)
    rng = rnd.default_rng(seed)
    mask = iter(observe_mask(seed, 3 * len(actions) + 3))
    records = []

    def look(state):
        if not next(mask):
            return None
        return snap(parts['observation_function'](state, rng=rng))

    state = parts['reset_function'](rng=rng)
    records.append(('reset', snap(state), look(state)))
    for t, action in enumerate(actions):
        next_state = fast_copy(state)
        parts['transition_function'](next_state, action, rng=rng)
        reward = parts['reward_function'](state, action, next_state)
        done = parts['termination_function'](state, action, next_state)
        state = next_state
        records.append(
            ('step', action.name, snap(state), look(state), float(reward), bool(done))
        )
        if done or t % reset_every == reset_every - 1:
            state = parts['reset_function'](rng=rng)
            records.append(('reset', snap(state), look(state)))
    return records


# ---------------------------------------------------------------------------
# a minimal InnerEnv, to watch the base class alone
# ---------------------------------------------------------------------------

from gym_gridverse.agent import Agent  # noqa: E402
from gym_gridverse.envs.inner_env import InnerEnv  # noqa: E402
from gym_gridverse.geometry import Orientation, Position  # noqa: E402
from gym_gridverse.grid import Grid  # noqa: E402
from gym_gridverse.observation import Observation  # noqa: E402
from gym_gridverse.state import State  # noqa: E402


class CountingEnv(InnerEnv):
    """every functional method draws once from the private rng and is logged"""

    def __init__(self):
        self.calls = []
        self._rng = None
        super().__init__(None, None, None)

    def set_seed(self, seed=None):
        self._rng = rnd.default_rng(seed)

    def _make(self, cls, draw):
        grid = Grid.from_shape((2, 3))
        return cls(grid, Agent(Position(draw % 2, draw % 3), Orientation.F))

    def functional_reset(self):
        draw = int(self._rng.integers(1000))
        self.calls.append(('reset', draw))
        return self._make(State, draw)

    def functional_step(self, state, action):
        if action is None:
            raise ValueError('illegal action')
        draw = int(self._rng.integers(1000))
        self.calls.append(('step', id(state), action, draw))
        # numpy flag on purpose: the very object must reach the caller
        return self._make(State, draw), draw / 7, np.bool_(draw % 4 == 0)

    def functional_observation(self, state):
        draw = int(self._rng.integers(1000))
        self.calls.append(('observation', id(state), draw))
        return self._make(Observation, draw)


# ---------------------------------------------------------------------------
# checks
# ---------------------------------------------------------------------------


def check_base_class_calling_discipline():
    env = CountingEnv()
    env.set_seed(9)
    for attribute in ['state', 'observation'] + (
        ['done'] if hasattr(InnerEnv, 'done') else []
    ):
        try:
            getattr(env, attribute)
        except RuntimeError:
            pass
        else:
            raise AssertionError(f'{attribute} available before reset')
    try:
        env.step(Action.MOVE_FORWARD)
    except RuntimeError:
        pass
    else:
        raise AssertionError('step before reset')
    assert env.calls == [], 'a functional method ran before reset'
    assert (
        env._rng.bit_generator.state == rnd.default_rng(9).bit_generator.state
    )

    reference = rnd.default_rng(9)

    def expect_draw():
        return int(reference.integers(1000))

    assert env.reset() is None
    assert env.calls == [('reset', expect_draw())]
    state = env.state
    assert env.state is state and len(env.calls) == 1, 'state is not lazy'
    if hasattr(InnerEnv, 'done'):
        assert env.done is False

    # observation: generated on request, once per state
    observation = env.observation
    assert env.calls[-1] == ('observation', id(state), expect_draw())
    assert env.observation is observation and len(env.calls) == 2

    # step without looking at the observation: no observation call
    result = env.step(Action.TURN_LEFT)
    draw = expect_draw()
    assert env.calls[-1] == ('step', id(state), Action.TURN_LEFT, draw)
    assert len(env.calls) == 3
    assert type(result) is tuple and len(result) == 2
    reward, done = result
    assert reward == draw / 7 and type(done) is np.bool_
    assert bool(done) == (draw % 4 == 0)
    if hasattr(InnerEnv, 'done'):
        assert env.done is done
    state_2 = env.state
    assert state_2 is not state

    result = env.step(Action.TURN_RIGHT)
    assert env.calls[-1] == ('step', id(state_2), Action.TURN_RIGHT, expect_draw())
    assert len(env.calls) == 4, 'an observation was generated unasked'

    # a failing step changes nothing, draws nothing, keeps the memo
    state_3 = env.state
    observation_3 = env.observation
    assert env.calls[-1] == ('observation', id(state_3), expect_draw())
    done_before = env.done if hasattr(InnerEnv, 'done') else None
    try:
        env.step(None)
    except ValueError:
        pass
    else:
        raise AssertionError
    assert env.state is state_3 and env.observation is observation_3
    assert len(env.calls) == 5
    if hasattr(InnerEnv, 'done'):
        assert env.done is done_before

    # reset drops the memo;  the new observation belongs to the new state
    env.reset()
    assert env.calls[-1] == ('reset', expect_draw())
    if hasattr(InnerEnv, 'done'):
        assert env.done is False
    state_4 = env.state
    assert state_4 is not state_3
    observation_4 = env.observation
    assert observation_4 is not observation_3
    assert env.calls[-1] == ('observation', id(state_4), expect_draw())
    assert len(env.calls) == 7

    # two live twins, operations interleaved: same logs (ids aside)
    def strip(calls):
        return [tuple(x for x in c if not (isinstance(x, int) and x > 10**6)) for c in calls]

    a, b = CountingEnv(), CountingEnv()
    a.set_seed(4)
    a.reset()
    a.observation
    b.set_seed(4)
    a.step(Action.PICK_N_DROP)
    b.reset()
    b.observation
    a.observation
    a.observation
    b.step(Action.PICK_N_DROP)
    b.observation
    assert strip(a.calls) == strip(b.calls)
    assert snap(a.state) == snap(b.state)
    assert snap(a.observation) == snap(b.observation)


def check_traces_against_reference():
    """GridWorld on top of InnerEnv == reference loop, eager and lazy looks,
    every seed size, illegal steps in between, re-seeding"""
    for name in sorted(CONFIGS):
        cfg_actions = CONFIGS[name]['actions']
        bad = next((a for a in Action if a not in cfg_actions), None)
        for seed in SEEDS:
            actions = actions_for(name, seed, LENGTH)
            env = build_inner(name)

            eager = list(inner_trace_gen(env, seed, actions))
            assert eager == reference_trace(name, seed, actions), (name, seed)

            lazy = lazy_inner_trace(env, seed, actions, bad_action=bad)
            assert lazy == lazy_reference_trace(name, seed, actions), (
                name,
                seed,
                'lazy',
            )

            # same environment, same seed again
            assert list(inner_trace_gen(env, seed, actions)) == eager


def check_functional_interface_leaves_current_state_alone():
    """functional_* draw from the private rng but never touch the bookkeeping"""
    for name in ['dynamic_obstacles_7x9', 'keydoor_6x9', 'empty_5x8_stochastic']:
        env = build_inner(name)
        env.set_seed(3)
        env.reset()
        state, observation = env.state, env.observation
        expected_state, expected_observation = snap(state), snap(observation)
        other = env.functional_reset()
        env.functional_step(other, CONFIGS[name]['actions'][0])
        env.functional_step(state, CONFIGS[name]['actions'][0])
        env.functional_observation(other)
        assert env.state is state and env.observation is observation
        assert snap(env.state) == expected_state, 'functional_step is in-place'
        assert snap(env.observation) == expected_observation
        if hasattr(InnerEnv, 'done'):
            assert env.done is False


def check_isolation_and_interleaving():
    names = sorted(CONFIGS)
    jobs = []
    for i, name in enumerate(names):
        seed = SEEDS[(i + 2) % len(SEEDS)]
        actions = actions_for(name, seed, LENGTH)
        expected = list(inner_trace_gen(build_inner(name), seed, actions))
        jobs.append((name, seed, actions, expected))

    perturb_globals(3)
    before = global_rng_fingerprint()
    for name, seed, actions, expected in jobs:
        got = list(inner_trace_gen(build_inner(name), seed, actions))
        assert got == expected, (name, 'sequential repeat')
    assert global_rng_fingerprint() == before, 'a global source was touched'

    schedule = rnd.default_rng(77)
    live = []
    for name, seed, actions, expected in jobs:
        for s, e in [(seed, expected), (seed, expected), (seed + 17, None)]:
            live.append([name, inner_trace_gen(build_inner(name), s, actions), [], e])
    k = 0
    while live:
        i = int(schedule.integers(len(live)))
        for _ in range(int(schedule.integers(1, 4))):
            k += 1
            perturb_globals(k)
            fingerprint = global_rng_fingerprint()
            try:
                record = next(live[i][1])
            except StopIteration:
                name, _, got, expected = live.pop(i)
                if expected is not None:
                    assert got == expected, (name, 'interleaved')
                break
            assert global_rng_fingerprint() == fingerprint, (
                live[i][0],
                'operation touched a global source',
            )
            live[i][2].append(record)


def check_debug_flag():
    reference = {}
    for flag in [True, False, None]:
        reset_gv_debug(flag)
        for name in sorted(CONFIGS):
            seed = 42
            actions = actions_for(name, seed, LENGTH)
            got = (
                list(inner_trace_gen(build_inner(name), seed, actions)),
                lazy_inner_trace(build_inner(name), seed, actions),
                list(outer_trace_gen(build_outer(name), seed, actions)),
            )
            assert reference.setdefault(name, got) == got, (name, flag)
    reset_gv_debug(None)


def check_copies_are_independent():
    """a deep copy of a live environment continues exactly like the original"""
    import copy

    for name in ['dynamic_obstacles_7x9', 'teleport_7x6']:
        seed = 12
        actions = actions_for(name, seed, LENGTH)
        env = build_inner(name)
        env.set_seed(seed)
        env.reset()
        env.observation
        for action in actions[:10]:
            env.step(action)
        twin = copy.deepcopy(env)
        assert snap(twin.state) == snap(env.state)
        tail_a, tail_b = [], []
        for action in actions[10:]:
            # interleaved
            tail_a.append((env.step(action), snap(env.state), snap(env.observation)))
            tail_b.append((twin.step(action), snap(twin.state), snap(twin.observation)))
        assert tail_a == tail_b, name


def check_processes():
    here = all_digests()
    for hashseed in ['0', '1', '4242', 'random']:
        env = dict(os.environ, PYTHONHASHSEED=hashseed)
        out = subprocess.run(
            [sys.executable, os.path.abspath(__file__), '--digests'],
            env=env,
            cwd=os.getcwd(),
            stdout=subprocess.PIPE,
            stderr=subprocess.DEVNULL,
            check=True,
            universal_newlines=True,
        ).stdout
        assert out.strip().splitlines()[-1] == repr(here), (
            'traces differ in a process with PYTHONHASHSEED=' + hashseed
        )


def main():
    if '--digests' in sys.argv:
        print(repr(all_digests()))
        return

    checks = [
        check_base_class_calling_discipline,
        check_traces_against_reference,
        check_functional_interface_leaves_current_state_alone,
        check_isolation_and_interleaving,
        check_debug_flag,
        check_copies_are_independent,
        check_processes,
    ]
    for check in checks:
        print(check.__name__)
        check()
    print(
        'OK',
        'InnerEnv.done present'
        if hasattr(InnerEnv, 'done')
        else 'InnerEnv.done absent',
    )


if __name__ == '__main__':
    main()
